(* C08 - rendered messages respect the size limit; truncation and padding are exact.
   Model: Model/MessageM.v (to_wire = Message.to_wire with Renderer).  Proofs: Proofs/MessageSize.v *)
From DV Require Import Base.Prelude Model.NameM Model.MessageM.
From DV Require Import Proofs.MessageRender Proofs.MessageSize Proofs.MessagePad Proofs.MessageTrunc.
From DV Require Import Proofs.MessageRead Proofs.MessageRoundtrip Proofs.MessageRoundtrip2 Proofs.MessageRoundtrip3 Proofs.MessageTruncParse Proofs.MessageUpdate Proofs.MessageLimit Proofs.MessageApi.
From DV Require Import Proofs.NameCompress.
Open Scope Z_scope.

(* a rendered message never exceeds its effective limit (512 <= limit <= 65535 after the clamp) *)
Theorem size_bound : forall m origin max_size request_payload prefer_truncation pad w,
  to_wire m origin max_size request_payload prefer_truncation pad = Ok w ->
  zlen w <= eff_limit max_size request_payload /\ 512 <= eff_limit max_size request_payload <= 65535.
Proof. exact size_bound_stmt. Qed.
Print Assumptions size_bound.

(* a record set that does not fit is removed whole (output, table, counts exactly as before, no
   table offset at or beyond the cut); one that fits is present whole with all its records counted *)
Theorem rollback_whole_rrset : forall origin sec rs r b r',
  0 <= sec <= 3 -> TblBelow r -> add_rrset origin sec rs r = Ok (b, r') ->
  exists em new,
    rrset_em rs origin true (zlen (out r)) (tbl r) = Ok (em, tbl r ++ new) /\
    if b then
      zlen (out r) + zlen em > maxsz r /\
      out r' = out r /\ tbl r' = tbl r /\ TblBelow r' /\
      (cq r', can r', cau r', cad r') = (cq r, can r, cau r, cad r)
    else
      zlen (out r') <= maxsz r' /\
      out r' = out r ++ em /\ tbl r' = tbl r ++ new /\ TblBelow r' /\
      cq r' + can r' + cau r' + cad r' = cq r + can r + cau r + cad r + rrset_count rs.
Proof. exact rollback_whole_rrset_lemma. Qed.
Print Assumptions rollback_whole_rrset.

(* at the end of Message.to_wire no compression-table offset points at or beyond the end *)
Theorem no_offset_beyond_end : forall m origin max_size request_payload prefer_truncation pad r,
  to_wire_st m origin max_size request_payload prefer_truncation pad = Ok r ->
  Forall (fun kv => snd kv < zlen (out r)) (tbl r).
Proof. exact table_inside_lemma. Qed.
Print Assumptions no_offset_beyond_end.

(* prefer_truncation (any message, origin, limit, padding, TSIG): the result is, octet for octet,
   the complete rendering of the message cut to a prefix of its record sets in section order
   (questions, then answers, ...: once a section is cut every later section is empty), whose TC
   flag is set exactly when the cut lies before the additional section, and which still carries
   the configured OPT and TSIG records (cut_msg keeps mopt and mtsig) *)
Theorem trunc_prefix : forall m origin max_size request_payload pad w,
  to_wire m origin max_size request_payload true pad = Ok w ->
  exists q1 q2 a1 a2 u1 u2 d1 d2,
    mq m = q1 ++ q2 /\ man m = a1 ++ a2 /\ mau m = u1 ++ u2 /\ mad m = d1 ++ d2 /\
    (q2 <> [] -> a1 = [] /\ u1 = [] /\ d1 = []) /\ (a2 <> [] -> u1 = [] /\ d1 = []) /\ (u2 <> [] -> d1 = []) /\
    to_wire (cut_msg m (if cut_before q2 a2 u2 then Z.lor (mflags m) fTC else mflags m) q1 a1 u1 d1)
            origin max_size request_payload false pad = Ok w.
Proof. exact trunc_prefix_lemma. Qed.
Print Assumptions trunc_prefix.

(* ... and it parses back to exactly that prefix message: same id, flags with TC as stated, TSIG record,
   per section the kept record sets, and the OPT record (with the padding option appended when a block
   size is given) - for every padding block size, with or without origin.
   Hypotheses (the ones of C03 render_parse): WfMsg o m - any opcode but UPDATE (updates: next theorem),
   names absolute-and-not-below-the-origin or relative, TTL <= 2^31-1, distinct record-set keys and distinct
   RDATA per set, and every record set of a type/class for which MessageM.schema_of gives the reader's field
   list: A AAAA SRV KX PX DHCID NSAP NSAP-PTR WKS NAPTR (class IN); A (class CH); NS CNAME SOA PTR MX TXT RRSIG SIG SPF NINFO AVC RESINFO WALLET AFSDB RT
   RP SSHFP TLSA SMIMEA CERT DNSKEY CDNSKEY OPENPGPKEY EUI48 EUI64 L32 L64 NID HINFO X25 NSEC3PARAM URI KEY DS DLV
   CDS ZONEMD CAA CSYNC NSEC3 DNAME NSEC BRID HHIT LP TKEY (any class; the last six with their constructors' content checks, MessageM.chk); and
   every type without a codec in dns/rdtypes (generic form).  Types with a codec outside that list
   (AMTRELAY DSYNC GPOS HIP ISDN LOC; APL HTTPS SVCB IPSECKEY in class IN) are outside
   the theorem; they are exercised by the
   oracle of the limit sweep only. *)
Theorem trunc_parses : forall o pad m max_size request_payload w,
  org_ok o -> WfMsg o m -> wf_tsig m -> to_wire m o max_size request_payload true pad = Ok w ->
  exists q1 q2 a1 a2 u1 u2 d1 d2 m',
    mq m = q1 ++ q2 /\ man m = a1 ++ a2 /\ mau m = u1 ++ u2 /\ mad m = d1 ++ d2 /\
    (q2 <> [] -> a1 = [] /\ u1 = [] /\ d1 = []) /\ (a2 <> [] -> u1 = [] /\ d1 = []) /\ (u2 <> [] -> d1 = []) /\
    from_wire w o po0 = Ok m' /\
    msg_equiv_p pad m' (cut_msg m (if cut_before q2 a2 u2 then Z.lor (mflags m) fTC else mflags m) q1 a1 u1 d1).
Proof. exact trunc_parses_pad_lemma. Qed.
Print Assumptions trunc_parses.

(* the same for dynamic updates (WfUpd: zone section, all prerequisite / delete / add forms): when the zone
   section is kept (q2 = []; it is cut only if the reserved OPT/TSIG octets leave no room for it) the result
   parses back to the update cut to a prefix of its record sets *)
Theorem trunc_parses_update : forall o pad m z max_size request_payload w,
  org_ok o -> WfUpd o m z -> wf_tsig m -> to_wire m o max_size request_payload true pad = Ok w ->
  exists q1 q2 a1 a2 u1 u2 d1 d2,
    mq m = q1 ++ q2 /\ man m = a1 ++ a2 /\ mau m = u1 ++ u2 /\ mad m = d1 ++ d2 /\
    (q2 <> [] -> a1 = [] /\ u1 = [] /\ d1 = []) /\ (a2 <> [] -> u1 = [] /\ d1 = []) /\ (u2 <> [] -> d1 = []) /\
    (q2 = [] ->
     exists m', from_wire w o po0 = Ok m' /\
       msg_equiv_p pad m' (cut_msg m (if cut_before q2 a2 u2 then Z.lor (mflags m) fTC else mflags m) q1 a1 u1 d1)).
Proof. exact trunc_parses_update_lemma. Qed.
Print Assumptions trunc_parses_update.

(* truncation is maximal ("a record set that does not fit is removed": one that was removed did not fit): in the
   very split of trunc_prefix, the prefix extended by the first record set that was left out cannot be rendered at
   the same limit - without prefer_truncation it raises TooBig (any message, TSIG, padding) *)
Theorem trunc_maximal : forall m o max_size request_payload pad w,
  to_wire m o max_size request_payload true pad = Ok w ->
  exists q1 q2 a1 a2 u1 u2 d1 d2,
    mq m = q1 ++ q2 /\ man m = a1 ++ a2 /\ mau m = u1 ++ u2 /\ mad m = d1 ++ d2 /\
    (q2 <> [] -> a1 = [] /\ u1 = [] /\ d1 = []) /\ (a2 <> [] -> u1 = [] /\ d1 = []) /\ (u2 <> [] -> d1 = []) /\
    to_wire (cut_msg m (if cut_before q2 a2 u2 then Z.lor (mflags m) fTC else mflags m) q1 a1 u1 d1)
            o max_size request_payload false pad = Ok w /\
    (forall rs l3, q2 = rs :: l3 ->
       to_wire (cut_msg m (mflags m) (q1 ++ [rs]) [] [] []) o max_size request_payload false pad = Lib eTooBig) /\
    (forall rs l3, q2 = [] -> a2 = rs :: l3 ->
       to_wire (cut_msg m (mflags m) q1 (a1 ++ [rs]) [] []) o max_size request_payload false pad = Lib eTooBig) /\
    (forall rs l3, q2 = [] -> a2 = [] -> u2 = rs :: l3 ->
       to_wire (cut_msg m (mflags m) q1 a1 (u1 ++ [rs]) []) o max_size request_payload false pad = Lib eTooBig) /\
    (forall rs l3, q2 = [] -> a2 = [] -> u2 = [] -> d2 = rs :: l3 ->
       to_wire (cut_msg m (mflags m) q1 a1 u1 (d1 ++ [rs])) o max_size request_payload false pad = Lib eTooBig).
Proof. exact trunc_prefix_maximal_lemma. Qed.
Print Assumptions trunc_maximal.

(* ---- the limit itself ---- *)
(* max_size = 0 means the request payload, else 65535; limits are clamped to 512..65535; nothing else
   (in particular not the payload advertised by the message's own OPT record) enters the limit *)
Theorem limit_defaulting : forall m o max_size request_payload prefer_truncation pad,
  to_wire m o max_size request_payload prefer_truncation pad =
  to_wire m o (clamp (if max_size =? 0 then (if request_payload =? 0 then 65535 else request_payload) else max_size))
          0 prefer_truncation pad.
Proof. exact limit_defaulting_lemma. Qed.
Print Assumptions limit_defaulting.

(* without prefer_truncation: a rendering that succeeds at one limit is the rendering at every larger limit
   (any message, TSIG, padding) *)
Theorem limit_monotone : forall m o max_size request_payload max_size' request_payload' pad w,
  to_wire m o max_size request_payload false pad = Ok w ->
  eff_limit max_size request_payload <= eff_limit max_size' request_payload' ->
  to_wire m o max_size' request_payload' false pad = Ok w.
Proof. exact limit_monotone_lemma. Qed.
Print Assumptions limit_monotone.

(* ... and TooBig is raised exactly when the full rendering exceeds the effective limit: with neither a
   TSIG record nor padding (then the reserve is exactly the OPT record) the result at any other limit is the
   same octets if they fit and TooBig otherwise *)
Theorem toobig_exact : forall m o max_size request_payload max_size' request_payload' w,
  mtsig m = None -> to_wire m o max_size request_payload false 0 = Ok w ->
  compute_opt_reserve m 0 + 12 <= eff_limit max_size' request_payload' ->
  to_wire m o max_size' request_payload' false 0 =
  if zlen w <=? eff_limit max_size' request_payload' then Ok w else Lib eTooBig.
Proof. exact toobig_exact_lemma. Qed.
Print Assumptions toobig_exact.

(* when padding is requested (and the message has an OPT record to carry it) the final length,
   TSIG included, is a multiple of the block size - for every message, origin, limit and key name
   (the repaired code writes the TSIG owner uncompressed after padding; commit d2163b7) *)
Theorem pad_multiple : forall m origin max_size request_payload prefer_truncation pad o w,
  0 < pad -> mopt m = Some o ->
  to_wire m origin max_size request_payload prefer_truncation pad = Ok w -> zlen w mod pad = 0.
Proof. exact pad_multiple_lemma. Qed.
Print Assumptions pad_multiple.

(* with prefer_truncation (and no padding) TooBig is never raised: record sets that do not fit are left out, and
   the reserved OPT and TSIG records always fit - the OPT reserve is exact and the TSIG record, written with
   compression, is at most its reserved (uncompressed) size, a pointer only ever replacing a suffix of two or
   more labels.  (The reserves themselves must leave room for the header: otherwise Renderer.reserve raises
   ValueError, known finding C08-reserve-valueerror.) *)
Theorem trunc_no_toobig : forall m o max_size request_payload tr,
  compute_tsig_reserve m = Ok tr ->
  compute_opt_reserve m 0 + tr + 12 <= eff_limit max_size request_payload ->
  to_wire m o max_size request_payload true 0 <> Lib eTooBig.
Proof. exact trunc_no_toobig_lemma. Qed.
Print Assumptions trunc_no_toobig.

(* known finding C08-reserve-valueerror, as a theorem: "rendering either raises TooBig or (prefer_truncation)
   returns a truncated message" does NOT hold when the reserved OPT/TSIG octets alone exceed the limit -
   Renderer.reserve raises ValueError (pinned by tests/test_renderer.py); the same message renders at 65535 *)
Theorem toobig_or_truncated_refuted :
  exists m, to_wire m None 512 0 true 0 = Internal iValueError /\ to_wire m None 512 0 false 0 = Internal iValueError /\
            exists w, to_wire m None 65535 0 false 0 = Ok w.
Proof. exact toobig_or_truncated_refuted_lemma. Qed.
Print Assumptions toobig_or_truncated_refuted.

(* ... and the whole class of such inputs (known finding C08-reserve-valueerror): whenever the OPT reserve exceeds
   the effective limit, or the TSIG reserve exceeds what the OPT reserve left of it, to_wire raises the
   ValueError of Renderer.reserve, with and without prefer_truncation, for every origin and padding *)
Theorem reserve_overflow_valueerror_refuted : forall m o max_size request_payload prefer pad,
  (eff_limit max_size request_payload < compute_opt_reserve m pad \/
   exists t, compute_tsig_reserve m = Ok t /\ eff_limit max_size request_payload - compute_opt_reserve m pad < t) ->
  to_wire m o max_size request_payload prefer pad = Internal iValueError.
Proof. exact reserve_valueerror_lemma. Qed.
Print Assumptions reserve_overflow_valueerror_refuted.

(* ---- dns.renderer.Renderer used directly ---- *)
(* a Renderer created with max_size, after ANY sequence of add_question / add_rrset / reserve /
   release_reserved / add_opt (any padding arguments) / write_header / _write_tsig calls in any order, with
   TooBig caught by the caller and the sequence continued (MessageM.run_rops): the output is at most
   max(12, max_size) octets; the four header counts add up to the records of the calls that were accepted
   (a call that raised TooBig counts nothing: it was rolled back whole); every compression-table offset lies
   inside the output and decodes there - header included, whatever was written into it - to its key *)
Theorem renderer_api_invariant : forall origin id flags max_size ops res r,
  run_rops origin id ops (mkRst (repeat 0 12) [] 0 0 0 0 0 flags max_size 0 false) [] = (res, r) ->
  12 <= zlen (out r) <= Z.max 12 max_size /\
  cq r + can r + cau r + cad r = accepted origin id ops (mkRst (repeat 0 12) [] 0 0 0 0 0 flags max_size 0 false) /\
  Forall (fun kv => snd kv < zlen (out r)) (tbl r) /\
  TableSound (out r) (tbl r) /\
  (* the budget: what reserve() took is exactly what release_reserved() gives back *)
  (maxsz r + reserved r = max_size /\ 0 <= reserved r).
Proof. exact renderer_api_invariant_lemma. Qed.
Print Assumptions renderer_api_invariant.

(* ---- non-vacuity: a message that is truncated at limit 512, and one rolled-back record set ---- *)
Definition ex_rr (k : Z) : rrset :=
  mkRR [[119; 119; 119]; [101; 120]; []] 1 16 0 None 300 [[PB (200 :: repeat k 200)]].
Definition ex_msg : msg :=
  mkMsg 7 256 [mkRR [[119; 119; 119]; [101; 120]; []] 1 16 0 None 0 []]
        [ex_rr 1; ex_rr 2; ex_rr 3] [] [] (Some (mkOpt 0 1232 [])) None.

Example truncated_at_512 :
  exists w, to_wire ex_msg None 512 0 true 0 = Ok w /\ zlen w = 461 /\ nth 2 w 0 = 3.
Proof. eexists. vm_compute. repeat split; reflexivity. Qed.

Example too_big_at_512 : to_wire ex_msg None 512 0 false 0 = Lib eTooBig.
Proof. vm_compute. reflexivity. Qed.

Example rollback_happens :
  exists r', add_rrset None 1 (ex_rr 1)
                       (mkRst (repeat 0 400) [] 0 0 0 0 0 0 512 0 false) = Ok (true, r')
             /\ zlen (out r') = 400.
Proof. eexists. vm_compute. split; reflexivity. Qed.

(* the configuration that used to give 245: pad 128, TSIG key name sharing a suffix with the question *)
Definition ex_pad : msg :=
  mkMsg 1 256 [mkRR [[119; 119; 119]; [101; 120]; []] 1 1 0 None 0 []] [] [] []
        (Some (mkOpt 0 1232 []))
        (Some ([[107; 101; 121]; [101; 120]; []],
               [PU [[104; 109; 97; 99]; []]; PB (repeat 0 8); PB (0 :: 32 :: repeat 7 32); PB [0; 1]; PB [0; 0]; PB [0; 0]])).
Example padded_with_tsig :
  exists w, to_wire ex_pad None 0 0 false 128 = Ok w /\ zlen w = 128.
Proof. eexists. vm_compute. split; reflexivity. Qed.
