(* C08 - size limit, truncation, padding (theorems are added below) *)
From DV Require Import Base.Prelude Model.NameM Model.MessageM.
