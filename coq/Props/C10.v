(* C10 - zone transactions match a reference model and are all-or-nothing.
   Model: Model/TxnM.v.  `impl_hist` is dns.transaction.Transaction over the zone's WritableVersion
   (validated / relativized keys, copy-on-write node map, Node list surgery); `spec_hist` is the same
   transaction front-end over the flat reference store (absolute owner, rdataset) with declarative
   CNAME/other-data exclusivity.  Proofs: Proofs/Txn*.v. *)
From DV Require Import Base.Prelude Model.NameM Model.TxnM.
From DV Require Import Proofs.NameValid Proofs.TxnName Proofs.TxnStore Proofs.TxnLow Proofs.TxnSim Proofs.TxnThm
                       Proofs.TxnIrrel Proofs.TxnSpec Proofs.TxnInv Proofs.TxnItems Proofs.TxnAbs Proofs.TxnHeap Proofs.TxnCount Proofs.TxnObj Proofs.TxnObjR Proofs.TxnBtree Proofs.TxnHook.
Open Scope Z_scope.

(* Any history of transactions - every operation and argument form, manual commit/rollback or with-block,
   an exception injected after any index - gives on the zone model and on the reference store the same
   result for every call (values and exception classes), and published zones that stay related after
   every transaction. *)
Theorem refines :
  forall c h z l, wfc c -> Forall spec_valid h -> RP c z l ->
  Forall2 (ROut (RP c)) (impl_hist c h z) (spec_hist c h l).
Proof. exact refines_hist. Qed.
Print Assumptions refines.

(* The refinement with EVERY call of a transaction inside, the iterate calls included (iterate_names /
   iterate_rdatasets count the names and rdatasets of the private state): the relation is strengthened with
   the structural well-formedness of the node map and "owners of the reference store are canonical". *)
Theorem refines_with_iteration :
  forall c h z l, wfc c -> Forall spec_valid_it h -> RP2 c z l ->
  Forall2 (ROut (RP2 c)) (impl_hist c h z) (spec_hist c h l).
Proof. exact refines_iter. Qed.
Print Assumptions refines_with_iteration.

Theorem every_wellformed_zone_is_related_to_its_abstraction :
  forall c m, wfc c -> zwf c m -> RP2 c m (abs c m).
Proof. exact RP2_abs. Qed.
Print Assumptions every_wellformed_zone_is_related_to_its_abstraction.

(* The same with the abstraction function: a well-formed node map z (no duplicate key, validated keys, no
   empty node, one rdataset per type) denotes the reference store `abs c z`; for every such zone,
   abs (exec_impl h z) ~ exec_spec h (abs z) with equal results, and well-formedness is preserved. *)
Theorem refines_from_any_wellformed_zone :
  forall c h z, wfc c -> Forall spec_valid h -> zwf c z ->
  Forall2 (fun x y => fst x = fst y /\ zwf c (snd x) /\ store_equiv c (abs c (snd x)) (snd y))
          (impl_hist c h z) (spec_hist c h (abs c z)).
Proof. exact refines_abs. Qed.
Print Assumptions refines_from_any_wellformed_zone.

Theorem wellformed_zone_denotes_its_abstraction :
  forall c m, wfc c -> zwf c m -> RP c m (abs c m).
Proof. exact RP_abs. Qed.
Print Assumptions wellformed_zone_denotes_its_abstraction.

Theorem no_empty_node_under_any_key :
  forall c h z, wfc c -> Forall spec_valid h -> zwf c z ->
  Forall (fun x => Forall (fun kn => snd kn <> []) (snd x)) (impl_hist c h z).
Proof. exact no_empty_node_anywhere. Qed.
Print Assumptions no_empty_node_under_any_key.

(* iterate_names / iterate_rdatasets (the one observation `refines` leaves out): a well-formed version counts
   exactly the distinct owners and the records of its abstraction *)
Theorem iteration_counts_are_those_of_the_abstraction :
  forall c m ch d, wfc c -> zwf c m ->
  s_count (zstore c) (mkVer m ch) = s_count (rstore c) (mkRst (abs c m) d).
Proof. exact iter_counts_abs. Qed.
Print Assumptions iteration_counts_are_those_of_the_abstraction.

(* "related" for an observer: Zone.get_node(name) shows, for every owner name in either spelling, exactly
   the rdatasets of the reference store for that owner *)
Theorem related_zones_look_the_same :
  forall c z l n, wfc c -> Valid n -> RP c z l -> zone_get_node c z n = ref_node c l n.
Proof. exact RP_observe. Qed.
Print Assumptions related_zones_look_the_same.

(* empty nodes are removed *)
Theorem empty_nodes_removed :
  forall c z l n nd, wfc c -> Valid n -> RP c z l -> zone_get_node c z n = Some nd -> nd <> [].
Proof. exact RP_no_empty_node. Qed.
Print Assumptions empty_nodes_removed.

(* all-or-nothing: a with-block left through an exception, raised by an operation or injected by the
   caller after any index, leaves the published zone exactly as it was (for any store) *)
Theorem atomic :
  forall P S (st : store P S) c ops fault z t outs z',
  no_commit ops -> run_with st c ops fault z t = (outs, z') -> existsb is_err outs = true -> z' = z.
Proof. exact @atomic_with_abort. Qed.
Print Assumptions atomic.

Theorem atomic_every_crash_point :
  forall P S (st : store P S) c ops k z t, no_commit ops -> snd (run_with st c ops (Some k) z t) = z.
Proof. exact @atomic_crash_point. Qed.
Print Assumptions atomic_every_crash_point.

Theorem atomic_without_commit :
  forall P S (st : store P S) c ops z t, no_commit ops -> snd (run_manual st c ops z t) = z.
Proof. exact @atomic_manual_no_commit. Qed.
Print Assumptions atomic_without_commit.

(* ... and a with-block whose calls all succeed commits: the published zone becomes the transaction's own
   view (its private state, which its reads saw) if it changed anything *)
Theorem clean_exit_publishes_the_transaction_view :
  forall P S (st : store P S) c ops z t outs z',
  no_end ops -> t_ended t = false ->
  run_with st c ops None z t = (outs, z') -> existsb is_err outs = false ->
  exists t', final_txn st c ops z t = Some t' /\
             z' = if negb (t_ro t') && s_changed st (t_st t') then s_publish st (t_st t') else z.
Proof. exact @clean_exit_commits. Qed.
Print Assumptions clean_exit_publishes_the_transaction_view.

(* All-or-nothing at the level of objects (the object-level model `hstore`: node objects with identity, the
   open version sharing them with the published zone, copy-on-write): whatever calls succeed inside a
   transaction, and however it ends, every node object that existed when it began still holds what it held -
   so the published zone and every older version are intact. *)
Theorem published_objects_never_mutated :
  forall c z mode ops t',
  ids_ok (fst z) (snd z) -> Forall op_valid ops ->
  final_txn (hstore c) c ops z (open_txn (hstore c) mode z) = Some t' ->
  forall id, (id < length (fst z))%nat -> hnode (hv_heap (t_st t')) id = hnode (fst z) id.
Proof. exact TxnHeap.published_objects_never_mutated. Qed.
Print Assumptions published_objects_never_mutated.

(* The same one level deeper, where Rdataset / ImmutableRdataset objects have identity too (a copied node shares
   its rdataset objects with the published node; in a plain zone they are mutable): every rdataset object -
   value and mutability - and every node object that existed when the transaction began is exactly as it was,
   because every in-place method is applied to an object the transaction created itself (the clone of
   union/intersection/difference, the Rdataset copy of an ImmutableRdataset in _add, the copied node).  An
   in-place edit of a published rdataset is thereby excluded for this model. *)
Theorem published_rdataset_objects_never_mutated :
  forall c rh nh m mode ops t',
  o_final c ops (rh, nh, m) (o_open mode (rh, nh, m)) = Some t' ->
  (forall i, (i < length rh)%nat -> nth i (ov_rh (t_st t')) robj0 = nth i rh robj0) /\
  (forall i, (i < length nh)%nat -> nth i (ov_nh (t_st t')) [] = nth i nh []).
Proof. exact published_rdatasets_never_mutated. Qed.
Print Assumptions published_rdataset_objects_never_mutated.

(* all-or-nothing for the published triple (rdataset objects, node objects, node map) of the object model *)
Theorem object_level_atomic_every_crash_point :
  forall c ops k z t, no_commit ops -> snd (o_run_with c ops (Some k) z t) = z.
Proof. exact o_atomic_crash_point. Qed.
Print Assumptions object_level_atomic_every_crash_point.

Theorem object_level_atomic_without_commit :
  forall c ops z t, no_commit ops -> snd (o_run_manual c ops z t) = z.
Proof. exact o_atomic_no_commit. Qed.
Print Assumptions object_level_atomic_without_commit.

Theorem object_level_ended_refuses_all :
  forall c o z (t : txn (S:=over)), t_ended t = true -> o_step c o z t = Lib eAlreadyEnded.
Proof. exact o_ended_refuses. Qed.
Print Assumptions object_level_ended_refuses_all.

(* commit (incl. the ImmutableVersion wrapping of versioned / B-tree zones) only allocates new objects *)
Theorem commit_never_mutates_objects :
  forall c v,
  let '(rh', nh', _) := o_publish c v in
  (forall i, (i < length (ov_rh v))%nat -> nth i rh' robj0 = nth i (ov_rh v) robj0) /\
  (forall i, (i < length (ov_nh v))%nat -> nth i nh' [] = nth i (ov_nh v) []).
Proof. exact publish_never_mutates. Qed.
Print Assumptions commit_never_mutates_objects.

(* the rdataset-object model refines the value-level model: same result for every call of every history
   (iterate calls included), for plain, versioned and B-tree style commits alike, and the published objects
   dereference to the published value (`published_objects_dereference_to_the_value`) *)
Theorem rdataset_object_level_refines_value_level :
  forall c h oz z, Forall spec_items_wf h -> RPo oz z ->
  Forall2 ROuto (obj_hist c h oz) (impl_hist c h z).
Proof. exact obj_refines_value. Qed.
Print Assumptions rdataset_object_level_refines_value_level.

(* the whole chain in one statement: the rdataset-object model and the reference store give the same results *)
Theorem rdataset_object_level_refines_the_reference_store :
  forall c h oz z l, wfc c -> Forall spec_valid h -> Forall spec_items_wf h -> RPo oz z -> RP c z l ->
  Forall2 (fun x y => fst x = fst y /\ exists z', RPo (snd x) z' /\ RP c z' (snd y)) (obj_hist c h oz) (spec_hist c h l).
Proof. exact obj_refines_reference. Qed.
Print Assumptions rdataset_object_level_refines_the_reference_store.

Theorem published_objects_dereference_to_the_value :
  forall oz z, RPo oz z -> z = oderef oz.
Proof. exact RPo_oderef. Qed.
Print Assumptions published_objects_dereference_to_the_value.

(* the object-level model refines the value-level model that `refines` is about: same results for every
   call, and the published objects dereference to the published value *)
Theorem object_level_refines_value_level :
  forall c h hz z, Forall spec_valid h -> RPh hz z ->
  Forall2 (ROut RPh) (heap_hist c h hz) (impl_hist c h z).
Proof. exact heap_refines_value. Qed.
Print Assumptions object_level_refines_value_level.

(* ended transactions refuse every call; read-only transactions refuse every write *)
Theorem ended_refuses_all :
  forall P S (st : store P S) c o z t, t_ended t = true -> step st c o z t = Lib eAlreadyEnded.
Proof. exact @ended_refuses. Qed.
Print Assumptions ended_refuses_all.

Theorem commit_and_rollback_end :
  forall P S (st : store P S) commit z t z' t', hl_end st commit z t = Ok (z', t') -> t_ended t' = true.
Proof. exact @end_ends. Qed.
Print Assumptions commit_and_rollback_end.

Theorem readonly_refuses_writes :
  forall P S (st : store P S) c o z t,
  t_ended t = false -> t_ro t = true -> is_write o = true -> step st c o z t = Lib eReadOnly.
Proof. exact @readonly_refuses. Qed.
Print Assumptions readonly_refuses_writes.

Theorem readonly_changes_nothing :
  forall P S (st : store P S) c o z t x z' t',
  t_ro t = true -> step st c o z t = Ok (x, z', t') -> z' = z /\ t_st t' = t_st t /\ t_ro t' = true.
Proof. exact @readonly_never_changes. Qed.
Print Assumptions readonly_changes_nothing.

(* "identically for ... B-tree zones", for the overrides themselves: dns.btreezone.WritableVersion (node
   flags, delegation index, update_glue_flag re-creating the nodes beneath a cut) as a store gives the same
   result for every call of every history as the base WritableVersion, and the same content under every key *)
Theorem btree_overrides_leave_content_alone :
  forall c h bz z, Forall spec_valid h -> RPb bz z ->
  Forall2 (ROut RPb) (btree_hist c h bz) (impl_hist c h z).
Proof. exact btree_refines_value. Qed.
Print Assumptions btree_overrides_leave_content_alone.

(* check_put_rdataset / check_delete_rdataset / check_delete_name: the checks are a store transformer, so the
   store-generic theorems (atomic, ended_refuses_all, ...) hold with checks installed; the refinement lifts *)
Theorem refines_with_checks_installed :
  forall c, wfc c -> forall hk h z l, Forall spec_valid h -> RP c z l ->
  Forall2 (ROut (RP c)) (run_hist (hooked (zstore c) hk) c h z) (run_hist (hooked (rstore c) hk) c h l).
Proof. exact refines_hooked. Qed.
Print Assumptions refines_with_checks_installed.

Theorem a_check_that_objects_vetoes_the_put :
  forall P S (st : store P S) hk s n r e,
  run_hooks st (hk_put hk) s n (r_ty r) (r_ttl r) = Lib e -> s_put (hooked st hk) s n r = Lib e.
Proof. exact @put_check_vetoes. Qed.
Print Assumptions a_check_that_objects_vetoes_the_put.

(* ---------------------------------------------------------------- name form / configuration *)
(* Two histories that differ only in how owner names are spelled (relative or absolute, letter case:
   `ES`), run on zones of any class with relativize on or off (c1, c2 share only the origin) that hold
   the same content, give the same result for every call and end with the same content. *)
Theorem name_form_irrelevant :
  forall c1 c2, wfc c1 -> wfc c2 -> c_origin c1 = c_origin c2 ->
  forall h1 h2 z1 z2, Forall2 (spec_rel (ES c1 c2)) h1 h2 -> same_zone c1 c2 z1 z2 ->
  Forall2 (fun x y => fst x = fst y /\ same_zone c1 c2 (snd x) (snd y)) (impl_hist c1 h1 z1) (impl_hist c2 h2 z2).
Proof. exact impl_irrelevant. Qed.
Print Assumptions name_form_irrelevant.

Theorem same_content_looks_the_same :
  forall c1 c2, wfc c1 -> wfc c2 ->
  forall z1 z2 n1 n2, same_zone c1 c2 z1 z2 -> ES c1 c2 n1 n2 -> zone_get_node c1 z1 n1 = zone_get_node c2 z2 n2.
Proof. exact same_zone_observe. Qed.
Print Assumptions same_content_looks_the_same.

(* the spellings the property names are instances of ES *)
Theorem relative_and_absolute_are_the_same_owner :
  forall c r, wfc c -> Valid r -> is_absolute r = false -> Valid (r ++ c_origin c) -> ES c c r (r ++ c_origin c).
Proof. exact ES_rel_abs. Qed.
Print Assumptions relative_and_absolute_are_the_same_owner.

Theorem letter_case_is_the_same_owner :
  forall c n n', wfc c -> Valid n -> Valid n' -> ci n n' -> is_absolute n = true -> ES c c n n'.
Proof. exact ES_case. Qed.
Print Assumptions letter_case_is_the_same_owner.

Theorem letter_case_of_a_relative_name_is_the_same_owner :
  forall c r r', wfc c -> Valid r -> Valid r' -> ci r r' -> is_absolute r = false -> ES c c r r'.
Proof. exact ES_case_rel. Qed.
Print Assumptions letter_case_of_a_relative_name_is_the_same_owner.

(* ---------------------------------------------------------------- what the reference model predicts *)
(* get after put on the reference store: the stored rdataset; CNAME / other-data exclusivity *)
Theorem reference_get_after_put :
  forall c s n r s' n' a a' ty cov,
  swf (rs_entries s) -> r_cls r = cIN -> canon c n = Ok a -> canon c n' = Ok a' ->
  r_put c s n r = Ok s' ->
  r_get c s' n' ty cov =
  if name_eqb a a' then
    if (r_ty r =? ty) && (r_cov r =? cov) then Ok (Some r)
    else match r_get c s n' ty cov with
         | Ok (Some x) => if evicts_rds (classify_rds r) x then Ok None else Ok (Some x)
         | o => o
         end
  else r_get c s n' ty cov.
Proof. exact r_get_put. Qed.
Print Assumptions reference_get_after_put.

Theorem reference_get_after_delete :
  forall c s n s' n' a a' ty0 cov0 ty cov,
  swf (rs_entries s) -> canon c n = Ok a -> canon c n' = Ok a' ->
  r_del_rds c s n ty0 cov0 = Ok s' ->
  r_get c s' n' ty cov = if name_eqb a a' && (ty0 =? ty) && (cov0 =? cov) then Ok None else r_get c s n' ty cov.
Proof. exact r_get_del_rds. Qed.
Print Assumptions reference_get_after_delete.

Theorem reference_exists_after_delete_name :
  forall c s n s' n' a a',
  canon c n = Ok a -> canon c n' = Ok a' -> r_del_name c s n = Ok s' ->
  r_exists c s' n' = if name_eqb a a' then Ok false else r_exists c s n'.
Proof. exact r_exists_del_name. Qed.
Print Assumptions reference_exists_after_delete_name.

(* merge: TTL minimisation, union for plain types, newest record for singleton types *)
Theorem merge_ttl_is_min :
  forall e r, r_ttl (rds_union e r) = match r_items e with [] => r_ttl r | _ => Z.min (r_ttl e) (r_ttl r) end.
Proof. exact union_ttl. Qed.
Print Assumptions merge_ttl_is_min.

Theorem merge_plain_is_union :
  forall e r, is_singleton (r_ty e) = false ->
  (forall x, mem x (r_items (rds_union e r)) = mem x (r_items e) || mem x (r_items r)) /\
  exists suffix, r_items (rds_union e r) = r_items e ++ suffix.
Proof. exact union_items_plain. Qed.
Print Assumptions merge_plain_is_union.

Theorem merge_singleton_keeps_newest :
  forall e r, is_singleton (r_ty e) = true ->
  r_items (rds_union e r) = match rev (r_items r) with [] => r_items e | newest :: _ => [newest] end.
Proof. exact union_items_singleton. Qed.
Print Assumptions merge_singleton_keeps_newest.

Theorem delete_is_difference :
  forall e r, NoDup (r_items e) ->
  (forall x, mem x (r_items (rds_difference e r)) = mem x (r_items e) && negb (mem x (r_items r))) /\
  r_ttl (rds_difference e r) = r_ttl e.
Proof. exact difference_items. Qed.
Print Assumptions delete_is_difference.

Theorem delete_exact_test :
  forall e r, r_cls e = r_cls r -> tkey e = tkey r -> NoDup (r_items e) -> NoDup (r_items r) ->
  (rds_eqb (rds_intersection e r) r = true <-> forall x, In x (r_items r) -> In x (r_items e)).
Proof. exact exact_test. Qed.
Print Assumptions delete_exact_test.

(* reads inside a transaction see its own writes (zone model) *)
Theorem read_your_writes :
  forall c, wfc c -> forall v s n r v' n',
  R c v s -> Valid n -> Valid n' -> r_cls r = cIN -> res_rel ci (canon c n) (canon c n') ->
  put_rdataset c v n r = Ok v' ->
  match canon c n with
  | Ok _ => get_rdataset c v' n' (r_ty r) (r_cov r) = Ok (Some r)
  | _ => True
  end.
Proof. exact TxnSpec.read_your_writes. Qed.
Print Assumptions read_your_writes.

Theorem add_then_get_returns_the_union :
  forall c, wfc c -> forall v s n r v',
  R c v s -> Valid n -> r_cls r = cIN -> (r_ty r =? tSOA) = false ->
  hl_add (zstore c) c false [AName n; ARds r] v = Ok v' ->
  exists old, get_rdataset c v n (r_ty r) (r_cov r) = Ok old /\
    get_rdataset c v' n (r_ty r) (r_cov r) = Ok (Some (match old with Some e => rds_union e r | None => r end)).
Proof. exact add_then_get. Qed.
Print Assumptions add_then_get_returns_the_union.

(* RFC 1982 serial increments (dns.serial.Serial.__add__ as used by update_serial) *)
Theorem serial_rfc1982 :
  forall v d, 0 <= v < 4294967296 -> 1 <= d <= 2147483647 ->
  exists s, serial_add v d = Ok s /\ s = (v + d) mod 4294967296 /\ serial_lt v s.
Proof. exact serial_increment. Qed.
Print Assumptions serial_rfc1982.

Theorem serial_rfc1982_zero_skipped :
  forall v d s, 0 <= v < 4294967296 -> 1 <= d <= 2147483646 -> serial_add v d = Ok s -> serial_lt v (bump s).
Proof. exact serial_increment_bumped. Qed.
Print Assumptions serial_rfc1982_zero_skipped.

Theorem serial_too_large_increment_refused :
  forall v d, d > 2147483647 -> serial_add v d = Lib eValueError.
Proof. exact serial_increment_refused. Qed.
Print Assumptions serial_too_large_increment_refused.

(* the one corner where "0 becomes 1" lands at distance exactly 2^31 (undefined in RFC 1982) *)
Theorem serial_zero_skip_corner_refuted :
  exists v d s, 0 <= v < 4294967296 /\ 1 <= d <= 2147483647 /\ serial_add v d = Ok s /\
                ~ serial_lt v (bump s) /\ ~ serial_lt (bump s) v.
Proof. exact serial_corner_refuted. Qed.
Print Assumptions serial_zero_skip_corner_refuted.

(* update_serial as a public call on the reference store (and, by `refines`, on the zone): the SOA then
   holds the RFC 1982 sum, 1 instead of 0, TTL and other fields unchanged *)
Theorem update_serial_stores_the_rfc1982_sum :
  forall c s body serial items ttl value,
  wfc c -> swf (rs_entries s) ->
  r_get c s NameM.empty tSOA 0 = Ok (Some (mkRds cIN tSOA 0 ttl ((body, serial) :: items))) ->
  0 <= value <= 2147483647 ->
  exists s',
    hl_update_serial (rstore c) c value true None (mkTxn s false false) = Ok (mkTxn s' false false) /\
    r_get c s' NameM.empty tSOA 0 =
      Ok (Some (mkRds cIN tSOA 0 ttl [(body, bump ((serial mod 4294967296 + value) mod 4294967296))])).
Proof. exact update_serial_effect. Qed.
Print Assumptions update_serial_stores_the_rfc1982_sum.

(* update_serial, the full table: every value, relative or absolute, given an SOA at the origin *)
Theorem update_serial_full_table :
  forall c, wfc c -> forall s body serial items ttl value relative,
  swf (rs_entries s) ->
  r_get c s [] tSOA 0 = Ok (Some (mkRds cIN tSOA 0 ttl ((body, serial) :: items))) ->
  let t := mkTxn s false false in
  let result := hl_update_serial (rstore c) c value relative None t in
  if value <? 0 then result = Lib eValueError
  else if relative && (value >? 2147483647) then result = Lib eValueError
  else
    let sum := if relative then (serial mod 4294967296 + value) mod 4294967296 else value mod 4294967296 in
    exists s', result = Ok (mkTxn s' false false) /\
               r_get c s' [] tSOA 0 = Ok (Some (mkRds cIN tSOA 0 ttl [(body, bump sum)])).
Proof. exact update_serial_table. Qed.
Print Assumptions update_serial_full_table.

Theorem update_serial_without_soa_is_keyerror :
  forall c s value relative, 0 <= value -> r_get c s [] tSOA 0 = Ok None ->
  hl_update_serial (rstore c) c value relative None (mkTxn s false false) = Lib eKeyError.
Proof. exact update_serial_no_soa. Qed.
Print Assumptions update_serial_without_soa_is_keyerror.

(* changed() is truthful: while it answers False, the version's node map is literally the one it started from *)
Theorem changed_false_means_untouched :
  forall c mode z ops t',
  Forall op_valid ops ->
  final_txn (zstore c) c ops z (open_txn (zstore c) mode z) = Some t' ->
  s_changed (zstore c) (t_st t') = false ->
  v_nodes (t_st t') = v_nodes (t_st (open_txn (zstore c) mode z)).
Proof. exact changed_is_truthful. Qed.
Print Assumptions changed_false_means_untouched.

(* no Python-level exception escapes: the partial operations of the model (`del self.nodes[name]` in
   delete_rdataset - the KeyError of the defect fixed by 2d6b3bb -, the assertion in _add) never fail *)
Theorem no_python_exception_escapes :
  forall c h z l, wfc c -> Forall spec_valid h -> Forall spec_named h -> RP c z l ->
  Forall (fun x => Forall not_internal (fst x)) (impl_hist c h z).
Proof. exact impl_never_internal. Qed.
Print Assumptions no_python_exception_escapes.

(* singleton rule as an invariant: whatever is added, merged or deleted, every rdataset found in a reachable
   zone is duplicate-free and holds at most one record if its type is SOA, CNAME, DNAME, NSEC or NXT *)
Theorem singleton_and_no_duplicates_invariant :
  forall c h z l, wfc c -> Forall spec_valid h -> Forall spec_items_wf h -> RP c z l -> ent_items_wf l ->
  Forall (fun x => forall n nd, Valid n -> zone_get_node c (snd x) n = Some nd -> Forall items_wf nd) (impl_hist c h z).
Proof. exact singleton_invariant. Qed.
Print Assumptions singleton_and_no_duplicates_invariant.

(* ---------------------------------------------------------------- non-vacuity *)
Definition ex_origin : name := [[101; 120]; []].                    (* ex. *)
Definition ex_cfg : cfg := mkCfg 0 true ex_origin.

Example ex_wfc : wfc ex_cfg.
Proof.
  split; [|reflexivity]. repeat split.
  - repeat constructor; cbn; lia.
  - cbn. lia.
  - repeat constructor. discriminate.
Qed.

Example ex_related : RP ex_cfg [] [].
Proof. apply RP_empty. Qed.

Definition ex_www : name := [[119]].                               (* w   (relative) *)
Definition ex_www_abs : name := [[119]; [101; 120]; []].           (* w.ex. *)
Definition ex_a : rds := mkRds 1 1 0 300 [(1, 0)].
Definition ex_hist : list txnspec :=
  [ mkSpec 0 1 [OAdd [AName ex_www; ARds ex_a]] None;                                   (* committed *)
    mkSpec 0 1 [ODelete [AName ex_www_abs; AInt 1]; OExists (AName ex_www)] (Some 2%nat) ]. (* aborted  *)

Example ex_valid : Forall spec_valid ex_hist.
Proof.
  assert (Valid ex_www) by (repeat split; [repeat constructor; cbn; lia|cbn; lia|constructor]).
  assert (Valid ex_www_abs).
  { repeat split; [repeat constructor; cbn; lia|cbn; lia|repeat constructor; discriminate]. }
  unfold ex_hist. constructor; [|constructor; [|constructor]]; unfold spec_valid; cbn [x_ops].
  - constructor; [|constructor]. cbn [op_valid]. constructor; [exact H|constructor; [exact Logic.I|constructor]].
  - constructor; [|constructor; [|constructor]]; cbn [op_valid arg_valid]; auto.
    constructor; [exact H0|constructor; [exact Logic.I|constructor]].
Qed.

(* the last rdataset of a node deleted through the absolute spelling, in a relativized zone (the
   sequence that raised KeyError before fix 2d6b3bb), then the abort leaves the committed content *)
Example ex_run :
  map (fun x => (map obs_of_out (fst x), snd x)) (impl_hist ex_cfg ex_hist []) =
  [ ([N], [(ex_www, [ex_a])]);
    ([N; ob false; E eInjected], [(ex_www, [ex_a])]) ].
Proof. vm_compute. reflexivity. Qed.

(* the two spellings of `w` in zone ex. are the same owner; the two configurations hold the same content *)
Example ex_same_owner : ES ex_cfg (mkCfg 2 false ex_origin) ex_www ex_www_abs.
Proof.
  split; [|split]; [| |vm_compute; reflexivity].
  - repeat split; [repeat constructor; cbn; lia|cbn; lia|constructor].
  - repeat split; [repeat constructor; cbn; lia|cbn; lia|repeat constructor; discriminate].
Qed.

Example ex_same_zone : same_zone ex_cfg (mkCfg 2 false ex_origin) [] [].
Proof. exists [], []. split; [apply RP_empty|split; [apply RP_empty|constructor]]. Qed.

Example ex_named : Forall spec_named ex_hist.
Proof. repeat constructor. Qed.

Example ex_items_wf : Forall spec_items_wf ex_hist /\ ent_items_wf [].
Proof.
  split; [|constructor]. unfold ex_hist, spec_items_wf. repeat constructor; cbn; try lia; try (intros []).
Qed.

(* hypotheses of the reference-store laws *)
Example ex_law_hyps :
  swf [] /\ canon ex_cfg ex_www = Ok ex_www_abs /\ canon ex_cfg ex_www_abs = Ok ex_www_abs /\
  exists s', r_put ex_cfg (mkRst [] false) ex_www ex_a = Ok s'.
Proof.
  split; [intros a; apply node_wf_nil|]. split; [reflexivity|]. split; [reflexivity|]. eexists. reflexivity.
Qed.

Example ex_zwf : zwf ex_cfg [] /\ zwf ex_cfg [(ex_www, [ex_a])].
Proof.
  split; [apply zwf_nil|]. split; [cbn; auto|]. constructor; [|constructor]. cbn [fst snd]. split.
  - split; [repeat split; [repeat constructor; cbn; lia|cbn; lia|constructor]|reflexivity].
  - split; [discriminate|]. split; [repeat constructor; intros []|repeat constructor].
Qed.

Example ex_heap : RPh ([], []) [] /\ ids_ok (@nil node) [].
Proof. split; [apply RPh_empty|intros i []]. Qed.

(* object identities: the committed add allocates a new node object (id 0); the aborted delete copies it
   (id 1, garbage after the abort) and the published map still points to object 0, which is untouched *)
Example ex_heap_run :
  map snd (heap_hist ex_cfg ex_hist ([], [])) =
  [ ([[ex_a]], [(ex_www, 0%nat)]); ([[ex_a]], [(ex_www, 0%nat)]) ].
Proof. vm_compute. reflexivity. Qed.

Example ex_related2 : RP2 ex_cfg [] [].
Proof. apply RP2_empty. Qed.

Example ex_iter_valid :
  Forall spec_valid_it [mkSpec 0 1 [OAdd [AName ex_www; ARds ex_a]; OIter] None] /\
  map fst (impl_hist ex_cfg [mkSpec 0 1 [OAdd [AName ex_www; ARds ex_a]; OIter] None] []) = [[Ok RNone; Ok (RPair 1 1)]].
Proof.
  split; [|vm_compute; reflexivity]. constructor; [|constructor]. constructor; [|constructor; [exact Logic.I|constructor]].
  cbn. constructor; [|constructor; [exact Logic.I|constructor]].
  repeat split; [repeat constructor; cbn; lia|cbn; lia|constructor].
Qed.

(* the rdataset-object model on the example history: the committed add creates rdataset object 0 (mutable, plain
   zone) held by node object 0; the aborted transaction leaves both; o_final is defined on it *)
Example ex_obj_run :
  map snd (obj_hist ex_cfg ex_hist ([], [], [])) =
  [ ([mkRobj ex_a false], [[0%nat]], [(ex_www, 0%nat)]); ([mkRobj ex_a false], [[0%nat]], [(ex_www, 0%nat)]) ] /\
  exists t', o_final ex_cfg [ODelete [AName ex_www_abs; AInt 1]] ([mkRobj ex_a false], [[0%nat]], [(ex_www, 0%nat)])
                     (o_open 0 ([mkRobj ex_a false], [[0%nat]], [(ex_www, 0%nat)])) = Some t'.
Proof. split; [vm_compute; reflexivity|]. eexists. vm_compute. reflexivity. Qed.

Example ex_obj_related : RPo ([], [], []) [].
Proof. apply RPo_empty. Qed.

Example ex_btree_related : RPb ([], []) [].
Proof. apply RPb_empty. Qed.

(* NS at `w` (a cut), then a record beneath it: flags DELEGATION (2) and GLUE (4); the origin has ORIGIN (1) *)
Example ex_btree_flags :
  let c := mkCfg 2 true ex_origin in
  let h := [mkSpec 0 1 [OAdd [AName []; ARds (mkRds 1 6 0 300 [(1, 1)])];
                        OAdd [AName ex_www; ARds (mkRds 1 2 0 300 [(1, 0)])];
                        OAdd [AName ([[120]] ++ ex_www); ARds ex_a]] None] in
  map (fun x => map (fun kn => (fst kn, bn_flags (snd kn))) (fst (snd x))) (btree_hist c h ([], [])) =
  [[([], 1); (ex_www, 2); ([[120]] ++ ex_www, 4)]].
Proof. vm_compute. reflexivity. Qed.

(* atomicity with checks installed is an instance of `atomic` *)
Example ex_atomic_hooked :
  forall hk ops k z t, no_commit ops -> snd (run_with (hooked (zstore ex_cfg) hk) ex_cfg ops (Some k) z t) = z.
Proof. intros. apply atomic_every_crash_point. assumption. Qed.
