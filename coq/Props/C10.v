(* C10 - zone transactions match a reference model and are all-or-nothing.
   Model: Model/TxnM.v.  `impl_hist` is dns.transaction.Transaction over the zone's WritableVersion
   (validated / relativized keys, copy-on-write node map, Node list surgery); `spec_hist` is the same
   transaction front-end over the flat reference store (absolute owner, rdataset) with declarative
   CNAME/other-data exclusivity.  Proofs: Proofs/Txn*.v. *)
From DV Require Import Base.Prelude Model.NameM Model.TxnM.
From DV Require Import Proofs.NameValid Proofs.TxnName Proofs.TxnStore Proofs.TxnLow Proofs.TxnSim Proofs.TxnThm.
Open Scope Z_scope.

(* Any history of transactions - every operation and argument form, manual commit/rollback or with-block,
   an exception injected after any index - gives on the zone model and on the reference store the same
   result for every call (values and exception classes), and published zones that stay related after
   every transaction. *)
Theorem refines :
  forall c h z l, wfc c -> Forall spec_valid h -> RP c z l ->
  Forall2 (ROut (RP c)) (impl_hist c h z) (spec_hist c h l).
Proof. exact refines_hist. Qed.
Print Assumptions refines.

(* "related" for an observer: Zone.get_node(name) shows, for every owner name in either spelling, exactly
   the rdatasets of the reference store for that owner *)
Theorem related_zones_look_the_same :
  forall c z l n, wfc c -> Valid n -> RP c z l -> zone_get_node c z n = ref_node c l n.
Proof. exact RP_observe. Qed.
Print Assumptions related_zones_look_the_same.

(* empty nodes are removed *)
Theorem empty_nodes_removed :
  forall c z l n nd, wfc c -> Valid n -> RP c z l -> zone_get_node c z n = Some nd -> nd <> [].
Proof. exact RP_no_empty_node. Qed.
Print Assumptions empty_nodes_removed.

(* all-or-nothing: a with-block left through an exception, raised by an operation or injected by the
   caller after any index, leaves the published zone exactly as it was (for any store) *)
Theorem atomic :
  forall P S (st : store P S) c ops fault z t outs z',
  no_commit ops -> run_with st c ops fault z t = (outs, z') -> existsb is_err outs = true -> z' = z.
Proof. exact @atomic_with_abort. Qed.
Print Assumptions atomic.

Theorem atomic_every_crash_point :
  forall P S (st : store P S) c ops k z t, no_commit ops -> snd (run_with st c ops (Some k) z t) = z.
Proof. exact @atomic_crash_point. Qed.
Print Assumptions atomic_every_crash_point.

Theorem atomic_without_commit :
  forall P S (st : store P S) c ops z t, no_commit ops -> snd (run_manual st c ops z t) = z.
Proof. exact @atomic_manual_no_commit. Qed.
Print Assumptions atomic_without_commit.

(* ended transactions refuse every call; read-only transactions refuse every write *)
Theorem ended_refuses_all :
  forall P S (st : store P S) c o z t, t_ended t = true -> step st c o z t = Lib eAlreadyEnded.
Proof. exact @ended_refuses. Qed.
Print Assumptions ended_refuses_all.

Theorem commit_and_rollback_end :
  forall P S (st : store P S) commit z t z' t', hl_end st commit z t = Ok (z', t') -> t_ended t' = true.
Proof. exact @end_ends. Qed.
Print Assumptions commit_and_rollback_end.

Theorem readonly_refuses_writes :
  forall P S (st : store P S) c o z t,
  t_ended t = false -> t_ro t = true -> is_write o = true -> step st c o z t = Lib eReadOnly.
Proof. exact @readonly_refuses. Qed.
Print Assumptions readonly_refuses_writes.

Theorem readonly_changes_nothing :
  forall P S (st : store P S) c o z t x z' t',
  t_ro t = true -> step st c o z t = Ok (x, z', t') -> z' = z /\ t_st t' = t_st t /\ t_ro t' = true.
Proof. exact @readonly_never_changes. Qed.
Print Assumptions readonly_changes_nothing.

(* ---------------------------------------------------------------- non-vacuity *)
Definition ex_origin : name := [[101; 120]; []].                    (* ex. *)
Definition ex_cfg : cfg := mkCfg 0 true ex_origin.

Example ex_wfc : wfc ex_cfg.
Proof.
  split; [|reflexivity]. repeat split.
  - repeat constructor; cbn; lia.
  - cbn. lia.
  - repeat constructor. discriminate.
Qed.

Example ex_related : RP ex_cfg [] [].
Proof. apply RP_empty. Qed.

Definition ex_www : name := [[119]].                               (* w   (relative) *)
Definition ex_www_abs : name := [[119]; [101; 120]; []].           (* w.ex. *)
Definition ex_a : rds := mkRds 1 1 0 300 [(1, 0)].
Definition ex_hist : list txnspec :=
  [ mkSpec 0 1 [OAdd [AName ex_www; ARds ex_a]] None;                                   (* committed *)
    mkSpec 0 1 [ODelete [AName ex_www_abs; AInt 1]; OExists (AName ex_www)] (Some 2%nat) ]. (* aborted  *)

Example ex_valid : Forall spec_valid ex_hist.
Proof.
  assert (Valid ex_www) by (repeat split; [repeat constructor; cbn; lia|cbn; lia|constructor]).
  assert (Valid ex_www_abs).
  { repeat split; [repeat constructor; cbn; lia|cbn; lia|repeat constructor; discriminate]. }
  unfold ex_hist. constructor; [|constructor; [|constructor]]; unfold spec_valid; cbn [x_ops].
  - constructor; [|constructor]. cbn [op_valid]. constructor; [exact H|constructor; [exact Logic.I|constructor]].
  - constructor; [|constructor; [|constructor]]; cbn [op_valid arg_valid]; auto.
    constructor; [exact H0|constructor; [exact Logic.I|constructor]].
Qed.

(* the last rdataset of a node deleted through the absolute spelling, in a relativized zone (the
   sequence that raised KeyError before fix ea85fed), then the abort leaves the committed content *)
Example ex_run :
  map (fun x => (map obs_of_out (fst x), snd x)) (impl_hist ex_cfg ex_hist []) =
  [ ([N], [(ex_www, [ex_a])]);
    ([N; ob false; E eInjected], [(ex_www, [ex_a])]) ].
Proof. vm_compute. reflexivity. Qed.
