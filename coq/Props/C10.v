From DV Require Import Base.Prelude Model.NameM Model.TxnM.
Example c10_model_runs : TxnM.run (L [L [I 0; I 1; L [B [101]; B []]]; L []; L []]) = L [].
Proof. reflexivity. Qed.
