(* C04 - untrusted wire or text input only ever raises the library's own errors.
   Statements only; the proofs are in Proofs/Parser*.v and Proofs/Untrusted*.v.
   Models: Model/ParserM.v (dns/wirebase.py, name.from_wire_parser), Model/UntrustedM.v
   (ExceptionWrapper, rdata.from_wire[_parser], message._WireReader / from_wire, ttl, grange,
   zonefile line dispatch), shared Model/NameM.v (name text) and Model/TokM.v (tokenizer).
   Result discipline: Ok | Lib e (the library's hierarchy) | Internal e (a Python-level
   exception: IndexError, struct.error, AssertionError, ValueError, UnicodeError; exhausted
   fuel = non-termination); for parser computations Val | Exn (XLib e) | Exn (XInt e). *)
From DV Require Import Base.Prelude Model.NameM Model.ParserM Model.UntrustedM.
From DV Require Model.TokM Model.SchemaM Model.SchemaHand Proofs.UntrustedSchema Proofs.UntrustedHand Model.ZoneTextM Proofs.UntrustedZone
                Model.RdTextM Model.UntrustedTextM Proofs.UntrustedMsgText Proofs.UntrustedMsgTerm
                Model.TsigM Proofs.UntrustedTsig Proofs.UntrustedEdns Proofs.UntrustedEsc.
From DV Require Import Proofs.NameValid Proofs.ParserSafe Proofs.ParserProg
                       Proofs.UntrustedSafe Proofs.UntrustedDec Proofs.UntrustedText.
Open Scope Z_scope.

(* ================= ExceptionWrapper ================= *)

(* For an ARBITRARY inner computation (any per-type parser: any value, any library exception, any
   Python-level exception) `with ExceptionWrapper(cls)` lets out a value or an instance of cls. *)
Theorem wrap_closes : forall (A : Type) (cls : Z) (fam : Z -> bool) (inner : M A) (s : pstate),
  fam cls = true ->
  match wrap cls fam inner s with
  | (Val a, s') => inner s = (Val a, s')
  | (Exn (XLib e), s') => fam e = true /\ snd (inner s) = s'
  | (Exn (XInt _), _) => False
  end.
Proof. exact @UntrustedSafe.wrap_closes. Qed.
Print Assumptions wrap_closes.

(* the same for text-side parsers (value-level results) *)
Theorem wrap_closes_text : forall (A : Type) (cls : Z) (fam : Z -> bool) (inner : res A),
  fam cls = true ->
  match wrap_res cls fam inner with
  | Ok a => inner = Ok a
  | Lib e => fam e = true
  | Internal _ => False
  end.
Proof. exact @UntrustedSafe.wrap_res_closes. Qed.
Print Assumptions wrap_closes_text.

(* what is converted: every Python-level exception, and every library exception outside the class *)
Theorem wrap_converts_internal : forall (A : Type) cls fam (inner : M A) s e s',
  inner s = (Exn (XInt e), s') -> wrap cls fam inner s = (Exn (XLib cls), s').
Proof. exact @UntrustedSafe.wrap_converts_internal. Qed.
Print Assumptions wrap_converts_internal.

Theorem wrap_converts_foreign_lib : forall (A : Type) cls fam (inner : M A) s e s',
  inner s = (Exn (XLib e), s') -> fam e = false -> wrap cls fam inner s = (Exn (XLib cls), s').
Proof. exact @UntrustedSafe.wrap_converts. Qed.
Print Assumptions wrap_converts_foreign_lib.

(* ================= Parser primitives (dns/wirebase.py) ================= *)

(* Any program of Parser API calls (get_bytes / get_uintN / get_struct / get_counted_bytes /
   get_remaining / get_name, nested restrict_to; non-negative sizes) on any octet string from any
   start offset ends in a value, FormError or a name error - never AssertionError, struct.error,
   IndexError, never out of fuel - and the parser stays inside the message. *)
Theorem no_internal_parser : forall (wire : list Z) (current : Z) (ops : list op),
  bytes_ok wire -> ops_ok ops ->
  match parser_init wire current with
  | Exn x => x = XLib eFormError
  | Val s0 =>
      match exec wire ops s0 with
      | (Val _, s1) => pfur s1 <= pcur s1 <= pend s1 /\ pend s1 = zlen wire
      | (Exn (XLib e), s1) =>
          ((e = eFormError \/ e = eBadPointer \/ e = eBadLabelType) \/ e = eNameTooLong) /\ pend s1 = zlen wire
      | (Exn (XInt _), _) => False
      end
  end.
Proof. exact parser_program_never_internal. Qed.
Print Assumptions no_internal_parser.

(* ================= names ================= *)

(* dns.name.from_wire: total (pointer chasing terminates within the model's fuel); a valid name
   and a positive consumed count inside the message, or FormError / BadPointer / BadLabelType /
   NameTooLong. *)
Theorem no_internal_name_wire : forall (wire : list Z) (current : Z),
  bytes_ok wire ->
  match name_from_wire wire current with
  | Ok (n, c) => Valid n /\ 0 < c /\ current + c <= zlen wire
  | Lib e => (e = eFormError \/ e = eBadPointer \/ e = eBadLabelType) \/ e = eNameTooLong
  | Internal _ => False
  end.
Proof. exact name_from_wire_total. Qed.
Print Assumptions no_internal_name_wire.

(* dns.name.from_text (every octet string, every origin): a valid name or BadEscape / EmptyLabel /
   LabelTooLong / NameTooLong. *)
Theorem no_internal_name_text : forall (text : list Z) (origin : option name),
  match NameM.from_text text origin with
  | Ok n => Valid n
  | Lib e => e = eBadEscape \/ e = eEmptyLabel \/ e = eLabelTooLong \/ e = eNameTooLong
  | Internal _ => False
  end.
Proof. exact name_from_text_family. Qed.
Print Assumptions no_internal_name_text.

(* ================= records ================= *)

(* dns.rdata.from_wire around an arbitrary per-type parser that respects the Parser API: a value
   that consumed exactly rdlen octets, or a FormError-family error. *)
Theorem no_internal_rdata_wire : forall (wire : list Z)
         (per_type : Z -> Z -> M unit), (forall c t, api_disciplined wire (per_type c t)) ->
  forall rdclass rdtype current rdlen, 0 <= rdlen ->
  match rdata_from_wire wire per_type rdclass rdtype current rdlen with
  | (Val _, s) => pcur s = current + rdlen /\ current + rdlen <= zlen wire
  | (Exn (XLib e), _) => is_form e = true
  | (Exn (XInt _), _) => False
  end.
Proof. exact rdata_from_wire_family. Qed.
Print Assumptions no_internal_rdata_wire.

(* the hypothesis is satisfiable: the per-type parsers of the executable model (NS-like, MX, SOA,
   TXT, OPT, TSIG, A, AAAA, generic) have it - they do raise ValueError / SyntaxError inside *)
Theorem per_type_instance : forall (wire : list Z), bytes_ok wire ->
  forall origin c t, api_disciplined wire (dec_rdata wire origin c t).
Proof. exact dec_rdata_disciplined. Qed.
Print Assumptions per_type_instance.

(* EVERY record type: the generic schema decoder of C02 (Model/SchemaM.v: Parser + restrict_to +
   cls.from_wire_parser + constructor under the wrapper; tied to the ~60 regular per-type
   parsers by C02's translator and correspondence).  On arbitrary octets, any origin: a record
   that passed the constructor and consumed exactly rdlen, or a FormError-family error. *)
Theorem no_internal_rdata_wire_schema : forall (o : option name) (fs : list SchemaM.fld) (ck : SchemaM.check)
         (wire : list Z) (cur rdlen : nat),
  bytes_ok wire -> SchemaM.schema_wf fs = true ->
  match SchemaM.decode_rdata o fs ck wire cur rdlen with
  | Ok vs =>
      SchemaM.validate fs ck vs = true /\ (cur + rdlen <= length wire)%nat /\
      SchemaM.dec_fields wire o fs (cur + rdlen) cur = Ok (vs, (cur + rdlen)%nat)
  | Lib e => is_form e = true
  | Internal _ => False
  end.
Proof. exact UntrustedSchema.schema_from_wire_family. Qed.
Print Assumptions no_internal_rdata_wire_schema.

(* ... for whatever get_rdata_class(rdclass, rdtype) resolves to in a table that passes entry_ok
   (instantiated on the table generated from dns/rdtypes/** on every run: generated obligation
   no_internal_rdata_wire_all_types), and "every value returned can be rendered to wire again":
   the accepted record's own to_wire exists and decodes to the same record. *)
Theorem no_internal_rdata_wire_table : forall (tbl : list SchemaM.entry) (c t : Z) w r ck
         (wire : list Z) (cur rdlen : nat),
  bytes_ok wire -> forallb SchemaM.entry_ok tbl = true -> SchemaM.lookup tbl c t = SchemaM.CSchema w r ck ->
  match SchemaM.decode_rdata None (map fst r) ck wire cur rdlen with
  | Ok vs =>
      (cur + rdlen <= length wire)%nat /\
      exists w', SchemaM.encode_rdata None (map fst w) ck vs = Ok w' /\
                 SchemaM.decode_rdata None (map fst r) ck w' 0 (length w') = Ok vs
  | Lib x => is_form x = true
  | Internal _ => False
  end.
Proof. exact UntrustedSchema.table_from_wire_family. Qed.
Print Assumptions no_internal_rdata_wire_table.

(* ... and the eight irregular types that C02 models by hand (HIP, IPSECKEY, AMTRELAY, APL, SVCB,
   HTTPS, LOC, OPT with every EDNS option class): the same statement, incl. termination of their
   `while parser.remaining() > 0` loops *)
Theorem no_internal_rdata_wire_hand : forall (h : SchemaHand.hid) (o : option name) (wire : list Z) (cur rdlen : nat),
  bytes_ok wire ->
  match SchemaHand.hand_decode_rdata h o wire cur rdlen with
  | Ok vs => SchemaHand.hand_valid h vs = true /\ (cur + rdlen <= length wire)%nat
  | Lib e => is_form e = true
  | Internal _ => False
  end.
Proof. exact UntrustedHand.hand_from_wire_family. Qed.
Print Assumptions no_internal_rdata_wire_hand.

Theorem rdata_wire_hand_renders : forall (h : SchemaHand.hid) (wire : list Z) (cur rdlen : nat) vs,
  bytes_ok wire ->
  SchemaHand.hand_decode_rdata h None wire cur rdlen = Ok vs ->
  exists w', SchemaHand.hand_encode_rdata h None vs = Ok w'.
Proof. exact UntrustedHand.hand_from_wire_renders. Qed.
Print Assumptions rdata_wire_hand_renders.

(* ================= the direct EDNS option API ================= *)

(* dns.edns.option_from_wire(otype, wire, current, olen) is NOT under ExceptionWrapper.  Every
   option class of dns/edns.py (ECS, COOKIE, EDE, NSID, REPORTCHANNEL, the four text options,
   GenericOption) on every octet string, every offset and every non-negative length: an option, a
   FormError-family error, the dns.exception.SyntaxError of dns.ipv4.inet_ntoa (ECS with more than
   four IPv4 address octets), or the ValueError that the option constructors document and
   tests/test_edns.py pins (ECS family / prefix lengths, COOKIE lengths) - never struct.error,
   IndexError or UnicodeDecodeError. *)
Theorem no_internal_edns_option : forall (wire : list Z), bytes_ok wire ->
  forall (otype current olen : Z), 0 <= olen ->
  match fst (option_from_wire wire otype current olen) with
  | Val _ => True
  | Exn (XLib e) => is_form e = true \/ e = eSyntax
  | Exn (XInt e) => e = iValueError
  end.
Proof. exact UntrustedEdns.option_from_wire_outcome. Qed.
Print Assumptions no_internal_edns_option.

(* ExceptionWrapper(FormError) around a per-type wire parser would turn a non-terminating loop (the
   model's fuel marker) into a FormError, so termination is stated at the loops themselves: the
   `while parser.remaining() > 0` loops of OPT.from_wire_parser (every option class inside) and of
   TXTBase.from_wire_parser end for every octet string and every parser state inside the message
   (each iteration consumes at least the option header / the length octet). *)
Theorem wire_parser_loops_terminate : forall (wire : list Z), bytes_ok wire -> forall (lo : Z) (s : pstate),
  0 <= lo -> wfl wire lo s -> pcur s <= pend s ->
  fst (dec_opt wire s) <> Exn (XInt iFuel) /\ fst (dec_txt wire s) <> Exn (XInt iFuel).
Proof. exact UntrustedEdns.wire_loops_terminate. Qed.
Print Assumptions wire_parser_loops_terminate.

(* ================= messages ================= *)

(* dns.message.from_wire, every option combination, arbitrary per-type parsers: a message, or a
   FormError-family error (ShortHeader, TrailingJunk, BadEDNS, BadTSIG, name errors, FormError),
   the documented UnknownTSIGKey, or Truncated - the latter only when raise_on_truncation. *)
Theorem no_internal_message : forall (wire : list Z), bytes_ok wire ->
  forall (per_type : Z -> Z -> M unit), (forall c t, api_disciplined wire (per_type c t)) ->
  forall o : opts,
  match message_from_wire wire per_type o with
  | (Val _, m) => MI wire m
  | (Exn (XLib e), m) =>
      MI wire m /\ ((is_form e = true \/ e = eUnknownTSIGKey) \/ (e = eTruncated /\ o_raise_trunc o = true))
  | (Exn (XInt _), _) => False
  end.
Proof. exact message_from_wire_family. Qed.
Print Assumptions no_internal_message.

(* hypothesis-free instance: the executable reader that the correspondence ties to the code *)
Theorem no_internal_message_instance : forall (wire : list Z), bytes_ok wire -> forall (origin : option name) (bits : Z),
  match message_from_wire wire (dec_rdata wire origin) (opts_of_bits bits) with
  | (Exn (XInt _), _) => False
  | (Exn (XLib e), m) =>
      (is_form e = true \/ e = eUnknownTSIGKey) \/ (e = eTruncated /\ o_raise_trunc (opts_of_bits bits) = true)
  | (Val _, m) => True
  end.
Proof. exact message_from_wire_concrete. Qed.
Print Assumptions no_internal_message_instance.

(* continue_on_error: after the 12-octet header nothing is raised except the requested
   truncation signal; every failure is recorded (MI: a library error code and an offset with
   12 <= offset <= len(wire)). *)
Theorem continue_on_error_records : forall (wire : list Z), bytes_ok wire ->
  forall (per_type : Z -> Z -> M unit), (forall c t, api_disciplined wire (per_type c t)) ->
  forall o : opts, o_coe o = true ->
  match message_from_wire wire per_type o with
  | (Val _, m) =>
      Forall (fun eo => (is_form (fst eo) = true \/ fst eo = eUnknownTSIGKey) /\ 12 <= snd eo <= zlen wire)
             (ms_errors m)
  | (Exn (XLib e), _) => e = eShortHeader \/ (e = eTruncated /\ o_raise_trunc o = true)
  | (Exn (XInt _), _) => False
  end.
Proof. exact UntrustedSafe.continue_on_error_records. Qed.
Print Assumptions continue_on_error_records.

(* ... and parsing resumes at rdata_start + rdlen: whenever the per-record step returns (rdata
   parsed, or its failure recorded), the parser stands exactly behind the record's rdata. *)
Theorem continue_on_error_resumes : forall (wire : list Z)
  (per_type : Z -> Z -> M unit), (forall c t, api_disciplined wire (per_type c t)) ->
  forall o section count i fu m0 s nm s1 rdtype rdclass ttl rdlen s2 r m' s',
  get_name wire None s = (Val nm, s1) ->
  get_struct wire [2; 2; 4; 2] s1 = (Val [rdtype; rdclass; ttl; rdlen], s2) ->
  wfl wire 0 s2 -> 0 <= rdlen ->
  get_rr wire per_type o section count i fu m0 s = (Val r, m', s') ->
  pcur s' = pcur s2 + rdlen.
Proof. exact get_rr_position. Qed.
Print Assumptions continue_on_error_resumes.

(* ================= text ================= *)

(* dns.ttl.from_text, any string, any classification of characters as decimal digits *)
Theorem no_internal_ttl : forall (dval : Z -> option Z) (s : list Z),
  match ttl_from_text dval s with
  | Ok v => 0 <= v <= 4294967295
  | Lib e => e = eBadTTL
  | Internal _ => False
  end.
Proof. exact ttl_from_text_family. Qed.
Print Assumptions no_internal_ttl.

(* Tokenizer.get in any state with any flags terminates with a token, SyntaxError or UnexpectedEnd *)
Theorem no_internal_tokenizer : forall (st : TokM.tstate) (want_leading want_comment : bool),
  match TokM.get st want_leading want_comment with
  | Ok _ => True
  | Lib e => e = TokM.eSyntax \/ e = TokM.eUnexpectedEnd
  | Internal _ => False
  end.
Proof. exact tokenizer_get_family. Qed.
Print Assumptions no_internal_tokenizer.

Theorem no_internal_unescape : forall t : TokM.token,
  match TokM.unescape t with
  | Ok _ => True
  | Lib e => e = TokM.eUnexpectedEnd \/ e = TokM.eSyntax
  | Internal _ => False
  end.
Proof. exact unescape_family. Qed.
Print Assumptions no_internal_unescape.

(* unescape_to_bytes encodes to UTF-8: safe for every string without lone surrogates ... *)
Theorem no_internal_unescape_to_bytes : forall t : TokM.token,
  Forall (fun c => ~ (55296 <= c <= 57343)) (TokM.tvalue t) ->
  match TokM.unescape_to_bytes t with
  | Ok _ => True
  | Lib e => e = TokM.eUnexpectedEnd \/ e = TokM.eSyntax
  | Internal _ => False
  end.
Proof. exact unescape_to_bytes_family. Qed.
Print Assumptions no_internal_unescape_to_bytes.

(* ... a lone surrogate does reach UnicodeEncodeError in the bare token method ... *)
Theorem unescape_to_bytes_surrogate_refuted :
  TokM.unescape_to_bytes (TokM.mkTok TokM.tQUOTED [55296] false None) = Internal TokM.iUnicodeEncode.
Proof. exact UntrustedText.unescape_to_bytes_surrogate_refuted. Qed.
Print Assumptions unescape_to_bytes_surrogate_refuted.

(* ... and is a SyntaxError where records are parsed (under ExceptionWrapper(SyntaxError)) *)
Theorem unescape_to_bytes_wrapped : forall t : TokM.token,
  match wrap_res eSyntax is_syntax (TokM.unescape_to_bytes t) with
  | Ok _ => True
  | Lib e => is_syntax e = true
  | Internal _ => False
  end.
Proof. exact UntrustedText.unescape_to_bytes_wrapped. Qed.
Print Assumptions unescape_to_bytes_wrapped.


(* The \DDD escapes are tested with str.isdecimal() and converted with int(c) in tokenizer.py.  For
   EVERY digit classifier dval (`dval c = Some d` iff c.isdecimal(), d = int(c): ASCII digits and the
   decimal digits of every other script; a character that only str.isdigit() accepts - superscripts,
   circled digits - has dval = None and is an ordinary escaped character) and every string:
   Token.unescape gives a value, SyntaxError or UnexpectedEnd; the int(c) conversion cannot fail
   because it is applied only where the classifier is defined. *)
Theorem no_internal_unescape_any_classifier : forall (dval : Z -> option Z) (value : list Z),
  match ue_loop_g dval value [] with
  | Ok _ => True
  | Lib e => e = TokM.eUnexpectedEnd \/ e = TokM.eSyntax
  | Internal _ => False
  end.
Proof. exact UntrustedEsc.unescape_g_family. Qed.
Print Assumptions no_internal_unescape_any_classifier.

(* Token.unescape_to_bytes: additionally UnicodeEncodeError, and only for a lone surrogate *)
Theorem no_internal_unescape_to_bytes_any_classifier : forall (dval : Z -> option Z) (value : list Z),
  match ub_loop_g dval value [] with
  | Ok _ => True
  | Lib e => e = TokM.eUnexpectedEnd \/ e = TokM.eSyntax
  | Internal e => e = TokM.iUnicodeEncode /\ ~ Forall UntrustedText.no_surrogate value
  end.
Proof. exact UntrustedEsc.unescape_to_bytes_g_family. Qed.
Print Assumptions no_internal_unescape_to_bytes_any_classifier.

(* with the ASCII classifier they are the decoders of the shared tokenizer model *)
Theorem unescape_classifier_ascii_agrees : forall value : list Z,
  ue_loop_g dval_ascii value [] = TokM.ue_loop value [] /\ ub_loop_g dval_ascii value [] = TokM.ub_loop value [].
Proof. exact UntrustedEsc.unescape_ascii_agrees. Qed.
Print Assumptions unescape_classifier_ascii_agrees.

(* ================= zone files ================= *)

(* dns.grange.from_text called directly leaks ValueError / AssertionError ... *)
Theorem grange_unguarded_refuted :
  grange_from_text dval_run [49; 45] = Internal iValueError
  /\ grange_from_text dval_run [49; 47; 50] = Internal iAssertGr
  /\ grange_from_text dval_run [49; 45; 50; 47; 48] = Internal iAssertGr.
Proof. exact UntrustedText.grange_unguarded_refuted. Qed.
Print Assumptions grange_unguarded_refuted.

(* ... which zonefile._generate_line closes with `except Exception: raise SyntaxError` *)
Theorem generate_range_closes : forall (dval : Z -> option Z) (s : list Z),
  match generate_range dval s with
  | Ok (start, stop, step) => True
  | Lib e => e = eSyntax
  | Internal _ => False
  end.
Proof. exact UntrustedText.generate_range_closes. Qed.
Print Assumptions generate_range_closes.

(* Reader.read's test on the first token of a line is total (after the fix) ... *)
Theorem no_internal_zonefile_dispatch : forall (t : TokM.token) (directives_allowed : bool),
  exists k, line_kind t directives_allowed = Ok k /\ 0 <= k <= 4.
Proof. exact line_kind_total. Qed.
Print Assumptions no_internal_zonefile_dispatch.

(* ... the snapshot's `token.value[0]` raised IndexError on the empty quoted string (fixed in /repo) *)
Theorem zonefile_dispatch_prefix_refuted :
  line_kind_prefix (TokM.mkTok TokM.tQUOTED [] false None) true = Internal iIndexError.
Proof. exact line_kind_prefix_refuted. Qed.
Print Assumptions zonefile_dispatch_prefix_refuted.

(* Whole zone files, on C09's model of the reader (Model/ZoneTextM.v: Reader.read, _rr_line,
   _generate_line with its modifiers, $TTL/$ORIGIN/$UNICODE, txn.add incl. the CNAME rule,
   check_origin; a fixed table of record types, others via the generic syntax).  EVERY character
   string, every origin / relativize / class / check_origin setting: a zone, or SyntaxError (to
   which Reader.read adds file:line), NameTooLong from an owner or $ORIGIN name, UnknownOrigin,
   CNAMEAndOtherData, NoSOA, NoNS (eUnmodelled = input outside the modelled fragment), or the
   documented zone-semantic ValueError ("add() has non-origin SOA") - never AssertionError,
   IndexError, ..., never out of fuel. *)
Theorem no_internal_zonefile : forall (c : ZoneTextM.cfg) (text : list Z),
  match ZoneTextM.from_text c text with
  | Ok _ => True
  | Lib e => e = ZoneTextM.eSyntax \/ e = ZoneTextM.eNameTooLongZ \/ e = ZoneTextM.eUnknownOrigin
             \/ e = ZoneTextM.eCNAMEAndOther \/ e = ZoneTextM.eNoSOA \/ e = ZoneTextM.eNoNS
             \/ e = ZoneTextM.eUnmodelled
  | Internal e => e = ZoneTextM.iValueError
  end.
Proof. exact UntrustedZone.zone_from_text_outcome. Qed.
Print Assumptions no_internal_zonefile.

(* dns.zonefile.read_rrsets (the same reader on the RRsets transaction) *)
Theorem no_internal_read_rrsets : forall (c : ZoneTextM.cfg) (zo : name) (text : list Z),
  match ZoneTextM.read_rrsets c zo text with
  | Ok _ => True
  | Lib e => e = ZoneTextM.eSyntax \/ e = ZoneTextM.eNameTooLongZ \/ e = ZoneTextM.eUnknownOrigin
             \/ e = ZoneTextM.eCNAMEAndOther \/ e = ZoneTextM.eNoSOA \/ e = ZoneTextM.eNoNS
             \/ e = ZoneTextM.eUnmodelled
  | Internal e => e = ZoneTextM.iValueError
  end.
Proof. exact UntrustedZone.read_rrsets_outcome. Qed.
Print Assumptions no_internal_read_rrsets.

(* ================= message text (dns.message.from_text) ================= *)

(* Model/UntrustedTextM.v: _TextReader.read with its header / question / RR line methods, section
   switching by comment lines, the flags loops, TTL and class columns, _parse_rr_header, the per-type
   text parser under ExceptionWrapper(SyntaxError).
   For ANY per-type text parser that obeys the tokenizer discipline (it never leaves more input than
   it found, except for one put-back token) - whatever it returns or raises - and any type-mnemonic
   function whose only library error is UnknownRdatatype, on EVERY character string: a message or one
   of the documented library errors; never ValueError / AssertionError / ..., and the `while 1`
   loops end (no fuel exhaustion). *)
Theorem no_internal_message_text :
  forall (per_type_text : Z -> Z -> TokM.tstate -> res (unit * TokM.tstate)) (pctx : RdTextM.pctx)
         (type_from_text : list Z -> res Z),
  (forall v e, type_from_text v = Lib e -> e = UntrustedTextM.eUnknownRdatatype) ->
  (forall c t st, UntrustedMsgTerm.Le st (per_type_text c t st)) ->
  forall (text : list Z) (one_rr_per_rrset : bool),
  match UntrustedTextM.from_text per_type_text pctx type_from_text text one_rr_per_rrset with
  | Ok _ => True
  | Lib e => UntrustedMsgText.mt_lib e
  | Internal _ => False
  end.
Proof. exact UntrustedMsgTerm.message_from_text_total. Qed.
Print Assumptions no_internal_message_text.

(* without the discipline hypothesis: the only Internal outcome is exhausted fuel *)
Theorem message_text_outcome :
  forall (per_type_text : Z -> Z -> TokM.tstate -> res (unit * TokM.tstate)) (pctx : RdTextM.pctx)
         (type_from_text : list Z -> res Z),
  (forall v e, type_from_text v = Lib e -> e = UntrustedTextM.eUnknownRdatatype) ->
  forall (text : list Z) (one_rr_per_rrset : bool),
  match UntrustedTextM.from_text per_type_text pctx type_from_text text one_rr_per_rrset with
  | Ok _ => True
  | Lib e => UntrustedMsgText.mt_lib e
  | Internal e => e = UntrustedTextM.iFuelT
  end.
Proof. exact UntrustedMsgText.message_from_text_outcome. Qed.
Print Assumptions message_text_outcome.

(* the instance the correspondence runs: C05's text schemas (Model/RdTextM.v) per type and the
   rdatatype mnemonic table; both hypotheses are discharged *)
Theorem no_internal_message_text_instance : forall (pctx : RdTextM.pctx) (text : list Z) (one_rr_per_rrset : bool),
  match UntrustedTextM.from_text (UntrustedTextM.per_type_run pctx) pctx UntrustedTextM.type_from_text_run
                                 text one_rr_per_rrset with
  | Ok _ => True
  | Lib e => UntrustedMsgText.mt_lib e
  | Internal _ => False
  end.
Proof. exact UntrustedMsgTerm.message_from_text_run_total. Qed.
Print Assumptions no_internal_message_text_instance.

(* the tokenizer discipline of every text schema of C05's table *)
Theorem text_schema_discipline : forall (pctx : RdTextM.pctx) (rdclass rdtype : Z) (st : TokM.tstate),
  UntrustedMsgTerm.Le st (UntrustedTextM.per_type_run pctx rdclass rdtype st).
Proof. exact UntrustedMsgTerm.per_type_run_le. Qed.
Print Assumptions text_schema_discipline.

(* ExceptionWrapper(SyntaxError) around a per-type text parser would turn a non-terminating loop
   (the model's fuel marker) into a SyntaxError, so termination is stated where the marker is made:
   the `while True` loops of Tokenizer.get_remaining and concatenate_remaining_identifiers (the
   loops of the schema field readers besides Tokenizer.get, see no_internal_tokenizer; the SVCB
   parameter loop is bounded by the same measure, lemma le_svcb_params_loop) end in every
   tokenizer state. *)
Theorem text_token_loops_terminate : forall st : TokM.tstate,
  (forall max_tokens, TokM.get_remaining st max_tokens <> Internal TokM.tFuel) /\
  (forall allow_empty, TokM.concatenate_remaining_identifiers st allow_empty <> Internal TokM.tFuel).
Proof. exact UntrustedMsgTerm.text_loops_terminate. Qed.
Print Assumptions text_token_loops_terminate.

(* the third token loop of the per-type text parsers, SVCBBase.from_text's parameter loop (C05's
   model): more fuel never changes its result, i.e. len(text) + 2 iterations always suffice *)
Theorem svcb_param_loop_fuel_sufficient : forall (st : TokM.tstate) (params : list (Z * RdTextM.pval)) (extra : nat),
  RdTextM.svcb_params_loop (TokM.rem_fuel st + extra) st params = RdTextM.svcb_params_loop (TokM.rem_fuel st) st params.
Proof. exact UntrustedMsgTerm.svcb_params_loop_fuel_sufficient. Qed.
Print Assumptions svcb_param_loop_fuel_sufficient.

(* dns.rdata.from_text on C05's model of it (TokM.rdata_from_text: first token, the generic-syntax
   branch with its wire re-encoding check, the per-type text parser, the end-of-line check - all
   inside ExceptionWrapper(SyntaxError)), for an ARBITRARY per-type parser and wire codec: a value or
   a SyntaxError-family error.  With text_token_loops_terminate and no_internal_tokenizer the loops
   inside end for every text schema of Model/RdTextM.v. *)
Theorem no_internal_rdata_text : forall (V : Type) (per_type : TokM.tstate -> res (V * TokM.tstate))
    (from_wire : list Z -> res V) (to_wire : V -> res (list Z)) (text : list Z),
  match TokM.rdata_from_text per_type from_wire to_wire text with
  | Ok _ => True
  | Lib e => TokM.in_syntax_family e = true
  | Internal _ => False
  end.
Proof. exact @UntrustedMsgTerm.rdata_from_text_family. Qed.
Print Assumptions no_internal_rdata_text.

(* ================= signed messages: validation with a real key ================= *)

(* On C14's model (Model/TsigM.v: dns.tsig.validate / _digest / _maybe_start_digest / get_context,
   TSIG.from_wire_parser, the TSIG and OPT paths of _WireReader, every keyring form - None, key,
   dictionary of keys or bare secrets).  For ANY keyed hash function H, any octet string, any
   keyring, request MAC (at most 65535 octets), running context, multi flag and clock: a message or a
   library error (FormError family, BadTime, BadSignature, BadKey, BadAlgorithm, the Peer* errors,
   UnknownTSIGKey, NeedAbsoluteNameOrOrigin for a relative key name, the dns.name errors of
   relativizing an owner name against `origin`; eUnsupported = GSS-TSIG / UPDATE, outside the model) - never struct.error, AssertionError, ValueError or NotImplementedError.
   (The first version of this proof left exactly one case open - NotImplementedError out of
   _maybe_start_digest for a later envelope of a multi-message exchange - which was reproduced on
   the library and repaired as /repo ed7f7ab; C14's model mirrors the repair.) *)
Theorem no_internal_signed_message :
  forall (H : TsigM.hashid -> TsigM.bytes -> TsigM.bytes -> TsigM.bytes) (origin : option name) (w : TsigM.bytes)
         (kr : TsigM.keyring) (request_mac : TsigM.bytes) (ctx : option TsigM.hctx) (multi : bool) (now : Z),
  bytes_ok w -> zlen request_mac <= 65535 ->
  match TsigM.read_gen H origin w kr request_mac ctx multi now with
  | Ok _ => True
  | Lib e => UntrustedTsig.tlib e
  | Internal _ => False
  end.
Proof. exact UntrustedTsig.signed_message_family. Qed.
Print Assumptions no_internal_signed_message.

(* dns.tsig.validate itself, for a TSIG rdata as TSIG.from_wire_parser produces it (tsig_inv:
   fudge, original id, error and the two length fields in range) *)
Theorem no_internal_tsig_validate :
  forall (H : TsigM.hashid -> TsigM.bytes -> TsigM.bytes -> TsigM.bytes) (wire : TsigM.bytes) (k : TsigM.key)
         (owner : name) (rd : TsigM.tsig) (now : Z) (request_mac : TsigM.bytes) (tsig_start : nat)
         (ctx : option TsigM.hctx) (multi : bool),
  (12 <= length wire)%nat -> UntrustedTsig.tsig_inv rd -> zlen request_mac <= 65535 ->
  match TsigM.validate H wire k owner rd now request_mac tsig_start ctx multi with
  | Ok _ => True
  | Lib e => UntrustedTsig.tlib e
  | Internal _ => False
  end.
Proof. exact UntrustedTsig.validate_family. Qed.
Print Assumptions no_internal_tsig_validate.

(* the OPT option loop of that reader runs under the FormError wrapper, which would hide a fuel
   marker; the loop (called with fuel rdlen + 1 on the rdlen octets of the record) never produces
   any Python-level outcome *)
Theorem signed_message_opt_loop_terminates : forall (w : TsigM.bytes), bytes_ok w ->
  forall (rdata_start rdlen : nat) (e : Z),
  TsigM.opt_options w (rdata_start + rdlen) rdata_start (S rdlen) <> Internal e.
Proof. exact UntrustedTsig.opt_options_terminates. Qed.
Print Assumptions signed_message_opt_loop_terminates.

(* TSIG.from_wire_parser establishes tsig_inv *)
Theorem tsig_from_wire_establishes_inv : forall (w : TsigM.bytes), bytes_ok w -> forall (endp pos : nat) t,
  TsigM.tsig_from_wire w endp pos = Ok t -> UntrustedTsig.tsig_inv t.
Proof. exact UntrustedTsig.tsig_from_wire_inv. Qed.
Print Assumptions tsig_from_wire_establishes_inv.

(* ================= non-vacuity ================= *)

(* a message whose A record is one octet short: in continue_on_error mode the failure (FormError,
   offset 43 = where the rdata parse stopped) is recorded and the message is returned *)
Definition ex_wire : list Z :=
  [0;1; 0;0; 0;1; 0;1; 0;0; 0;0;  3;119;119;119;0; 0;1; 0;1;
   192;12; 0;1; 0;1; 0;0;1;44; 0;3; 1;2;3].

Example ex_wire_bytes : bytes_ok ex_wire.
Proof. unfold bytes_ok, ex_wire. repeat constructor; lia. Qed.

Example ex_strict_raises :
  fst (message_from_wire ex_wire (dec_rdata ex_wire None) (opts_of_bits 0)) = Exn (XLib eFormError).
Proof. vm_compute. reflexivity. Qed.

Example ex_coe_records :
  let '(r, m) := message_from_wire ex_wire (dec_rdata ex_wire None) (opts_of_bits 8) in
  r = Val tt /\ ms_errors m = [(eFormError, 36)].
Proof. vm_compute. split; reflexivity. Qed.

(* the wrapper at work: the A parser raised dns.exception.SyntaxError (not a FormError) *)
Example ex_inner_was_foreign :
  fst (dec_rdata ex_wire None 1 1 (mkP 33 36 33)) = Exn (XLib eSyntax)
  /\ fst (rdata_from_wire_parser (dec_rdata ex_wire None) 1 1 (mkP 33 36 33)) = Exn (XLib eFormError).
Proof. vm_compute. split; reflexivity. Qed.

(* a compression loop is rejected, not followed forever *)
Example ex_pointer_loop : name_from_wire [192; 0] 0 = Lib eBadPointer.
Proof. vm_compute. reflexivity. Qed.

Example ex_ops_ok : ops_ok [OU16; ORestrict 4 [OBytes 2; OU16]; OName None; ORemaining].
Proof. cbn. repeat split; lia. Qed.

(* message text: a question and an answer are read; an unknown header word and an out-of-range
   TYPE mnemonic (ValueError before fix 763e120) are library errors *)
Definition ex_pctx := RdTextM.mkPctx None false None.
Definition ex_msgtext (text : list Z) :=
  UntrustedTextM.from_text (UntrustedTextM.per_type_run ex_pctx) ex_pctx UntrustedTextM.type_from_text_run text false.

Example ex_msgtext_ok :
  match ex_msgtext [105; 100; 32; 49; 10; 59; 81; 85; 69; 83; 84; 73; 79; 78; 10; 101; 120; 97; 109; 112; 108; 101; 46; 32; 73; 78; 32; 65; 10; 59; 65; 78; 83; 87; 69; 82; 10; 101; 120; 97; 109; 112; 108; 101; 46; 32; 51; 48; 48; 32; 73; 78; 32; 65; 32; 49; 48; 46; 48; 46; 48; 46; 49; 10] with
  | Ok m => length (UntrustedTextM.tm_q m) = 1%nat /\ map UntrustedTextM.r_ttl (UntrustedTextM.tm_rrs m) = [300]
  | _ => False
  end.
Proof. vm_compute. split; reflexivity. Qed.

Example ex_msgtext_unknown_header :
  ex_msgtext [98; 111; 103; 117; 115; 32; 49; 10] = Lib UntrustedTextM.eUnknownHeaderField.
Proof. vm_compute. reflexivity. Qed.

Example ex_msgtext_type65536 :
  ex_msgtext [105; 100; 32; 49; 10; 59; 65; 78; 83; 87; 69; 82; 10; 101; 120; 97; 109; 112; 108; 101; 46; 32; 51; 48; 48; 32; 73; 78; 32; 84; 89; 80; 69; 54; 53; 53; 51; 54; 32; 92; 35; 32; 48; 10] = Lib TokM.eSyntax.
Proof. vm_compute. reflexivity. Qed.

(* the envelope that raised NotImplementedError before fix ed7f7ab: BadAlgorithm now *)
Example ex_unimplemented_algorithm_multi :
  TsigM.read (fun _ _ _ => []) UntrustedTsig.nie_wire (TsigM.KR_Dict [(NameM.root, inr [1])]) []
       (Some {| TsigM.c_hash := TsigM.SHA256; TsigM.c_size := None; TsigM.c_key := [1]; TsigM.c_data := [] |}) true 0
  = Lib TsigM.eBadAlgorithm.
Proof. exact UntrustedTsig.unimplemented_algorithm_multi. Qed.

(* the direct option API: ECS with a /33 IPv4 prefix is inet_ntoa's SyntaxError, a scope of 33 bits
   the constructor's ValueError; inside an OPT record both are FormError *)
Example ex_ecs_direct :
  fst (option_from_wire [0;1;33;0; 1;2;3;4;5] 8 0 9) = Exn (XLib eSyntax)
  /\ fst (option_from_wire [0;1;32;33; 1;2;3;4] 8 0 8) = Exn (XInt iValueError)
  /\ fst (option_from_wire [0;1;24;0; 1;2;3] 8 0 7) = Val tt.
Proof. vm_compute. repeat split; reflexivity. Qed.
