(* C04 - placeholder while the proofs are being written; replaced below *)
From DV Require Import Base.Prelude Model.NameM Model.ParserM Model.UntrustedM.
Open Scope Z_scope.
Example run_smoke : UntrustedM.run (L [I 50; L [I 49; I 104]]) = I 3600.
Proof. vm_compute. reflexivity. Qed.
