(* C12 - versioned-zone writers: serialized, FIFO, deadlock-free under every schedule.
   Model: Model/WritersM.v, a transition system whose step is one lock/event operation (or one piece
   of unlocked thread-local work) of dns.versioned.Zone.writer / _setup_version / commit / rollback /
   reader / set_pruning_policy.  `Reachable s`: s is reached from a new zone by ANY number of threads
   running ANY programs (writers with any edits that commit or roll back, readers by latest/id/serial,
   policy changes) under ANY schedule.
     act p   = the pc p owns the open write transaction      wo p = the event p is queued on
     wq s    = threads owning the events of  _write_event ++ _write_waiters  (ghost, same order)
     arrivals/granted/ended = writers in the order of their first critical section in writer(),
                               of their admission, of the end of their transaction (ghost) *)
From DV Require Import Base.Prelude Model.VersM Model.WritersM.
From DV Require Import Proofs.VersInv Proofs.VersThms Proofs.WritersInv Proofs.WritersSerial Proofs.WritersNoFail Proofs.WritersThms.
Import VersM WritersM.

(* at most one write transaction is open, and _write_txn says whose it is *)
Theorem mutex : forall s t1 t2,
  Reachable s -> act (pcs s t1) = true -> act (pcs s t2) = true -> t1 = t2.
Proof. exact T_mutex. Qed.
Print Assumptions mutex.

Theorem write_txn_owner : forall s t, Reachable s -> (wtxn s = Some t <-> act (pcs s t) = true).
Proof. exact T_write_txn_owner. Qed.
Print Assumptions write_txn_owner.

(* writers are granted in the order they arrived: the arrival order is the granted writers followed
   by the queue, whose order is that of the events in _write_event ++ _write_waiters ... *)
Theorem fifo : forall s,
  Reachable s ->
  arrivals s = granted s ++ wq s /\
  Forall2 (fun t e => wo (pcs s t) = Some e) (wq s) (Q s) /\
  (forall t e, wo (pcs s t) = Some e -> In t (wq s)).
Proof. exact T_fifo. Qed.
Print Assumptions fifo.

(* ... and an admission takes the head of that queue, or a newcomer only when the queue is empty *)
Theorem admission_order : forall s t ev,
  Reachable s -> pcs s t = Crit (CWriterTest ev) ->
  granted (step s t) = granted s ++ [t] ->
  (exists rest, ev <> None /\ wq s = t :: rest /\ wq (step s t) = rest) \/
  (ev = None /\ wq s = [] /\ wq (step s t) = []).
Proof. exact T_admission_order. Qed.
Print Assumptions admission_order.

(* no lost wake-up: whenever the zone is free and somebody is queued, the head of the queue has been
   woken: its event is in _write_event and is set *)
Theorem no_lost_wakeup : forall s,
  Reachable s -> wtxn s = None -> wq s <> [] ->
  exists t e rest, wq s = t :: rest /\ wevent s = Some e /\ mem e (evset s) = true /\ wo (pcs s t) = Some e.
Proof. exact T_no_lost_wakeup. Qed.
Print Assumptions no_lost_wakeup.

(* a woken writer is granted by its next critical section (the loop in writer() runs at most twice) *)
Theorem woken_writer_is_granted : forall s t e,
  Reachable s -> pcs s t = Crit (CWriterTest (Some e)) ->
  pcs (step s t) t = Rel SetupId /\ wtxn (step s t) = Some t /\ granted (step s t) = granted s ++ [t].
Proof. exact T_woken_writer_is_granted. Qed.
Print Assumptions woken_writer_is_granted.

(* no deadlock: while any thread is unfinished some thread can move *)
Theorem deadlock_free : forall s t,
  Reachable s -> pcs s t <> Done -> exists t', enabled s t' = true.
Proof. exact T_deadlock_free. Qed.
Print Assumptions deadlock_free.

(* progress: every step strictly decreases the weight of the moving thread ... *)
Theorem progress : forall s t,
  Reachable s -> enabled s t = true ->
  (weight (nedits s t) (pcs (step s t) t) < weight (nedits s t) (pcs s t))%nat.
Proof. exact T_progress. Qed.
Print Assumptions progress.

(* ... so with finitely many unfinished threads every run is finite (and, by deadlock_free, can only
   stop when every thread is Done: every waiting writer is eventually granted and ends) *)
Theorem runs_are_bounded : forall sch s ts,
  Reachable s -> NoDup ts -> (forall t, ~ In t ts -> pcs s t = Done) ->
  valid_sched s sch -> (length sch <= total s ts)%nat.
Proof. exact T_runs_are_bounded. Qed.
Print Assumptions runs_are_bounded.

(* serial equivalence: the history of versions is the serial application of the ended write
   transactions, which ended in admission order; the retained versions are its tail *)
Theorem serial_equivalence : forall s,
  Reachable s ->
  hist (vz s) = serial (map (prg s) (ended s)) /\
  granted s = ended s ++ match wtxn s with Some t => [t] | None => [] end /\
  (exists dropped, hist (vz s) = dropped ++ versions (vz s)) /\
  (exists v, last_opt (versions (vz s)) = Some v /\ last_opt (hist (vz s)) = Some v).
Proof. exact T_serial_equivalence. Qed.
Print Assumptions serial_equivalence.

Theorem final_state : forall s,
  Reachable s -> (forall t, pcs s t = Done) ->
  wtxn s = None /\ wq s = [] /\ arrivals s = granted s /\ ended s = granted s /\
  hist (vz s) = serial (map (prg s) (granted s)) /\
  last_opt (versions (vz s)) = last_opt (serial (map (prg s) (granted s))).
Proof. exact T_final_state. Qed.
Print Assumptions final_state.

(* the two unlocked reads of _setup_version are safe: while a writer owns the transaction the id it
   read is still the next id and its working content is still derived from the newest version *)
Theorem latest_stable_for_writer : forall s t,
  Reachable s ->
  (forall id, wid_of (pcs s t) = Some id -> id = next_id (versions (vz s))) /\
  on_track (prg s t) (vz s) (pcs s t).
Proof. exact T_latest_stable_for_writer. Qed.
Print Assumptions latest_stable_for_writer.

Theorem commit_never_fails : forall s t id c,
  Reachable s -> pcs s t = Crit (CEndWrite id c true) ->
  wtxn s = Some t /\
  exists z', VersM.step (vz_set_wtxn (vz s) (Some (mkW id c true))) WCommit = Ok (z', RUnit) /\
             hist z' = hist (vz s) ++ [mkV id c] /\ last_opt (versions z') = Some (mkV id c).
Proof. exact T_commit_never_fails. Qed.
Print Assumptions commit_never_fails.

(* no assert (`assert self._write_txn == txn`, `assert len(self._versions) > 0`), deque index or
   set.remove inside any critical section ever fails, under any schedule *)
Theorem no_failure : forall s, Reachable s -> failed s = None.
Proof. exact T_no_failure. Qed.
Print Assumptions no_failure.

(* arrival, admission and end orders only ever grow at the tail (nobody is inserted in front of a
   waiting writer: with `fifo`, a waiter's distance to admission never increases) *)
Theorem orders_append_only : forall s t,
  Reachable s -> enabled s t = true ->
  (arrivals (step s t) = arrivals s \/ arrivals (step s t) = arrivals s ++ [t]) /\
  (granted (step s t) = granted s \/ granted (step s t) = granted s ++ [t]) /\
  (ended (step s t) = ended s \/ ended (step s t) = ended s ++ [t]).
Proof. exact T_orders_append_only. Qed.
Print Assumptions orders_append_only.

(* readers never wait for a write transaction: the lock is only ever held by a thread inside a
   critical section (never across Event.wait, version set-up or a transaction body), that thread can
   always move and frees the lock within two of its own steps; so a reader about to open is either
   enabled or held up only by such a thread, never by an open write transaction or by waiting writers *)
Theorem lock_only_in_critical_sections : forall s t,
  Reachable s -> lock s = Some t ->
  holds_lock (pcs s t) = true /\ enabled s t = true /\
  (lock (step s t) = None \/ lock (step (step s t) t) = None).
Proof. exact T_lock_only_in_critical_sections. Qed.
Print Assumptions lock_only_in_critical_sections.

Theorem reader_never_blocked_by_txn : forall s t sel,
  Reachable s -> pcs s t = Acq (CReaderOpen sel) ->
  enabled s t = true \/
  exists t', lock s = Some t' /\ holds_lock (pcs s t') = true /\ enabled s t' = true /\
             (lock (step s t') = None \/ lock (step (step s t') t') = None).
Proof. exact T_reader_never_blocked_by_txn. Qed.
Print Assumptions reader_never_blocked_by_txn.

(* no partial view: what a reader holds is one of the committed versions of the serial history *)
Theorem reader_sees_committed : forall s t i c,
  Reachable s -> rsnap (pcs s t) = Some (i, c) ->
  In (mkV i c) (hist (vz s)) /\ hist (vz s) = serial (map (prg s) (ended s)).
Proof. exact T_reader_sees_committed. Qed.
Print Assumptions reader_sees_committed.

(* ---- non-vacuity: three writers and a reader; writer 1 and 2 queue behind writer 0 *)
Definition ex_progs (t : nat) : prog :=
  match t with
  | 0%nat => PWriter false [EPut 2 1] true
  | 1%nat => PWriter false [EPut 2 2; EPut 3 1] true
  | 2%nat => PWriter false [EDel 2] false
  | 3%nat => PReader SelLatest
  | _ => PNone
  end.

(* writer 0 granted; writers 1, 2 arrive and queue; reader opens; writer 0 commits and wakes 1 *)
Definition ex_sched : list nat :=
  [0;0;0;0;0; 1;1;1; 2;2;2; 3;3;3; 0;0;0;0]%nat.

Definition ex_state := run_sched (init ex_progs) ex_sched.

Example ex_reachable : Reachable ex_state.
Proof. exists ex_progs, ex_sched. reflexivity. Qed.

Example ex_queue : wtxn ex_state = None /\ wq ex_state = [1; 2]%nat /\ wevent ex_state = Some 0%nat /\
                   waiters ex_state = [1%nat] /\ arrivals ex_state = [0; 1; 2]%nat /\ granted ex_state = [0%nat] /\
                   map vid (versions (vz ex_state)) = [1; 2]%Z.
Proof. vm_compute. repeat split; reflexivity. Qed.

Example ex_woken : pcs (run_sched (init ex_progs) (ex_sched ++ [1; 1]%nat)) 1%nat = Crit (CWriterTest (Some 0%nat)).
Proof. vm_compute. reflexivity. Qed.

Example ex_reader : rsnap (pcs ex_state 3%nat) = Some (1%Z, []).
Proof. vm_compute. reflexivity. Qed.

Example ex_commit : exists c, pcs (run_sched (init ex_progs) (firstn 16 ex_sched)) 0%nat = Crit (CEndWrite 2%Z c true).
Proof. eexists. vm_compute. reflexivity. Qed.

Example ex_final :
  let s := run_sched (init ex_progs) (ex_sched ++ [1;1;1;1;1;1;1;1;1;1;1;1; 2;2;2;2;2;2;2;2;2;2;2; 3;3;3;3;3]%nat) in
  forallb (fun t => match pcs s t with Done => true | _ => false end) [0;1;2;3]%nat = true /\
  granted s = [0; 1; 2]%nat /\ map vid (hist (vz s)) = [1; 2; 3]%Z /\
  last_opt (versions (vz s)) = Some (mkV 3 [(2, 2); (3, 1)]%Z).
Proof. vm_compute. repeat split; reflexivity. Qed.
