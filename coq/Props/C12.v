From DV Require Import Base.Prelude Model.VersM Model.WritersM.
