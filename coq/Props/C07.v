From DV Require Import Base.Prelude Model.SetM.
Theorem placeholder_c07 : sadd Z.eqb 1 [1] = [1].
Proof. reflexivity. Qed.
Print Assumptions placeholder_c07.
