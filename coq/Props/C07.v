(* C07 - records and record sets have value semantics and exact set algebra.
   Statements only; the proofs are in Proofs/SetAlg.v, SetRdata.v, SetMachine.v. *)
From Coq Require Import Permutation.
From DV Require Import Base.Prelude Model.SetM Proofs.SetAlg Proofs.SetRdata Proofs.SetMachine.
Open Scope Z_scope.

(* ---------------- records: equality, hash, order ---------------- *)

(* two records are equal iff same class, same type and same canonical encoding (and the same
   relativity, the rule of Rdata.__eq__) *)
Theorem rdata_eq_iff_digest : forall a b,
  rd_eqb a b = true <->
  rcls a = rcls b /\ rtyp a = rtyp b /\ rrel a = rrel b /\ rdig a = rdig b.
Proof. exact rd_eqb_iff. Qed.
Print Assumptions rdata_eq_iff_digest.

Theorem rdata_ne_is_not_eq : forall a b, rd_neb a b = negb (rd_eqb a b).
Proof. exact rd_neb_negb. Qed.
Print Assumptions rdata_ne_is_not_eq.

Theorem rdata_hash_congr : forall a b, rd_eqb a b = true -> rd_hashkey a = rd_hashkey b.
Proof. exact rd_hash_congr. Qed.
Print Assumptions rdata_hash_congr.

(* _cmp is antisymmetric, transitive, total, its equivalence is ==, and between records of the
   same relativity it is the canonical RDATA octet order of RFC 4034 6.3 *)
Theorem rdata_order_total :
  (forall a b, rd_cmp b a = - rd_cmp a b) /\
  (forall a b c, rd_cmp a b <= 0 -> rd_cmp b c <= 0 -> rd_cmp a c <= 0) /\
  (forall a b, rd_cmp a b <= 0 \/ rd_cmp b a <= 0) /\
  (forall a b, rcls a = rcls b -> rtyp a = rtyp b -> (rd_cmp a b = 0 <-> rd_eqb a b = true)) /\
  (forall a b, rrel a = rrel b -> (rd_cmp a b < 0 <-> lex_lt (rdig a) (rdig b))).
Proof. exact rd_order_total_spec. Qed.
Print Assumptions rdata_order_total.

Theorem rdata_rich_comparisons : forall w a b,
  rcls a = rcls b -> rtyp a = rtyp b ->
  rd_rich w a b = Ok (match w with
                      | RLt => rd_cmp a b <? 0
                      | RLe => rd_cmp a b <=? 0
                      | RGe => rd_cmp a b >=? 0
                      | RGt => rd_cmp a b >? 0
                      end).
Proof. exact rd_rich_spec. Qed.
Print Assumptions rdata_rich_comparisons.

(* ---------------- dns.set.Set: a set that remembers first-insertion order ---------------- *)

(* every public method of Set, in every order and with every aliasing of the registers, keeps
   every set duplicate-free *)
Theorem nodup_inv : forall ops st, Forall ND st -> Forall ND (sexec st ops).
Proof. exact sexec_nodup. Qed.
Print Assumptions nodup_inv.

(* the algebra for an arbitrary element type whose == is an equivalence relation; `same` is
   `self is other` and is only ever true when the two arguments are the same object *)
Theorem set_algebra_generic :
  forall (A : Type) (eqb : A -> A -> bool),
    (forall x, eqb x x = true) -> (forall x y, eqb x y = eqb y x) ->
    (forall x y z, eqb x y = true -> eqb y z = true -> eqb x z = true) ->
    forall a s o same x,
      NoDupE A eqb s -> NoDupE A eqb o -> (same = true -> o = s) ->
      mem eqb x (salg_g A eqb a s o same) = alg_bool a (mem eqb x s) (mem eqb x o).
Proof. exact salg_mem. Qed.
Print Assumptions set_algebra_generic.

(* in-place forms, including the aliased calls a.union_update(a) etc. *)
Theorem union_spec : forall s o same x, ND s -> ND o -> (same = true -> o = s) ->
  rmem x (sunion_update rd_eqb s o same) = rmem x s || rmem x o.
Proof. exact union_update_mem. Qed.
Print Assumptions union_spec.

Theorem inter_spec : forall s o same x, ND s -> ND o -> (same = true -> o = s) ->
  rmem x (sinter_update rd_eqb s o same) = rmem x s && rmem x o.
Proof. exact inter_update_mem. Qed.
Print Assumptions inter_spec.

Theorem diff_spec : forall s o same x, ND s -> ND o -> (same = true -> o = s) ->
  rmem x (sdiff_update rd_eqb s o same) = rmem x s && negb (rmem x o).
Proof. exact diff_update_mem. Qed.
Print Assumptions diff_spec.

Theorem symdiff_spec : forall s o same x, ND s -> ND o -> (same = true -> o = s) ->
  rmem x (ssym_update rd_eqb s o same) = xorb (rmem x s) (rmem x o).
Proof. exact sym_update_mem. Qed.
Print Assumptions symdiff_spec.

(* copying forms; o may be s itself *)
Theorem union_copy_spec : forall s o x, ND s -> ND o ->
  rmem x (sunion rd_eqb s o) = rmem x s || rmem x o.
Proof. exact union_mem. Qed.
Print Assumptions union_copy_spec.

Theorem inter_copy_spec : forall s o x, ND s -> ND o ->
  rmem x (sinter rd_eqb s o) = rmem x s && rmem x o.
Proof. exact inter_mem. Qed.
Print Assumptions inter_copy_spec.

Theorem diff_copy_spec : forall s o x, ND s -> ND o ->
  rmem x (sdiff rd_eqb s o) = rmem x s && negb (rmem x o).
Proof. exact diff_mem. Qed.
Print Assumptions diff_copy_spec.

Theorem symdiff_copy_spec : forall s o x, ND s -> ND o ->
  rmem x (ssym rd_eqb s o) = xorb (rmem x s) (rmem x o).
Proof. exact sym_mem. Qed.
Print Assumptions symdiff_copy_spec.

(* first-insertion order: the exact member lists (objects, not only equivalence classes) *)
Theorem order_first_insertion : forall s o, ND s -> ND o ->
  sunion_update rd_eqb s o false = s ++ filter (fun y => negb (rmem y s)) o /\
  sinter_update rd_eqb s o false = filter (fun y => rmem y o) s /\
  sdiff_update rd_eqb s o false = filter (fun y => negb (rmem y o)) s /\
  ssym_update rd_eqb s o false
    = filter (fun y => negb (rmem y o)) s ++ filter (fun y => negb (rmem y s)) o.
Proof. exact order_first_insertion_all. Qed.
Print Assumptions order_first_insertion.

Theorem aliased_inplace : forall a s,
  salg a s s true = match a with AUnion | AInter => s | ADiff | ASym => [] end.
Proof. exact set_alg_aliased. Qed.
Print Assumptions aliased_inplace.

Theorem subset_spec : forall s o,
  sissubset rd_eqb s o = true <-> (forall x, rmem x s = true -> rmem x o = true).
Proof. exact SetMachine.subset_spec. Qed.
Print Assumptions subset_spec.

Theorem superset_spec : forall s o,
  sissuperset rd_eqb s o = true <-> (forall x, rmem x o = true -> rmem x s = true).
Proof. exact SetMachine.superset_spec. Qed.
Print Assumptions superset_spec.

Theorem disjoint_spec : forall s o,
  sisdisjoint rd_eqb s o = true <-> (forall x, rmem x s = true -> rmem x o = true -> False).
Proof. exact SetMachine.disjoint_spec. Qed.
Print Assumptions disjoint_spec.

(* Set.__eq__ is equality of the member sets, whatever the insertion orders *)
Theorem eq_ignores_order : forall s o, ND s -> ND o ->
  (seq rd_eqb s o = true <-> forall x, rmem x s = rmem x o).
Proof. exact set_eq_ignores_order. Qed.
Print Assumptions eq_ignores_order.

Theorem eq_permutation : forall s s', ND s -> Permutation s s' -> seq rd_eqb s s' = true.
Proof. exact set_eq_perm. Qed.
Print Assumptions eq_permutation.

(* ---------------- non-vacuity ---------------- *)

(* two NS records that differ in the case of the target: distinct objects, equal, same hash *)
Definition ex_a := mkRd 0 1 2 0 [1; 97; 0] false.
Definition ex_A := mkRd 1 1 2 0 [1; 97; 0] false.
Definition ex_b := mkRd 2 1 2 0 [1; 98; 0] false.
Definition ex_rel := mkRd 3 1 2 0 [1; 97; 0] true.

Example ex_equal_distinct : rd_eqb ex_a ex_A = true /\ ex_a <> ex_A /\ rd_eqb ex_a ex_rel = false.
Proof. repeat split; discriminate. Qed.

Example ex_nd : ND [ex_a; ex_b] /\ ND [ex_b; ex_rel].
Proof. split; repeat constructor. Qed.

Example ex_union_keeps_first :
  sunion rd_eqb [ex_a; ex_b] [ex_rel; ex_A] = [ex_a; ex_b; ex_rel] /\
  ssym rd_eqb [ex_a; ex_b] [ex_rel; ex_A] = [ex_b; ex_rel] /\
  seq rd_eqb [ex_a; ex_b] [ex_b; ex_A] = true.
Proof. repeat split. Qed.

Example ex_machine :
  sexec [] [SNew 0 [ex_a; ex_A; ex_b]; SNew 1 [ex_b]; SInpl IDiff 0 (Some 1%nat); SInpl ISym 1 (Some 1%nat)]
  = [[ex_a]; []].
Proof. reflexivity. Qed.

Example ex_order : rd_cmp ex_rel ex_a = -1 /\ rd_cmp ex_a ex_b = -1 /\ lex_lt [1; 97; 0] [1; 98; 0].
Proof. repeat split. apply lex_tail, lex_head. lia. Qed.
