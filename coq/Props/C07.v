(* C07 - records and record sets have value semantics and exact set algebra.
   Statements only; the proofs are in Proofs/SetAlg.v, SetRdata.v, SetMachine.v, SetRds.v,
   SetRdsMachine.v, SetTtl.v, SetImm.v. *)
From Coq Require Import Permutation.
From DV Require Import Base.Prelude Model.SetM Proofs.SetAlg Proofs.SetRdata Proofs.SetMachine
  Proofs.SetRds Proofs.SetRdsMachine Proofs.SetTtl Proofs.SetImm Proofs.SetObj Proofs.SetProc.
From Coq Require Import Sorted.
From DV Require Model.NameM Model.SchemaM Model.DnssecM Model.SetCanonM Proofs.DnssecRef Proofs.SchemaCodec Proofs.SchemaFix Proofs.SetCanon Proofs.SetCanonRfc Proofs.SetCanonTotal.
Open Scope Z_scope.

(* ---------------- records: equality, hash, order ---------------- *)

(* two records are equal iff same class, same type and same canonical encoding (and the same
   relativity, the rule of Rdata.__eq__) *)
Theorem rdata_eq_iff_digest : forall a b,
  rd_eqb a b = true <->
  rcls a = rcls b /\ rtyp a = rtyp b /\ rrel a = rrel b /\ rdig a = rdig b.
Proof. exact rd_eqb_iff. Qed.
Print Assumptions rdata_eq_iff_digest.

Theorem rdata_ne_is_not_eq : forall a b, rd_neb a b = negb (rd_eqb a b).
Proof. exact rd_neb_negb. Qed.
Print Assumptions rdata_ne_is_not_eq.

Theorem rdata_hash_congr : forall a b, rd_eqb a b = true -> rd_hashkey a = rd_hashkey b.
Proof. exact rd_hash_congr. Qed.
Print Assumptions rdata_hash_congr.

(* _cmp is antisymmetric, transitive, total, its equivalence is ==, and between records of the
   same relativity it is the canonical RDATA octet order of RFC 4034 6.3 *)
Theorem rdata_order_total :
  (forall a b, rd_cmp b a = - rd_cmp a b) /\
  (forall a b c, rd_cmp a b <= 0 -> rd_cmp b c <= 0 -> rd_cmp a c <= 0) /\
  (forall a b, rd_cmp a b <= 0 \/ rd_cmp b a <= 0) /\
  (forall a b, rcls a = rcls b -> rtyp a = rtyp b -> (rd_cmp a b = 0 <-> rd_eqb a b = true)) /\
  (forall a b, rrel a = rrel b -> (rd_cmp a b < 0 <-> lex_lt (rdig a) (rdig b))).
Proof. exact rd_order_total_spec. Qed.
Print Assumptions rdata_order_total.

Theorem rdata_rich_comparisons : forall w a b,
  rcls a = rcls b -> rtyp a = rtyp b ->
  rd_rich w a b = Ok (match w with
                      | RLt => rd_cmp a b <? 0
                      | RLe => rd_cmp a b <=? 0
                      | RGe => rd_cmp a b >=? 0
                      | RGt => rd_cmp a b >? 0
                      end).
Proof. exact rd_rich_spec. Qed.
Print Assumptions rdata_rich_comparisons.

(* ---------------- records with their fields: ==, hash, order on the real encodings ---------------- *)
(* Model/SetCanonM.v: field lists and values are C02's (SchemaM), the canonical-form reference is
   C15's (DnssecRef.rfc4034_canonical_rdata); both imported read-only. *)
Module Canon.
Import NameM SchemaM SetCanonM SetCanon SetCanonRfc SetCanonTotal.

(* the structured ==, _cmp and hash agree with the flat records the set theorems are about *)
Theorem structured_eq_is_flat_eq : forall a b x y,
  s_abs a = Ok x -> s_abs b = Ok y -> s_eq a b = Ok (rd_eqb x y).
Proof. exact s_eq_abs. Qed.
Print Assumptions structured_eq_is_flat_eq.

Theorem structured_cmp_is_flat_cmp : forall a b x y,
  s_abs a = Ok x -> s_abs b = Ok y -> s_cmp a b = Ok (rd_cmp x y).
Proof. exact s_cmp_abs. Qed.
Print Assumptions structured_cmp_is_flat_cmp.

Theorem structured_hash_congr : forall a b x y,
  s_abs a = Ok x -> s_abs b = Ok y -> s_eq a b = Ok true -> s_hashkey a = s_hashkey b.
Proof. exact s_hash_congr. Qed.
Print Assumptions structured_hash_congr.

(* to_wire(canonicalize=True) is to_wire of the record with lower-cased names (types that pass
   the flag on), and plainly C02's writer otherwise *)
Theorem canonical_is_lowercased_encoding : forall o low, origin_lc o -> forall fs vs,
  cenc_fields o low fs vs = enc_fields o fs (lowvals low vs).
Proof. exact cenc_fields_low. Qed.
Print Assumptions canonical_is_lowercased_encoding.

(* two absolute records of one class and type are == iff their field values are equal: integers
   and octet strings identical, embedded names label by label up to ASCII case when the type
   passes canonicalize on (RFC 4034 6.2 types, see canonicalize_flags_are_rfc4034), identical
   otherwise.  The `only if` direction is C02's round trip: the wire form determines the record. *)
Theorem rdata_eq_iff_canonical : forall a b da db,
  schema_wf (sfs a) = true ->
  scls a = scls b -> styp a = styp b -> sfs b = sfs a -> slow b = slow a ->
  valid_fields (sfs a) (svs a) = true -> valid_fields (sfs a) (svs b) = true ->
  s_digest a None = Ok da -> s_digest b None = Ok db ->
  (s_eq a b = Ok true <-> vals_ci (slow a) (svs a) (svs b)).
Proof. exact s_eq_iff_fields. Qed.
Print Assumptions rdata_eq_iff_canonical.

(* the same without any hypothesis about the digests: every valid record with absolute names has
   one (C02's enc_fields_total) *)
Theorem valid_absolute_record_has_digest : forall r,
  schema_wf (sfs r) = true -> valid_fields (sfs r) (svs r) = true ->
  SchemaCodec.nok_fields SchemaFix.abs_name (sfs r) (svs r) ->
  exists d, s_digest r None = Ok d.
Proof. exact s_digest_total. Qed.
Print Assumptions valid_absolute_record_has_digest.

Theorem rdata_eq_iff_canonical_valid : forall a b,
  schema_wf (sfs a) = true ->
  scls a = scls b -> styp a = styp b -> sfs b = sfs a -> slow b = slow a ->
  valid_fields (sfs a) (svs a) = true -> valid_fields (sfs a) (svs b) = true ->
  SchemaCodec.nok_fields SchemaFix.abs_name (sfs a) (svs a) ->
  SchemaCodec.nok_fields SchemaFix.abs_name (sfs a) (svs b) ->
  (s_eq a b = Ok true <-> vals_ci (slow a) (svs a) (svs b)).
Proof. exact s_eq_iff_fields_abs. Qed.
Print Assumptions rdata_eq_iff_canonical_valid.

(* relative names: a record that has one never equals a record that has none; two such records
   are == iff the values agree after completing the relative names with the root *)
Theorem relative_record_never_equals_absolute : forall a b da db,
  s_digest_rel a = Ok (da, true) -> s_digest_rel b = Ok (db, false) ->
  s_eq a b = Ok false /\ s_eq b a = Ok false.
Proof. exact relative_never_equals_absolute. Qed.
Print Assumptions relative_record_never_equals_absolute.

Theorem rdata_eq_iff_canonical_relative : forall a b da db,
  schema_wf (sfs a) = true ->
  scls a = scls b -> styp a = styp b -> sfs b = sfs a -> slow b = slow a ->
  valid_fields (sfs a) (absvals (svs a)) = true -> valid_fields (sfs a) (absvals (svs b)) = true ->
  s_digest_rel a = Ok (da, true) -> s_digest_rel b = Ok (db, true) ->
  (s_eq a b = Ok true <-> vals_ci (slow a) (absvals (svs a)) (absvals (svs b))).
Proof. exact s_eq_iff_fields_relative. Qed.
Print Assumptions rdata_eq_iff_canonical_relative.

(* down to the sets: two spellings of one record are the same member (duplicates collapse), hash
   alike and compare as equal *)
Theorem spellings_of_one_record_collapse : forall a b da db x y,
  schema_wf (sfs a) = true ->
  scls a = scls b -> styp a = styp b -> sfs b = sfs a -> slow b = slow a ->
  valid_fields (sfs a) (svs a) = true -> valid_fields (sfs a) (svs b) = true ->
  s_digest a None = Ok da -> s_digest b None = Ok db ->
  vals_ci (slow a) (svs a) (svs b) ->
  s_abs a = Ok x -> s_abs b = Ok y ->
  rd_eqb x y = true /\ sadd rd_eqb y [x] = [x] /\ rd_hashkey x = rd_hashkey y /\ rd_cmp x y = 0.
Proof. exact case_variants_collapse. Qed.
Print Assumptions spellings_of_one_record_collapse.

(* to_digestable(origin) = RFC 4034 6.2 canonical RDATA (C15's reference), for every origin *)
Theorem digest_is_rfc4034_canonical : forall r origin fl,
  slow r = DnssecM.rfc_downcased (styp r) -> tf_fields (sfs r) (svs r) = Ok fl ->
  s_digest r origin = DnssecRef.rfc4034_canonical_rdata (styp r) fl origin.
Proof. exact s_digest_is_rfc4034. Qed.
Print Assumptions digest_is_rfc4034_canonical.

Theorem canonicalize_flags_are_rfc4034 :
  forallb (fun ct => match schema_of (fst ct) (snd ct) with
                     | Some (_, low) => Bool.eqb low (DnssecM.rfc_downcased (snd ct))
                     | None => false
                     end) table_types = true.
Proof. exact table_flags_are_rfc4034. Qed.
Print Assumptions canonicalize_flags_are_rfc4034.

(* ==, order and hash as statements about canonical RDATA octets *)
Theorem eq_order_hash_on_canonical_rdata : forall a b fa fb da db,
  scls a = scls b -> styp a = styp b ->
  slow a = DnssecM.rfc_downcased (styp a) -> slow b = DnssecM.rfc_downcased (styp b) ->
  tf_fields (sfs a) (svs a) = Ok fa -> tf_fields (sfs b) (svs b) = Ok fb ->
  DnssecRef.rfc4034_canonical_rdata (styp a) fa None = Ok da ->
  DnssecRef.rfc4034_canonical_rdata (styp b) fb None = Ok db ->
  s_eq a b = Ok (zlist_eqb da db) /\
  s_cmp a b = Ok (match cmp_bytes da db with Eq => 0 | Gt => 1 | Lt => -1 end) /\
  s_hashkey a = Ok da /\ s_hashkey b = Ok db.
Proof. exact s_eq_is_canonical_equality. Qed.
Print Assumptions eq_order_hash_on_canonical_rdata.

(* non-vacuity: an MX record and a case variant *)
Definition ex_mx1 := mkS 0 1 15 0 [FS (FU 2 65535); FS (FName true)] CkNone true [VS (VI 10); VS (VN [[77; 97]; []])].
Definition ex_mx2 := mkS 1 1 15 0 [FS (FU 2 65535); FS (FName true)] CkNone true [VS (VI 10); VS (VN [[109; 65]; []])].
Example ex_mx :
  schema_wf (sfs ex_mx1) = true /\ valid_fields (sfs ex_mx1) (svs ex_mx1) = true /\
  s_digest ex_mx1 None = Ok [0; 10; 2; 109; 97; 0] /\ s_digest ex_mx2 None = Ok [0; 10; 2; 109; 97; 0] /\
  s_eq ex_mx1 ex_mx2 = Ok true /\ vals_ci true (svs ex_mx1) (svs ex_mx2) /\
  tf_fields (sfs ex_mx1) (svs ex_mx1) = Ok [DnssecM.FRaw [0; 10]; DnssecM.FName [[77; 97]; []]].
Proof. repeat split; repeat constructor. Qed.
Definition ex_ns_rel1 := mkS 0 1 2 0 [FS (FName true)] CkNone true [VS (VN [[97]])].
Definition ex_ns_rel2 := mkS 1 1 2 0 [FS (FName true)] CkNone true [VS (VN [[65]])].
Example ex_relative :
  s_digest_rel ex_ns_rel1 = Ok ([1; 97; 0], true) /\ s_digest_rel ex_ns_rel2 = Ok ([1; 97; 0], true) /\
  valid_fields (sfs ex_ns_rel1) (absvals (svs ex_ns_rel1)) = true /\
  s_eq ex_ns_rel1 ex_ns_rel2 = Ok true /\
  s_digest_rel (mkS 2 1 2 0 [FS (FName true)] CkNone true [VS (VN [[97]; []])]) = Ok ([1; 97; 0], false).
Proof. repeat split. Qed.
Example ex_mx_abs : SchemaCodec.nok_fields SchemaFix.abs_name (sfs ex_mx1) (svs ex_mx1).
Proof. cbn. unfold SchemaFix.abs_name. auto. Qed.
End Canon.

(* ---------------- dns.set.Set: a set that remembers first-insertion order ---------------- *)

(* every public method of Set, in every order and with every aliasing of the registers, keeps
   every set duplicate-free *)
Theorem nodup_inv : forall ops st, Forall ND st -> Forall ND (sexec st ops).
Proof. exact sexec_nodup. Qed.
Print Assumptions nodup_inv.

(* the algebra for an arbitrary element type whose == is an equivalence relation; `same` is
   `self is other` and is only ever true when the two arguments are the same object *)
Theorem set_algebra_generic :
  forall (A : Type) (eqb : A -> A -> bool),
    (forall x, eqb x x = true) -> (forall x y, eqb x y = eqb y x) ->
    (forall x y z, eqb x y = true -> eqb y z = true -> eqb x z = true) ->
    forall a s o same x,
      NoDupE A eqb s -> NoDupE A eqb o -> (same = true -> o = s) ->
      mem eqb x (salg_g A eqb a s o same) = alg_bool a (mem eqb x s) (mem eqb x o).
Proof. exact salg_mem. Qed.
Print Assumptions set_algebra_generic.

(* value semantics: replacing every member of the operands by an equal element (another
   spelling of the same record) changes the result only by the same replacement *)
Theorem set_algebra_respects_equality :
  forall (A : Type) (eqb : A -> A -> bool),
    (forall x, eqb x x = true) -> (forall x y, eqb x y = eqb y x) ->
    (forall x y z, eqb x y = true -> eqb y z = true -> eqb x z = true) ->
    forall a s s' o o',
      NoDupE A eqb s -> NoDupE A eqb o ->
      Forall2 (fun x y => eqb x y = true) s s' -> Forall2 (fun x y => eqb x y = true) o o' ->
      Forall2 (fun x y => eqb x y = true) (salg_g A eqb a s o false) (salg_g A eqb a s' o' false).
Proof. exact salg_value_semantics. Qed.
Print Assumptions set_algebra_respects_equality.

(* in-place forms, including the aliased calls a.union_update(a) etc. *)
Theorem union_spec : forall s o same x, ND s -> ND o -> (same = true -> o = s) ->
  rmem x (sunion_update rd_eqb s o same) = rmem x s || rmem x o.
Proof. exact union_update_mem. Qed.
Print Assumptions union_spec.

Theorem inter_spec : forall s o same x, ND s -> ND o -> (same = true -> o = s) ->
  rmem x (sinter_update rd_eqb s o same) = rmem x s && rmem x o.
Proof. exact inter_update_mem. Qed.
Print Assumptions inter_spec.

Theorem diff_spec : forall s o same x, ND s -> ND o -> (same = true -> o = s) ->
  rmem x (sdiff_update rd_eqb s o same) = rmem x s && negb (rmem x o).
Proof. exact diff_update_mem. Qed.
Print Assumptions diff_spec.

Theorem symdiff_spec : forall s o same x, ND s -> ND o -> (same = true -> o = s) ->
  rmem x (ssym_update rd_eqb s o same) = xorb (rmem x s) (rmem x o).
Proof. exact sym_update_mem. Qed.
Print Assumptions symdiff_spec.

(* copying forms; o may be s itself *)
Theorem union_copy_spec : forall s o x, ND s -> ND o ->
  rmem x (sunion rd_eqb s o) = rmem x s || rmem x o.
Proof. exact union_mem. Qed.
Print Assumptions union_copy_spec.

Theorem inter_copy_spec : forall s o x, ND s -> ND o ->
  rmem x (sinter rd_eqb s o) = rmem x s && rmem x o.
Proof. exact inter_mem. Qed.
Print Assumptions inter_copy_spec.

Theorem diff_copy_spec : forall s o x, ND s -> ND o ->
  rmem x (sdiff rd_eqb s o) = rmem x s && negb (rmem x o).
Proof. exact diff_mem. Qed.
Print Assumptions diff_copy_spec.

Theorem symdiff_copy_spec : forall s o x, ND s -> ND o ->
  rmem x (ssym rd_eqb s o) = xorb (rmem x s) (rmem x o).
Proof. exact sym_mem. Qed.
Print Assumptions symdiff_copy_spec.

(* first-insertion order: the exact member lists (objects, not only equivalence classes) *)
Theorem order_first_insertion : forall s o, ND s -> ND o ->
  sunion_update rd_eqb s o false = s ++ filter (fun y => negb (rmem y s)) o /\
  sinter_update rd_eqb s o false = filter (fun y => rmem y o) s /\
  sdiff_update rd_eqb s o false = filter (fun y => negb (rmem y o)) s /\
  ssym_update rd_eqb s o false
    = filter (fun y => negb (rmem y o)) s ++ filter (fun y => negb (rmem y s)) o.
Proof. exact order_first_insertion_all. Qed.
Print Assumptions order_first_insertion.

Theorem aliased_inplace : forall a s,
  salg a s s true = match a with AUnion | AInter => s | ADiff | ASym => [] end.
Proof. exact set_alg_aliased. Qed.
Print Assumptions aliased_inplace.

Theorem subset_spec : forall s o,
  sissubset rd_eqb s o = true <-> (forall x, rmem x s = true -> rmem x o = true).
Proof. exact SetMachine.subset_spec. Qed.
Print Assumptions subset_spec.

Theorem superset_spec : forall s o,
  sissuperset rd_eqb s o = true <-> (forall x, rmem x o = true -> rmem x s = true).
Proof. exact SetMachine.superset_spec. Qed.
Print Assumptions superset_spec.

Theorem disjoint_spec : forall s o,
  sisdisjoint rd_eqb s o = true <-> (forall x, rmem x s = true -> rmem x o = true -> False).
Proof. exact SetMachine.disjoint_spec. Qed.
Print Assumptions disjoint_spec.

(* Set.__eq__ is equality of the member sets, whatever the insertion orders *)
Theorem eq_ignores_order : forall s o, ND s -> ND o ->
  (seq rd_eqb s o = true <-> forall x, rmem x s = rmem x o).
Proof. exact set_eq_ignores_order. Qed.
Print Assumptions eq_ignores_order.

Theorem eq_permutation : forall s s', ND s -> Permutation s s' -> seq rd_eqb s s' = true.
Proof. exact set_eq_perm. Qed.
Print Assumptions eq_permutation.

(* Set(items) and update(iterable): duplicates collapse, also inside the argument *)
Theorem init_collapses_duplicates : forall l x,
  ND (sof_list rd_eqb l) /\ rmem x (sof_list rd_eqb l) = rmem x l.
Proof. exact sof_list_spec. Qed.
Print Assumptions init_collapses_duplicates.

Theorem update_iterable_spec : forall s l x,
  ND s -> ND (supdate rd_eqb s l) /\ rmem x (supdate rd_eqb s l) = rmem x s || rmem x l.
Proof. exact supdate_spec. Qed.
Print Assumptions update_iterable_spec.

Theorem remove_spec : forall s x,
  ND s ->
  (rmem x s = false -> sremove rd_eqb x s = Lib eValueError) /\
  (rmem x s = true ->
     sremove rd_eqb x s = Ok (filter (fun k => negb (rd_eqb k x)) s) /\
     forall y, rmem y (filter (fun k => negb (rd_eqb k x)) s) = rmem y s && negb (rd_eqb y x)).
Proof. exact sremove_spec. Qed.
Print Assumptions remove_spec.

Theorem discard_spec : forall s x y,
  ND s -> rmem y (sdiscard rd_eqb x s) = rmem y s && negb (rd_eqb y x).
Proof. exact sdiscard_spec. Qed.
Print Assumptions discard_spec.

Theorem pop_spec : forall s : list rdata,
  (s = [] -> spop s = Internal iKeyError) /\
  (forall x s', spop s = Ok (x, s') -> s = s' ++ [x]) /\
  (s <> [] -> exists x s', spop s = Ok (x, s')).
Proof. exact spop_spec. Qed.
Print Assumptions pop_spec.

(* the algebra stated on the machine: for every operation history the hypotheses above hold
   by the invariant, so every in-place / copying / predicate step obeys set theory *)
Theorem set_history_inplace : forall ops w a r o s os,
  let st := sexec [] ops in
  nth_error st r = Some s -> nth_error st o = Some os -> inplace_alg w = Some a ->
  exists s', sstep st (SInpl w r (Some o)) = (set_nth st r s', N) /\
    ND s' /\ (forall x, rmem x s' = alg_bool a (rmem x s) (rmem x os)) /\
    (r <> o -> s' = alg_order rdata rd_eqb a s os).
Proof. exact set_machine_inplace. Qed.
Print Assumptions set_history_inplace.

Theorem set_history_copying : forall ops w d r o s os st',
  let st := sexec [] ops in
  nth_error st r = Some s -> nth_error st o = Some os ->
  assign st d (salg (func_alg w) s os false) = Some st' ->
  sstep st (SFunc w d r (Some o)) = (st', N) /\
  ND (salg (func_alg w) s os false) /\
  (forall x, rmem x (salg (func_alg w) s os false) = alg_bool (func_alg w) (rmem x s) (rmem x os)) /\
  salg (func_alg w) s os false = alg_order rdata rd_eqb (func_alg w) s os.
Proof. exact set_machine_copying. Qed.
Print Assumptions set_history_copying.

Theorem set_history_predicates : forall ops w r o s os,
  let st := sexec [] ops in
  nth_error st r = Some s -> nth_error st o = Some os ->
  sstep st (SPred w r (Some o)) = (st, ob (spred w s os)) /\
  (spred PEq s os = true <-> forall x, rmem x s = rmem x os) /\
  (spred PSubset s os = true <-> forall x, rmem x s = true -> rmem x os = true) /\
  (spred PSuperset s os = true <-> forall x, rmem x os = true -> rmem x s = true) /\
  (spred PDisjoint s os = true <-> forall x, rmem x s = true -> rmem x os = true -> False) /\
  spred PNe s os = negb (spred PEq s os).
Proof. exact set_machine_pred. Qed.
Print Assumptions set_history_predicates.

(* no aliasing effects in dns.set.Set: an operation changes no set but its target *)
Theorem set_frame : forall st op r,
  starget op <> Some r -> nth_error (fst (sstep st op)) r = nth_error st r.
Proof. exact sstep_frame. Qed.
Print Assumptions set_frame.

(* ---------------- Rdataset / ImmutableRdataset / RRset ---------------- *)

(* every reachable state, for all operation sequences over all registers and aliasings: members
   pairwise unequal, no member of another class/type/covered type, singleton types hold at most
   one record *)
Theorem rdataset_inv : forall ops r s,
  nth_error (rexec [] ops) r = Some s ->
  ND (items s) /\
  (forall x, In x (items s) -> rcls x = cls s /\ rtyp x = typ s) /\
  (is_sigtype (typ s) = true -> forall x, In x (items s) -> rcov x = cov s) /\
  (is_singleton (typ s) = true -> (length (items s) <= 1)%nat).
Proof. exact rds_machine_inv. Qed.
Print Assumptions rdataset_inv.

(* add() succeeds exactly on records of the set's class, type and covered type *)
Theorem rdataset_add_ok_iff : forall s rd ottl,
  snd (radd s rd ottl) = Ok tt <-> compat s rd /\ cov_ok s rd.
Proof. exact radd_ok_iff. Qed.
Print Assumptions rdataset_add_ok_iff.

(* wrong class or type: IncompatibleTypes and nothing changes *)
Theorem rdataset_refuses_type : forall s rd ottl,
  ~ compat s rd -> radd s rd ottl = (s, Lib eIncompatibleTypes).
Proof. exact radd_refuses_type. Qed.
Print Assumptions rdataset_refuses_type.

(* wrong covered type: DifferingCovers; only the TTL has been minimised (as in the code) *)
Theorem rdataset_refuses_covers : forall s rd ottl,
  compat s rd -> ~ cov_ok s rd ->
  radd s rd ottl = (match ottl with Some t => update_ttl s t | None => s end, Lib eDifferingCovers).
Proof. exact radd_refuses_covers. Qed.
Print Assumptions rdataset_refuses_covers.

Theorem rdataset_refuses : forall s rd ottl,
  snd (radd s rd ottl) <> Ok tt ->
  items (fst (radd s rd ottl)) = items s /\ cls (fst (radd s rd ottl)) = cls s /\
  typ (fst (radd s rd ottl)) = typ s /\ cov (fst (radd s rd ottl)) = cov s.
Proof. exact radd_failure_keeps_members. Qed.
Print Assumptions rdataset_refuses.

(* a non-empty rdataset of another class/type cannot be merged in *)
Theorem rdataset_union_refuses : forall self other,
  wf other -> items other <> [] -> (cls other <> cls self \/ typ other <> typ self) ->
  r_union_update self other false = (update_ttl self (ttl other), Lib eIncompatibleTypes).
Proof. exact r_union_update_refuses. Qed.
Print Assumptions rdataset_union_refuses.

Theorem singleton_keeps_newest : forall s rd ottl,
  is_singleton (typ s) = true -> compat s rd -> cov_ok s rd ->
  exists s', radd s rd ottl = (s', Ok tt) /\ items s' = [rd] /\ ttl s' = merged_ttl s ottl.
Proof. exact singleton_newest. Qed.
Print Assumptions singleton_keeps_newest.

Theorem singleton_union_keeps_newest : forall self other y,
  wf other -> mergeable self other -> is_singleton (typ self) = true -> items other = [y] ->
  exists s', r_union_update self other false = (s', Ok tt) /\ items s' = [y] /\
    ttl s' = (if isempty self then ttl other else Z.min (ttl self) (ttl other)).
Proof. exact r_union_update_singleton. Qed.
Print Assumptions singleton_union_keeps_newest.

Theorem rdataset_add : forall s rd ottl,
  is_singleton (typ s) = false -> compat s rd -> cov_ok s rd ->
  exists s', radd s rd ottl = (s', Ok tt) /\ items s' = sadd rd_eqb rd (items s) /\
             ttl s' = merged_ttl s ottl.
Proof. exact add_nonsingleton. Qed.
Print Assumptions rdataset_add.

(* the four in-place algorithms through the Rdataset overrides (Set.union_update calls
   Rdataset.add, TTL minimisation first): set theory on the members, first-insertion order *)
Theorem rdataset_algebra : forall a self other,
  wf self -> wf other -> mergeable self other -> is_singleton (typ self) = false ->
  exists s', ralg a self other false = (s', Ok tt) /\
    (forall x, rmem x (items s') = alg_bool a (rmem x (items self)) (rmem x (items other))) /\
    items s' = alg_order rdata rd_eqb a (items self) (items other).
Proof. exact ralg_mem. Qed.
Print Assumptions rdataset_algebra.

Theorem rdataset_algebra_ttl : forall a self other,
  wf other -> mergeable self other -> is_singleton (typ self) = false ->
  exists s', ralg a self other false = (s', Ok tt) /\
    items s' = salg a (items self) (items other) false /\
    ttl s' = (match a with
              | ADiff => ttl self
              | _ => if isempty self then ttl other else Z.min (ttl self) (ttl other)
              end) /\
    kd s' = kd self /\ cls s' = cls self /\ typ s' = typ self.
Proof. exact ralg_ok. Qed.
Print Assumptions rdataset_algebra_ttl.

Theorem rdataset_algebra_aliased : forall a self,
  ralg a self self true = (with_items self (salg a (items self) (items self) true), Ok tt).
Proof. exact ralg_aliased. Qed.
Print Assumptions rdataset_algebra_aliased.

Theorem rdataset_copying_forms : forall w self other,
  wf other -> mergeable self other -> is_singleton (typ self) = false ->
  exists x, r_func w self other = Ok x /\
    items x = salg (func_alg w) (items self) (items other) false /\
    kd x = kd self /\
    ttl x = (match func_alg w with
             | ADiff => ttl self
             | _ => if isempty self then ttl other else Z.min (ttl self) (ttl other)
             end).
Proof. exact r_func_ok. Qed.
Print Assumptions rdataset_copying_forms.

Theorem rdataset_history_inplace : forall ops w a r o s os,
  let st := rexec [] ops in
  nth_error st r = Some s -> nth_error st o = Some os -> r <> o ->
  kd s <> KImm -> inplace_alg w = Some a ->
  mergeable s os -> is_singleton (typ s) = false ->
  exists s', rstep st (RInpl w r o) = (set_nth st r s', N) /\
    (forall x, rmem x (items s') = alg_bool a (rmem x (items s)) (rmem x (items os))) /\
    items s' = alg_order rdata rd_eqb a (items s) (items os) /\
    ttl s' = (match a with
              | ADiff => ttl s
              | _ => if isempty s then ttl os else Z.min (ttl s) (ttl os)
              end).
Proof. exact rds_machine_inplace. Qed.
Print Assumptions rdataset_history_inplace.

(* the TTL of every rdataset, after any operation sequence, is the minimum of the non-empty
   list of TTL literals merged into it (directly or through other sets) since it was last
   empty; the list is the ghost history computed by gstep *)
Theorem ttl_is_min : forall ops r s,
  nth_error (rexec [] ops) r = Some s ->
  exists hs, hs = hget (snd (rexec_g [] [] ops)) r /\ hs <> [] /\ ttl s = hmin hs /\
             forall t, In t hs -> In t (flat_map op_literals ops).
Proof. exact ttl_is_min_of_merged. Qed.
Print Assumptions ttl_is_min.

Theorem ttl_ghost_is_erasable : forall ops st h, fst (rexec_g st h ops) = rexec st ops.
Proof. exact rexec_g_fst. Qed.
Print Assumptions ttl_ghost_is_erasable.

(* no aliasing effects: a set that is not the target of an operation is not changed by it *)
Theorem rdataset_frame : forall st op r,
  rtarget op <> Some r -> nth_error (fst (rstep st op)) r = nth_error st r.
Proof. exact rstep_frame. Qed.
Print Assumptions rdataset_frame.

(* an ImmutableRdataset is never modified by any method *)
Theorem immutable_rdataset_unchanged : forall st op r s,
  nth_error st r = Some s -> kd s = KImm -> rrebind op <> Some r ->
  nth_error (fst (rstep st op)) r = Some s.
Proof. exact imm_unchanged. Qed.
Print Assumptions immutable_rdataset_unchanged.

(* rdataset equality: class, type, covered type and the member *set* (orders and TTLs are not
   compared); two RRsets also need equal owner names *)
Theorem rdataset_eq_spec : forall a b,
  wf a -> wf b ->
  (r_eq a b = true <->
   cls a = cls b /\ typ a = typ b /\ cov a = cov b /\
   (kd a = KRR -> kd b = KRR -> name_eqb (oname a) (oname b) = true) /\
   (forall x, rmem x (items a) = rmem x (items b))).
Proof. exact r_eq_spec. Qed.
Print Assumptions rdataset_eq_spec.

(* == on rdatasets is reflexive and symmetric; it is transitive except through a plain Rdataset
   between two RRsets (RRset.__eq__ ignores the owner name against a plain Rdataset, see
   ex_eq_not_transitive_across_kinds) *)
Theorem rdataset_eq_refl : forall a, wf a -> r_eq a a = true.
Proof. exact r_eq_refl. Qed.
Print Assumptions rdataset_eq_refl.

Theorem rdataset_eq_sym : forall a b, wf a -> wf b -> r_eq a b = r_eq b a.
Proof. exact r_eq_sym. Qed.
Print Assumptions rdataset_eq_sym.

Theorem rdataset_eq_trans : forall a b c,
  wf a -> wf b -> wf c -> kd b = KRR \/ (kd a <> KRR \/ kd c <> KRR) ->
  r_eq a b = true -> r_eq b c = true -> r_eq a c = true.
Proof. exact r_eq_trans. Qed.
Print Assumptions rdataset_eq_trans.

Theorem immutable_mutators_raise : forall st op r s,
  nth_error st r = Some s -> kd s = KImm -> op_self op = Some r -> imm_blocked op = true ->
  match op with RInpl _ _ o => nth_error st o <> None | _ => True end ->
  rstep st op = (st, E eTypeError).
Proof. exact imm_mutators_raise. Qed.
Print Assumptions immutable_mutators_raise.

Theorem rdataset_match_spec : forall s c t v,
  r_match s c t v = true <-> cls s = c /\ typ s = t /\ cov s = v.
Proof. exact r_match_spec. Qed.
Print Assumptions rdataset_match_spec.

(* RRset.full_match / match(name, ...): all five identifying attributes, the owner name
   case-insensitively, the deleting class exactly *)
Theorem rrset_full_match_spec : forall s n c t v d,
  r_full_match s n c t v d = true <->
  cls s = c /\ typ s = t /\ cov s = v /\ map lower_l (oname s) = map lower_l n /\ deleting s = d.
Proof. exact r_full_match_spec. Qed.
Print Assumptions rrset_full_match_spec.

(* Rdataset.processing_order: whatever random.shuffle does (any function that rearranges its
   argument), the result is a rearrangement of the members, and for the prioritised types
   (MX, KX, RT, AFSDB, PX, NAPTR, SVCB, HTTPS) it is in non-decreasing priority order *)
Theorem processing_order_is_rearrangement :
  forall (A : Type) (shuffle : list A -> list A) (prio : A -> Z),
    (forall l, Permutation l (shuffle l)) ->
    forall by_priority items, Permutation items (processing_order A shuffle prio by_priority items).
Proof. exact processing_order_perm. Qed.
Print Assumptions processing_order_is_rearrangement.

Theorem processing_order_by_priority :
  forall (A : Type) (shuffle : list A -> list A) (prio : A -> Z),
    (forall l, Permutation l (shuffle l)) ->
    forall items, StronglySorted (le_prio A prio) (processing_order A shuffle prio true items).
Proof. exact processing_order_sorted. Qed.
Print Assumptions processing_order_by_priority.

(* weighted_processing_order (SRV, URI): whatever random.uniform returns, a rearrangement in
   non-decreasing priority order *)
Theorem weighted_order_is_rearrangement :
  forall (A : Type) (uniform : Z -> Z) (prio weight : A -> Z) items,
    Permutation items (weighted_order A uniform prio weight items).
Proof. exact weighted_order_perm. Qed.
Print Assumptions weighted_order_is_rearrangement.

Theorem weighted_order_by_priority :
  forall (A : Type) (uniform : Z -> Z) (prio weight : A -> Z) items,
    StronglySorted (le_prio A prio) (weighted_order A uniform prio weight items).
Proof. exact weighted_order_sorted. Qed.
Print Assumptions weighted_order_by_priority.

(* ---------------- immutability guard, constify ---------------- *)

Theorem init_restores_context : forall a g, gctx (fst (gact g a)) = gctx g.
Proof. exact gact_ctx. Qed.
Print Assumptions init_restores_context.

Theorem setattr_after_init_raises : forall l o k v,
  let g := grun (mkG None [] []) l in
  gact g (ASet o k v) = (mkG None (gstore g) (glog g ++ [E eTypeError]), false) /\
  gact g (ADel o k) = (mkG None (gstore g) (glog g ++ [E eTypeError]), false).
Proof. exact setattr_after_init_raises_all. Qed.
Print Assumptions setattr_after_init_raises.

Theorem setattr_in_foreign_init_raises : forall g o o' k v,
  gctx g = Some o' -> o' <> o ->
  gact g (ASet o k v) = (mkG (gctx g) (gstore g) (glog g ++ [E eTypeError]), false).
Proof. exact setattr_inside_other_init. Qed.
Print Assumptions setattr_in_foreign_init_raises.

Theorem constify_immutable : forall v, pre v = true -> imm (constify v) = true.
Proof. exact constify_imm. Qed.
Print Assumptions constify_immutable.

Theorem constify_keeps_immutable : forall v, imm v = true -> constify v = v.
Proof. exact constify_id. Qed.
Print Assumptions constify_keeps_immutable.

(* the field normalisers: whatever the caller passes (bytearray, list of bytearrays, str), the
   stored field is bytes resp. a tuple of bytes *)
Theorem as_bytes_immutable : forall enc ml eok v r,
  as_bytes enc ml eok v = Ok r -> exists b, r = VBytes b.
Proof. exact as_bytes_imm. Qed.
Print Assumptions as_bytes_immutable.

Theorem as_tuple_immutable : forall enc ml eok v r,
  as_tuple (as_bytes enc ml eok) v = Ok r -> imm r = true.
Proof. exact as_tuple_bytes_imm. Qed.
Print Assumptions as_tuple_immutable.

(* copy / deepcopy / pickle: cls.__new__(cls).__setstate__(self.__getstate__()) is an object with
   exactly the fields of the original - slots and, for classes without __slots__, the instance
   dictionary (the state the fix 7fab959 added) - hence an equal record *)
Theorem getstate_returns_every_field : forall cs o,
  wf_obj cs o -> getstate cs o = Ok (oslots o ++ odict o).
Proof. exact getstate_all_fields. Qed.
Print Assumptions getstate_returns_every_field.

Theorem copy_is_the_same_record : forall cs hd o state,
  wf_obj cs o -> In rdcomment_id cs -> (odict o = [] \/ hd = true) ->
  getstate cs o = Ok state -> setstate cs hd state = Ok o.
Proof. exact copy_has_the_same_fields. Qed.
Print Assumptions copy_is_the_same_record.

(* replace(): class and type cannot be replaced, unknown fields are refused, and the new record
   is built by the class constructor from the kept and the replaced fields *)
Theorem replace_cannot_change_class_or_type : forall params ctor cs hd o kwargs k v,
  In (k, v) kwargs -> (k = 0 \/ k = 1) ->
  replace params ctor cs hd o kwargs = Internal iAttributeError.
Proof. exact replace_refuses_class_and_type. Qed.
Print Assumptions replace_cannot_change_class_or_type.

Theorem replace_refuses_unknown : forall params ctor cs hd o kwargs k v,
  In (k, v) kwargs -> k <> rdcomment_id -> ~ In k params ->
  replace params ctor cs hd o kwargs = Internal iAttributeError.
Proof. exact replace_refuses_unknown_field. Qed.
Print Assumptions replace_refuses_unknown.

Theorem replace_without_arguments : forall params ctor cs hd o,
  ogetattr o rdcomment_id = Some VNone ->
  replace params ctor cs hd o [] =
  (do args <- map_res (fun k => match ogetattr o k with Some v => Ok v | None => Internal iAttributeError end) params;
   ctor args).
Proof. exact replace_nothing. Qed.
Print Assumptions replace_without_arguments.

(* finding: without the hypothesis `pre` the statement is false - objects unknown to constify
   (dns.edns.Option inside an OPT record) stay mutable *)
Theorem constify_immutable_refuted : exists v, hashable v = true /\ imm (constify v) = false.
Proof. exact constify_opaque_refuted. Qed.
Print Assumptions constify_immutable_refuted.

(* ---------------- non-vacuity ---------------- *)

(* two NS records that differ in the case of the target: distinct objects, equal, same hash *)
Definition ex_a := mkRd 0 1 2 0 [1; 97; 0] false.
Definition ex_A := mkRd 1 1 2 0 [1; 97; 0] false.
Definition ex_b := mkRd 2 1 2 0 [1; 98; 0] false.
Definition ex_rel := mkRd 3 1 2 0 [1; 97; 0] true.

Example ex_equal_distinct : rd_eqb ex_a ex_A = true /\ ex_a <> ex_A /\ rd_eqb ex_a ex_rel = false.
Proof. repeat split; discriminate. Qed.

Example ex_nd : ND [ex_a; ex_b] /\ ND [ex_b; ex_rel].
Proof. split; repeat constructor. Qed.

Example ex_union_keeps_first :
  sunion rd_eqb [ex_a; ex_b] [ex_rel; ex_A] = [ex_a; ex_b; ex_rel] /\
  ssym rd_eqb [ex_a; ex_b] [ex_rel; ex_A] = [ex_b; ex_rel] /\
  seq rd_eqb [ex_a; ex_b] [ex_b; ex_A] = true.
Proof. repeat split. Qed.

Example ex_machine :
  sexec [] [SNew 0 [ex_a; ex_A; ex_b]; SNew 1 [ex_b]; SInpl IDiff 0 (Some 1%nat); SInpl ISym 1 (Some 1%nat)]
  = [[ex_a]; []].
Proof. reflexivity. Qed.

Example ex_order : rd_cmp ex_rel ex_a = -1 /\ rd_cmp ex_a ex_b = -1 /\ lex_lt [1; 97; 0] [1; 98; 0].
Proof. repeat split. apply lex_tail, lex_head. lia. Qed.

(* Rdataset examples: hypotheses of the Rdataset theorems are satisfiable *)
Definition ex_ns := mkRds KRds 1 2 0 300 [ex_a] [] None.
Definition ex_ns2 := mkRds KRds 1 2 0 60 [ex_A; ex_b] [] None.
Definition ex_cname := mkRds KRds 1 5 0 300 [mkRd 7 1 5 0 [1; 97; 0] false] [] None.
Definition ex_sig := mkRds KRds 1 46 1 300 [] [] None.

Example ex_wf : wf ex_ns /\ wf ex_ns2 /\ wf ex_cname /\ mergeable ex_ns ex_ns2.
Proof.
  split; [apply wfb_wf; reflexivity|]. split; [apply wfb_wf; reflexivity|].
  split; [apply wfb_wf; reflexivity|]. split; [reflexivity|]. split; [reflexivity|].
  cbn. intros H. discriminate H.
Qed.

Example ex_union_ttl :
  r_union_update ex_ns ex_ns2 false = (mkRds KRds 1 2 0 60 [ex_a; ex_b] [] None, Ok tt).
Proof. reflexivity. Qed.

Example ex_refuse :
  ~ compat ex_ns (mkRd 9 1 1 0 [1; 2; 3; 4] false) /\
  (compat ex_sig (mkRd 9 1 46 2 [0; 2] false) /\ ~ cov_ok ex_sig (mkRd 9 1 46 2 [0; 2] false)) /\
  (compat ex_cname (mkRd 8 1 5 0 [1; 98; 0] false) /\ cov_ok ex_cname (mkRd 8 1 5 0 [1; 98; 0] false)).
Proof.
  split; [intros [H1 H2]; cbn in H2; discriminate H2|].
  split.
  - split; [split; reflexivity|]. unfold cov_ok. cbn. intros [H|[[_ H]|H]]; discriminate H.
  - split; [split; reflexivity|]. left. reflexivity.
Qed.

Example ex_ttl_machine :
  let ops := [RNew 0 1 2 0 0; RAdd 0 ex_a (Some 300); RNew 1 1 2 0 0; RAdd 1 ex_b (Some 60);
              RInpl IUnion 0 1; RClear 0; RAdd 0 ex_b (Some 900)] in
  map ttl (rexec [] ops) = [900; 60] /\ snd (rexec_g [] [] ops) = [[900]; [60]].
Proof. split; reflexivity. Qed.

Example ex_guard :
  glog (grun (mkG None [] []) [AInit 0 [ASet 0 1 5; AInit 1 [ASet 0 2 6; ARaise]; ASet 0 3 7]; ASet 0 1 9])
  = [N; E eTypeError; E 999; E eTypeError].
Proof. reflexivity. Qed.

Example ex_constify :
  pre (VList [VByteArray [1]; VTuple [VList []]; VDict [(VInt 1, VList [VNone])]]) = true /\
  constify (VList [VByteArray [1]; VTuple [VList []]; VDict [(VInt 1, VList [VNone])]])
  = VTuple [VBytes [1]; VTuple [VTuple []]; VFrozen [(VInt 1, VTuple [VNone])]].
Proof. split; reflexivity. Qed.

Example ex_as_bytes :
  as_bytes true (Some 255) true (VByteArray [1; 2]) = Ok (VBytes [1; 2]) /\
  as_tuple (as_bytes true (Some 255) true) (VList [VByteArray [1]; VStr [97]]) = Ok (VTuple [VBytes [1]; VBytes [97]]) /\
  as_tuple (as_bytes false None true) (VInt 3) = Internal eTypeError.
Proof. repeat split. Qed.

(* hypotheses of the value-semantics theorem, of the history theorems and of the
   immutable-mutators theorem are satisfiable *)
Example ex_forall2 :
  Forall2 (fun x y => rd_eqb x y = true) [ex_a; ex_b] [ex_A; ex_b] /\
  Forall2 (fun x y => rd_eqb x y = true) (sunion rd_eqb [ex_a; ex_b] [ex_rel]) (sunion rd_eqb [ex_A; ex_b] [ex_rel]).
Proof. split; repeat constructor. Qed.

Example ex_history :
  let ops := [RNew 0 1 2 0 0; RAdd 0 ex_a (Some 300); RNew 1 1 2 0 0; RAdd 1 ex_A (Some 60); RAdd 1 ex_b None] in
  exists s os, nth_error (rexec [] ops) 0 = Some s /\ nth_error (rexec [] ops) 1 = Some os /\
    kd s <> KImm /\ mergeable s os /\ is_singleton (typ s) = false /\
    fst (rstep (rexec [] ops) (RInpl IXor 0 1)) = [mkRds KRds 1 2 0 60 [ex_b] [] None; os].
Proof.
  cbv zeta. eexists. eexists. split; [reflexivity|]. split; [reflexivity|].
  split; [discriminate|]. split; [|split; reflexivity].
  split; [reflexivity|]. split; [reflexivity|]. cbn. intros H. discriminate H.
Qed.

Example ex_immutable_blocked :
  let st := [mkRds KImm 1 2 0 300 [ex_a] [] None; ex_ns2] in
  rstep st (RInpl IOr 0 1) = (st, E eTypeError) /\ rstep st (RAdd 0 ex_b (Some 1)) = (st, E eTypeError) /\
  rstep st (RInpl ISub 0 0) = (st, E eTypeError) /\
  fst (rstep st (RFunc FOr 2 0 1)) = st ++ [mkRds KImm 1 2 0 60 [ex_a; ex_b] [] None].
Proof. repeat split. Qed.

(* an OPENPGPKEY-like object: no slot of its own, the key in the instance dictionary *)
Example ex_copy :
  let cs := [0; 1; 2] in
  let o := mkObj [(0, VInt 1); (1, VInt 61); (2, VNone)] [(3, VBytes [1; 2; 3])] in
  wf_obj cs o /\ getstate cs o = Ok [(0, VInt 1); (1, VInt 61); (2, VNone); (3, VBytes [1; 2; 3])] /\
  setstate cs true [(0, VInt 1); (1, VInt 61); (2, VNone); (3, VBytes [1; 2; 3])] = Ok o /\
  setstate cs true [(0, VInt 1); (1, VInt 61); (2, VNone)] <> Ok o.
Proof.
  cbv zeta. split; [|split; [reflexivity|split; [reflexivity|discriminate]]].
  repeat split; cbn; repeat constructor; cbn; try tauto; try lia;
    try (intros [H|[H|[H|[]]]]; discriminate); try (intros [H|[H|[]]]; discriminate);
    try (intros [H|[]]; discriminate); try (intros k [<-|[]] [H|[H|[H|[]]]]; discriminate).
Qed.

Example ex_processing_order :
  (forall l : list (Z * Z), Permutation l (rev l)) /\
  processing_order (Z * Z) (@rev _) fst true [(10, 1); (5, 2); (10, 3); (0, 4)] = [(0, 4); (5, 2); (10, 3); (10, 1)].
Proof. split; [apply Permutation_rev|reflexivity]. Qed.

Example ex_eq_not_transitive_across_kinds :
  let rr1 := mkRds KRR 1 2 0 0 [ex_a] [[120]; []] None in
  let rr2 := mkRds KRR 1 2 0 0 [ex_a] [[121]; []] None in
  let plain := mkRds KRds 1 2 0 9 [ex_A] [] None in
  r_eq rr1 plain = true /\ r_eq plain rr2 = true /\ r_eq rr1 rr2 = false.
Proof. repeat split. Qed.
