(* C16 - stub resolution reaches the documented outcome under every fault sequence.
   Model: Model/ResolM.v (resolver state machine, reply interpretation, cache, candidate names).
   A script `sc : nat -> outcome` is an arbitrary infinite sequence of per-query outcomes
   (duration + exception class or reply message); `resolve_with fuel sc c cache env` is one
   Resolver.resolve call once the candidate names c_qnames are known. *)
From DV Require Import Base.Prelude Model.NameM Model.ResolM.
From DV Require Import Proofs.ResolBase Proofs.ResolTerm Proofs.ResolTrace Proofs.ResolSpec Proofs.ResolCand Proofs.ResolChain Proofs.ResolBackoff Proofs.ResolMain.
Open Scope Z_scope.

(* Termination within the lifetime, for every script whose clock does not run backwards:
   the fuel `fuel_bound c` (a function of the number of servers, candidate names and the
   lifetime only) is never exhausted; every query is issued strictly before start + lifetime
   with a timeout that ends by then; the call returns at most one back-off interval (2 s)
   after max(start, start + lifetime); LifetimeTimeout is raised only once the lifetime is over. *)
Theorem terminates_within_lifetime : forall sc c ch e f s' e',
  (forall i, 0 <= o_dur (sc i)) ->
  resolve_with (fuel_bound c) sc c ch e = (f, s', e') ->
  f <> FFuel /\
  e_clock e <= e_clock e' <= Z.max (e_clock e) (e_clock e + c_lifetime c) + 2000 /\
  (exists new, e_trace e' = e_trace e ++ new /\ Forall (ev_in_lifetime c (e_clock e)) new) /\
  (forall errs d, f = FLifetime errs d -> d = e_clock e' - e_clock e /\ c_lifetime c <= d).
Proof. exact resolve_terminates_within_lifetime. Qed.
Print Assumptions terminates_within_lifetime.

(* A server that proved broken (query_result took it out of the mix: malformed reply, network
   error, unusable reply content, bad rcode, truncation over TCP) is never asked again within the
   resolution, across all candidate names; and neither list.remove nor an assertion of the
   resolver can fail.  Servers are distinct objects. *)
Theorem broken_never_reasked : forall sc c,
  NoDup (ids (c_servers c)) ->
  forall fuel ch e f s' e',
  resolve_with fuel sc c ch e = (f, s', e') -> f <> FFuel ->
  (exists new, e_trace e' = e_trace e ++ new /\
     ForallOrdPairs (fun a b => ev_drops c a = true -> ev_server b <> ev_server a) new) /\
  (forall k, f <> FInternal k).
Proof. exact broken_never_reasked_resolve. Qed.
Print Assumptions broken_never_reasked.

(* A truncated UDP reply is followed immediately by one TCP query to the same server for the
   same name without back-off; the resolution never ends on a truncated UDP reply; a reply
   truncated over TCP is not retried: that server is not asked again. *)
Theorem tc_retry_once_same_server : forall sc c,
  NoDup (ids (c_servers c)) -> (forall i, 0 <= o_dur (sc i)) ->
  forall ch e f s' e',
  resolve_with (fuel_bound c) sc c ch e = (f, s', e') ->
  exists new, e_trace e' = e_trace e ++ new /\
    adjacent (fun a b => ev_trunc_udp a = true ->
                ev_server b = ev_server a /\ ev_tcp b = true /\ ev_backoff b = 0 /\ ev_qname b = ev_qname a) new /\
    (forall a, last_opt new = Some a -> ev_trunc_udp a = false) /\
    ForallOrdPairs (fun a b => is_trunc (ev_obs a) = true -> ev_tcp a = true -> ev_server b <> ev_server a) new.
Proof. exact tc_retry_resolve. Qed.
Print Assumptions tc_retry_once_same_server.

(* The decision table of Resolver.resolve.  `new` = the queries of this resolution with what came
   back; `outcome_ok` (Proofs/ResolSpec.v, printed below) says, per documented result:
   Answer / NoAnswer: the last reply is the first acceptable NOERROR reply (every earlier reply is
     neither acceptable nor YXDOMAIN) and the Answer is built from it, or it is an unexpired cache
     entry for a candidate name; NoAnswer iff the RRset is absent and raise_on_no_answer;
   NXDOMAIN: the names reported are the candidates and EVERY candidate has NXDOMAIN evidence - an
     acceptable NXDOMAIN reply to a query for it in this resolution, or a cached NXDOMAIN;
   YXDOMAIN: the last reply has rcode YXDOMAIN;  NoNameservers: every configured server was taken
     out of the mix by one of the queries;  LifetimeTimeout: the lifetime has elapsed (or the clock
     went back by more than a second);  nothing else can come out.
   The cache afterwards is exactly `cache_after`: every acceptable reply stored under
   (question name, rdtype, rdclass) resp. (question name, ANY, rdclass) for NXDOMAIN. *)
Theorem outcome_spec : forall sc c ch fuel e f s' e',
  resolve_with fuel sc c ch e = (f, s', e') -> f <> FFuel ->
  exists new, e_trace e' = e_trace e ++ new /\
    match f with
    | FInternal _ => True      (* impossible for distinct servers: broken_never_reasked *)
    | _ => outcome_ok c (e_clock e) ch new f (e_clock e') /\ s_cache s' = cache_after c ch new
    end.
Proof. exact outcome_spec_resolve. Qed.
Print Assumptions outcome_spec.
Print outcome_ok.
Print from_network.
Print from_cache.
Print nx_prov.
Print cache_step.

(* Resolver.resolve as a whole (metaquery refusal, candidate names, then the loop with the
   sufficient fuel): exactly one of the six documented results, or one of the two refusals that
   happen before any query is sent - a metaquery, or a candidate name longer than 255 octets. *)
Theorem documented_results_only : forall sc r rq ch e f ch' e',
  NoDup (ids (r_servers r)) -> (forall i, 0 <= o_dur (sc i)) ->
  resolve 0 sc r rq ch e = (f, ch', e') ->
  (match f with
   | FAnswer _ | FNoAnswer _ | FNXDOMAIN _ _ | FYXDOMAIN | FNoNameservers _ | FLifetime _ _ => True
   | _ => False
   end) \/
  (f = FNoMetaqueries /\ (is_metatype (rq_rdtype rq) = true \/ is_metaclass (rq_rdclass rq) = true) /\ e' = e /\ ch' = ch) \/
  (exists er, f = FLibError er /\ qnames_to_try r (rq_qname rq) (rq_search rq) = Lib er /\ e' = e /\ ch' = ch).
Proof. exact resolve_documented_results. Qed.
Print Assumptions documented_results_only.

(* Candidate names: the search-list / ndots rule of _get_qnames_to_try ... *)
Theorem qnames_rule : forall r qname search l,
  qnames_to_try r qname search = Ok l ->
  let srch := match search with None => r_use_search_by_default r | Some b => b end in
  let nd := match r_ndots r with None => 1 | Some n => n end in
  (is_absolute qname = true -> l = [qname]) /\
  (is_absolute qname = false ->
     exists absq, concatenate qname root = Ok absq /\
       (srch = false -> l = [absq]) /\
       (srch = true ->
          exists sl cands,
            ((r_search r <> [] -> sl = r_search r) /\
             (r_search r = [] -> name_eqb (r_domain r) root = false -> sl = [r_domain r]) /\
             (r_search r = [] -> name_eqb (r_domain r) root = true -> sl = [])) /\
            Forall2 (fun s x => concatenate qname s = Ok x) sl cands /\
            (zlen qname - 1 >= nd -> l = absq :: cands) /\
            (zlen qname - 1 < nd -> l = cands ++ [absq]))).
Proof. exact qnames_rule_lemma. Qed.
Print Assumptions qnames_rule.

(* ... and the resolution asks them in that order: every query is for the candidate at position
   |candidates| - 1 - ev_left, positions never go back, and the resolution moves to a later
   candidate only right after an acceptable NXDOMAIN reply. *)
Theorem candidates_in_order : forall sc c ch fuel e f s' e',
  resolve_with fuel sc c ch e = (f, s', e') -> f <> FFuel ->
  exists new, e_trace e' = e_trace e ++ new /\
    Forall (fun ev => exists done rest, c_qnames c = done ++ ev_qname ev :: rest /\ length rest = ev_left ev) new /\
    adjacent (fun a b => (ev_left b <= ev_left a)%nat /\
                         ((ev_left b < ev_left a)%nat -> nx_accepts (ev_obs a) <> None)) new.
Proof. exact candidates_in_order_resolve. Qed.
Print Assumptions candidates_in_order.

(* The back-off law (ev_level = the sleep the next re-arm of the round will take): the first query is
   not delayed and announces 0.1 s; for consecutive queries a, b for the same candidate either b is
   not delayed and announces the same, or b sleeps exactly what a announced and announces twice as
   much, capped at 2 s; the first query for a new candidate is not delayed and announces 0.1 s. *)
Theorem backoff_law : forall sc c ch fuel e f s' e',
  resolve_with fuel sc c ch e = (f, s', e') -> f <> FFuel ->
  exists new, e_trace e' = e_trace e ++ new /\
    adjacent (fun a b =>
      if Nat.eqb (ev_left b) (ev_left a)
      then (ev_backoff b = 0 /\ ev_level b = ev_level a) \/
           (ev_backoff b = ev_level a /\ ev_level b = Z.min (ev_level a * 2) 2000)
      else ev_backoff b = 0 /\ ev_level b = 100) new /\
    (forall a l, new = a :: l -> ev_backoff a = 0 /\ ev_level a = 100).
Proof. exact backoff_law_resolve. Qed.
Print Assumptions backoff_law.

(* The answer follows the CNAME chain: the CNAME RRsets followed form a path in the answer section
   from the question name to the canonical name, fewer than MAX_CHAIN = 16 of them (whatever loops
   the section contains); the walk stops at the wanted RRset or where no CNAME continues; the
   minimum TTL is the minimum over the chain and the answer, or - for a negative reply - also the
   TTL and MINIMUM of the closest enclosing SOA in the authority section. *)
Theorem chain_spec : forall m ch,
  resolve_chaining m = Ok ch ->
  exists q, m_question m = [q] /\ m_qr m = true /\
    chain_path (m_answer m) (q_class q) (q_type q) (q_name q) (ch_cnames ch) (ch_canonical ch) /\
    (length (ch_cnames ch) < MAX_CHAIN)%nat /\
    stops_at (m_answer m) (q_class q) (q_type q) (ch_canonical ch) (ch_answer ch) /\
    match ch_answer ch with
    | Some a => m_rcode m <> rcNXDOMAIN /\ ch_min_ttl ch = Z.min (min_over MAX_TTL (ch_cnames ch)) (rs_ttl a)
    | None =>
        exists r, soa_at (m_authority m) (q_class q) (ch_canonical ch) r /\
          ch_min_ttl ch = match r with
                          | Some s => Z.min (Z.min (min_over MAX_TTL (ch_cnames ch)) (rs_ttl s)) (soa_minimum s)
                          | None => min_over MAX_TTL (ch_cnames ch)
                          end
    end.
Proof. exact chain_spec_lemma. Qed.
Print Assumptions chain_spec.

Theorem chain_too_long_only_if : forall m,
  resolve_chaining m = Lib eChainTooLong ->
  exists q p n, m_question m = [q] /\
    chain_path (m_answer m) (q_class q) (q_type q) (q_name q) p n /\ length p = MAX_CHAIN.
Proof. exact chain_too_long_lemma. Qed.
Print Assumptions chain_too_long_only_if.

(* Results are cached under the queried name, type and class: an answer accepted from the network is
   found under (its question name - a candidate -, rdtype, rdclass) until it expires ... *)
Theorem cache_key_spec : forall sc c ch fuel e f s' e' a,
  resolve_with fuel sc c ch e = (f, s', e') -> f <> FFuel -> c_cache c = true ->
  f = FAnswer a \/ f = FNoAnswer a ->
  forall new, e_trace e' = e_trace e ++ new -> from_network c new a ->
  In (a_qname a) (c_qnames c) /\
  forall now, now < a_expiration a ->
    cache_get (s_cache s') {| k_name := a_qname a; k_type := c_rdtype c; k_class := c_rdclass c |} now = Some a.
Proof. exact cache_put_spec_resolve. Qed.
Print Assumptions cache_key_spec.

(* ... and a later resolution returns such an entry without sending a query: when the candidates
   before it are known (cached) not to exist and have no cached answer themselves. *)
Theorem cache_hit_spec : forall sc c ch fuel e pre q rest a,
  c_qnames c = pre ++ q :: rest -> c_cache c = true ->
  (forall p, In p pre ->
     cache_get ch {| k_name := p; k_type := c_rdtype c; k_class := c_rdclass c |} (e_clock e) = None /\
     exists a', cache_get ch {| k_name := p; k_type := tANY; k_class := c_rdclass c |} (e_clock e) = Some a' /\
                a_rcode a' = rcNXDOMAIN) ->
  cache_get ch {| k_name := q; k_type := c_rdtype c; k_class := c_rdclass c |} (e_clock e) = Some a ->
  exists s', resolve_with fuel sc c ch e =
    ((if (match a_rrset a with None => true | Some _ => false end) && c_raise c then FNoAnswer a else FAnswer a), s', e)
    /\ s_cache s' = ch.
Proof. exact cache_hit_general_resolve. Qed.
Print Assumptions cache_hit_spec.

(* the definitions the statements above use (Proofs/Resol*.v), for the reader of the check log *)
Print ev_in_lifetime.
Print drops.
Print ev_drops.
Print is_trunc.
Print ev_trunc_udp.
Print accepts.
Print nx_accepts.
Print is_yx.
Print nonterminal.
Print nx_cached.
Print cache_after.
Print chain_path.
Print stops_at.
Print soa_at.
Print min_over.

(* ---------- non-vacuity: a concrete run satisfying all hypotheses ---------- *)
Definition ex_n1 : name := [[104]; [97]; []].
Definition ex_n2 : name := [[104]; []].
Definition ex_nx : pmsg := {| pm_qr := true; pm_rcode := 3; pm_nq := 1%nat; pm_answer := []; pm_authority := [] |}.
Definition ex_ans : pmsg :=
  {| pm_qr := true; pm_rcode := 0; pm_nq := 1%nat;
     pm_answer := [ {| p_owner := None; p_class := 1; p_type := 1; p_ttl := 300; p_data := None; p_num := 7 |} ];
     pm_authority := [] |}.
Definition ex_script : list outcome :=
  [ {| o_dur := 10; o_reply := PExn 0; o_reply_tcp := PExn 0 |};          (* malformed reply: server 0 is dropped *)
    {| o_dur := 10; o_reply := PMsg ex_nx; o_reply_tcp := PMsg ex_nx |};      (* NXDOMAIN for the first candidate *)
    {| o_dur := 10; o_reply := PExn 11; o_reply_tcp := PExn 11 |};         (* truncated over UDP *)
    {| o_dur := 10; o_reply := PMsg ex_ans; o_reply_tcp := PMsg ex_ans |} ].   (* answer over TCP *)
Definition ex_sc (i : nat) : outcome := nth i ex_script {| o_dur := 0; o_reply := PExn 12; o_reply_tcp := PExn 12 |}.
Definition ex_cfg : cfg :=
  {| c_servers := [ {| sv_id := 0; sv_maxsize := false |}; {| sv_id := 1; sv_maxsize := false |} ];
     c_tcp := false; c_retry_servfail := false; c_raise := true; c_cache := false;
     c_lifetime := 5000; c_timeout := 2000; c_rdtype := 1; c_rdclass := 1; c_qnames := [ex_n1; ex_n2] |}.
Definition ex_env : env := {| e_clock := 0; e_pos := 0; e_trace := [] |}.

Example ex_hyp_nodup : NoDup (ids (c_servers ex_cfg)).
Proof. repeat constructor; simpl; intuition discriminate. Qed.

Example ex_hyp_durations : forall i, 0 <= o_dur (ex_sc i).
Proof.
  intro i. unfold ex_sc. do 5 (destruct i as [|i]; [simpl; lia|]). simpl. destruct i; simpl; lia.
Qed.

Example ex_run :
  let '(f, _, e') := resolve_with (fuel_bound ex_cfg) ex_sc ex_cfg [] ex_env in
  map (fun ev => (ev_server ev, ev_tcp ev)) (e_trace e') = [(0, false); (1, false); (1, false); (1, true)]
  /\ map (ev_drops ex_cfg) (e_trace e') = [true; false; false; false]
  /\ map ev_trunc_udp (e_trace e') = [false; false; true; false]
  /\ (match f with FAnswer a => a_src a | _ => -1 end) = 3
  /\ e_clock e' = 40.
Proof. vm_compute. repeat split. Qed.

(* chain_spec: a reply with a two-link CNAME chain *)
Definition ex_t1 : name := [[116]; []].
Definition ex_t2 : name := [[117]; []].
Definition ex_chain_msg : msg :=
  inst_msg {| q_name := ex_n2; q_class := 1; q_type := 1 |}
    {| pm_qr := true; pm_rcode := 0; pm_nq := 1%nat;
       pm_answer := [ {| p_owner := None; p_class := 1; p_type := 5; p_ttl := 300; p_data := Some ex_t1; p_num := 0 |};
                      {| p_owner := Some ex_t1; p_class := 1; p_type := 5; p_ttl := 60; p_data := Some ex_t2; p_num := 0 |};
                      {| p_owner := Some ex_t2; p_class := 1; p_type := 1; p_ttl := 200; p_data := None; p_num := 9 |} ];
       pm_authority := [] |}.
Example ex_chain :
  match resolve_chaining ex_chain_msg with
  | Ok ch => ch_canonical ch = ex_t2 /\ ch_min_ttl ch = 60 /\ length (ch_cnames ch) = 2%nat /\ ch_answer ch <> None
  | _ => False
  end.
Proof. vm_compute. repeat split. discriminate. Qed.
Example ex_qnames :
  qnames_to_try {| r_servers := []; r_timeout := 2000; r_lifetime := 5000; r_retry_servfail := false;
                   r_cache := false; r_use_search_by_default := false; r_search := [[[97]; []]];
                   r_domain := root; r_ndots := None |} [[104]] (Some true)
  = Ok [[[104]; [97]; []]; [[104]; []]].
Proof. vm_compute. reflexivity. Qed.

(* cache_key_spec / cache_hit_spec: with the cache on, the answer of ex_run is stored and then hit without a query *)
Definition ex_cfg_cache : cfg :=
  {| c_servers := c_servers ex_cfg; c_tcp := false; c_retry_servfail := false; c_raise := true; c_cache := true;
     c_lifetime := 5000; c_timeout := 2000; c_rdtype := 1; c_rdclass := 1; c_qnames := [ex_n1; ex_n2] |}.
Example ex_cache :
  let '(f, s', e') := resolve_with (fuel_bound ex_cfg_cache) ex_sc ex_cfg_cache [] ex_env in
  (match f with
   | FAnswer a => a_src a = 3 /\ a_qname a = ex_n2 /\
                  cache_get (s_cache s') {| k_name := ex_n2; k_type := 1; k_class := 1 |} 1000 = Some a
   | _ => False end) /\
  let '(f2, _, e2) := resolve_with (fuel_bound ex_cfg_cache) ex_sc ex_cfg_cache (s_cache s') e' in
  (match f2 with FAnswer a2 => a_src a2 = 3 | _ => False end) /\ e_pos e2 = e_pos e' /\ length (e_trace e2) = 4%nat.
Proof. vm_compute. repeat split. Qed.
