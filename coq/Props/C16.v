(* C16 - stub resolution reaches the documented outcome under every fault sequence.
   Model: Model/ResolM.v (resolver state machine, reply interpretation, cache, candidate names).
   A script `sc : nat -> outcome` is an arbitrary infinite sequence of per-query outcomes
   (duration + exception class or reply message); `resolve_with fuel sc c cache env` is one
   Resolver.resolve call once the candidate names c_qnames are known. *)
From DV Require Import Base.Prelude Model.NameM Model.ResolM.
From DV Require Import Proofs.ResolBase Proofs.ResolTerm Proofs.ResolTrace Proofs.ResolMain.
Open Scope Z_scope.

(* Termination within the lifetime, for every script whose clock does not run backwards:
   the fuel `fuel_bound c` (a function of the number of servers, candidate names and the
   lifetime only) is never exhausted; every query is issued strictly before start + lifetime
   with a timeout that ends by then; the call returns at most one back-off interval (2 s)
   after max(start, start + lifetime); LifetimeTimeout is raised only once the lifetime is over. *)
Theorem terminates_within_lifetime : forall sc c ch e f s' e',
  (forall i, 0 <= o_dur (sc i)) ->
  resolve_with (fuel_bound c) sc c ch e = (f, s', e') ->
  f <> FFuel /\
  e_clock e <= e_clock e' <= Z.max (e_clock e) (e_clock e + c_lifetime c) + 2000 /\
  (exists new, e_trace e' = e_trace e ++ new /\ Forall (ev_in_lifetime c (e_clock e)) new) /\
  (forall errs d, f = FLifetime errs d -> d = e_clock e' - e_clock e /\ c_lifetime c <= d).
Proof. exact resolve_terminates_within_lifetime. Qed.
Print Assumptions terminates_within_lifetime.

(* A server that proved broken (query_result took it out of the mix: malformed reply, network
   error, unusable reply content, bad rcode, truncation over TCP) is never asked again within the
   resolution, across all candidate names; and neither list.remove nor an assertion of the
   resolver can fail.  Servers are distinct objects. *)
Theorem broken_never_reasked : forall sc c,
  NoDup (ids (c_servers c)) ->
  forall fuel ch e f s' e',
  resolve_with fuel sc c ch e = (f, s', e') -> f <> FFuel ->
  (exists new, e_trace e' = e_trace e ++ new /\
     ForallOrdPairs (fun a b => ev_drops c a = true -> ev_server b <> ev_server a) new) /\
  (forall k, f <> FInternal k).
Proof. exact broken_never_reasked_resolve. Qed.
Print Assumptions broken_never_reasked.

(* A truncated UDP reply is followed immediately by one TCP query to the same server for the
   same name without back-off; the resolution never ends on a truncated UDP reply; a reply
   truncated over TCP is not retried: that server is not asked again. *)
Theorem tc_retry_once_same_server : forall sc c,
  NoDup (ids (c_servers c)) -> (forall i, 0 <= o_dur (sc i)) ->
  forall ch e f s' e',
  resolve_with (fuel_bound c) sc c ch e = (f, s', e') ->
  exists new, e_trace e' = e_trace e ++ new /\
    adjacent (fun a b => ev_trunc_udp a = true ->
                ev_server b = ev_server a /\ ev_tcp b = true /\ ev_backoff b = 0 /\ ev_qname b = ev_qname a) new /\
    (forall a, last_opt new = Some a -> ev_trunc_udp a = false) /\
    ForallOrdPairs (fun a b => is_trunc (ev_obs a) = true -> ev_tcp a = true -> ev_server b <> ev_server a) new.
Proof. exact tc_retry_resolve. Qed.
Print Assumptions tc_retry_once_same_server.

(* ---------- non-vacuity: a concrete run satisfying all hypotheses ---------- *)
Definition ex_n1 : name := [[104]; [97]; []].
Definition ex_n2 : name := [[104]; []].
Definition ex_nx : pmsg := {| pm_qr := true; pm_rcode := 3; pm_nq := 1%nat; pm_answer := []; pm_authority := [] |}.
Definition ex_ans : pmsg :=
  {| pm_qr := true; pm_rcode := 0; pm_nq := 1%nat;
     pm_answer := [ {| p_owner := None; p_class := 1; p_type := 1; p_ttl := 300; p_data := None; p_num := 7 |} ];
     pm_authority := [] |}.
Definition ex_script : list outcome :=
  [ {| o_dur := 10; o_reply := PExn 0 |};          (* malformed reply: server 0 is dropped *)
    {| o_dur := 10; o_reply := PMsg ex_nx |};      (* NXDOMAIN for the first candidate *)
    {| o_dur := 10; o_reply := PExn 11 |};         (* truncated over UDP *)
    {| o_dur := 10; o_reply := PMsg ex_ans |} ].   (* answer over TCP *)
Definition ex_sc (i : nat) : outcome := nth i ex_script {| o_dur := 0; o_reply := PExn 12 |}.
Definition ex_cfg : cfg :=
  {| c_servers := [ {| sv_id := 0; sv_maxsize := false |}; {| sv_id := 1; sv_maxsize := false |} ];
     c_tcp := false; c_retry_servfail := false; c_raise := true; c_cache := false;
     c_lifetime := 5000; c_timeout := 2000; c_rdtype := 1; c_rdclass := 1; c_qnames := [ex_n1; ex_n2] |}.
Definition ex_env : env := {| e_clock := 0; e_pos := 0; e_trace := [] |}.

Example ex_hyp_nodup : NoDup (ids (c_servers ex_cfg)).
Proof. repeat constructor; simpl; intuition discriminate. Qed.

Example ex_hyp_durations : forall i, 0 <= o_dur (ex_sc i).
Proof.
  intro i. unfold ex_sc. do 5 (destruct i as [|i]; [simpl; lia|]). simpl. destruct i; simpl; lia.
Qed.

Example ex_run :
  let '(f, _, e') := resolve_with (fuel_bound ex_cfg) ex_sc ex_cfg [] ex_env in
  map (fun ev => (ev_server ev, ev_tcp ev)) (e_trace e') = [(0, false); (1, false); (1, false); (1, true)]
  /\ map (ev_drops ex_cfg) (e_trace e') = [true; false; false; false]
  /\ map ev_trunc_udp (e_trace e') = [false; false; true; false]
  /\ (match f with FAnswer a => a_src a | _ => -1 end) = 3
  /\ e_clock e' = 40.
Proof. vm_compute. repeat split. Qed.
