From DV Require Import Base.Prelude Model.NameM Model.BTZoneM.
Theorem placeholder_c20 : exec (mkCfg true [[]]) [] = zone0.
Proof. reflexivity. Qed.
Print Assumptions placeholder_c20.
