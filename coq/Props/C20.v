(* C20 - B-tree zone flags, delegation index and bounds are a function of zone content. *)
From DV Require Import Base.Prelude Model.NameM Model.BTZoneM.
From DV Require Import Proofs.BTZoneOrder Proofs.BTZoneList Proofs.BTZoneSpec Proofs.BTZoneInv Proofs.BTZoneMain
     Proofs.BTZoneBounds3 Proofs.BTZoneValid Proofs.BTZoneContent.
Open Scope Z_scope.

(* After any history of transactions (replacement loads, adds, replaces, deletes by name, type or
   rdata, commits and rollbacks; nested cuts included) the flags of every node and the delegation
   index of the newest committed version are the documented function of the zone content. *)
Theorem incremental_eq_spec : forall c h,
    history_ok c h ->
    let z := exec c h in
    (forall n nd, In (n, nd) (z_nodes z) -> nflags nd = flags_of c (z_nodes z) (n, nd)) /\
    map ekey (map fst (z_delegs z)) = map ekey (delegations_of c (z_nodes z)).
Proof. exact incremental_eq_spec_main. Qed.
Print Assumptions incremental_eq_spec.

(* Load-order independence, stated directly: two histories (for instance two permutations of the
   same records, or a load and a sequence of updates) that end with the same names carrying the
   same rdatasets end with the same flags on every node and the same delegation index. *)
Theorem derived_state_function_of_content : forall c h1 h2,
    history_ok c h1 -> history_ok c h2 ->
    same_content (z_nodes (exec c h1)) (z_nodes (exec c h2)) ->
    Forall2 (fun e1 e2 => nflags (snd e1) = nflags (snd e2)) (z_nodes (exec c h1)) (z_nodes (exec c h2)) /\
    map ekey (map fst (z_delegs (exec c h1))) = map ekey (map fst (z_delegs (exec c h2))).
Proof. exact derived_state_function_of_content_main. Qed.
Print Assumptions derived_state_function_of_content.

(* Names iterate in strictly increasing canonical order (NameM.order is dns.name's fullcompare). *)
Theorem iteration_canonical : forall c h,
    history_ok c h -> increasing (map fst (z_nodes (exec c h))).
Proof. exact iteration_canonical_main. Qed.
Print Assumptions iteration_canonical.

(* A transaction operation fails only in dns.zone._validate_name: the KeyError of
   `del self.nodes[name]` in delete_node / delete_rdataset is unreachable. *)
Theorem step_fails_only_in_validation : forall c v o,
    Inv c v -> name_ok c (top_name o) ->
    (exists v', tstep c v o = Ok v') \/ (forall n', validate_name c (top_name o) <> Ok n').
Proof. exact tstep_fails_only_in_validation. Qed.
Print Assumptions step_fails_only_in_validation.

(* For every query name the zone accepts, bounds() on a committed version that has an apex node
   returns: the nearest visible (non-glue) predecessor-or-self, the nearest visible successor
   (None when there is none), the longest suffix of the query that is at or above a visible name
   (a node or an empty non-terminal), whether the left bound equals the query, and whether the
   query is at or below a delegation point. *)
Theorem bounds_eq_spec : forall c h q0 q,
    history_ok c h -> is_absolute (c_origin c) = true ->
    In (apexkey c) (keys (z_nodes (exec c h))) ->
    validate_name c q0 = Ok q -> validk c (ekey q) ->
    exists b, bounds_v c (exec c h) q0 = Ok b /\ bounds_spec c (z_nodes (exec c h)) q b.
Proof. exact bounds_eq_spec_hist. Qed.
Print Assumptions bounds_eq_spec.

(* Delegations.get_delegation returns the delegation point at or above the name (with "is a
   proper subdomain"), or nothing when there is none; Delegations.is_glue is the documented
   "strictly beneath a delegation point". *)
Theorem get_delegation_eq_spec : forall c h q,
    history_ok c h ->
    let z := exec c h in
    match get_delegation (z_delegs z) q with
    | (Some cut, sub) =>
        In (ekey cut) (map ekey (delegations_of c (z_nodes z))) /\ is_subdomain q cut = true /\
        sub = strictly_beneath q cut
    | (None, sub) =>
        sub = false /\ forall d0, In d0 (delegations_of c (z_nodes z)) -> is_subdomain q d0 = false
    end /\
    deleg_is_glue (z_delegs z) q = glue_name c (z_nodes z) q.
Proof. exact get_delegation_eq_spec_main. Qed.
Print Assumptions get_delegation_eq_spec.

(* dns.zone._validate_name hands the version names at or beneath the apex with the zone's
   relativity, for every Name (only the last label may be empty) and every absolute origin:
   the hypothesis history_ok / validk of the theorems above holds for all real callers. *)
Theorem validate_name_valid : forall c n,
    is_absolute (c_origin c) = true -> wf_labels n -> name_ok c n.
Proof. exact validate_valid. Qed.
Print Assumptions validate_name_valid.

Theorem names_of_callers_ok : forall c h,
    is_absolute (c_origin c) = true ->
    Forall (fun t => Forall (fun o => wf_labels (top_name o)) (t_ops t)) h -> history_ok c h.
Proof. exact wf_history_ok. Qed.
Print Assumptions names_of_callers_ok.

(* The first two statements with the hypothesis on names discharged: for every absolute origin and
   every history whose operation names are Name objects. *)
Theorem incremental_eq_spec_all_callers : forall c h,
    is_absolute (c_origin c) = true -> names_wf h ->
    let z := exec c h in
    (forall n nd, In (n, nd) (z_nodes z) -> nflags nd = flags_of c (z_nodes z) (n, nd)) /\
    map ekey (map fst (z_delegs z)) = map ekey (delegations_of c (z_nodes z)) /\
    increasing (map fst (z_nodes z)).
Proof. exact incremental_eq_spec_names. Qed.
Print Assumptions incremental_eq_spec_all_callers.

(* ---- non-vacuity: a relativized zone with nested cuts b > a.b > q.z.a.b, loaded inner cut first,
        then the outer cut is removed in a second transaction ---- *)
Definition ex_cfg := mkCfg true [[101;120]; []].   (* origin "ex." *)
Definition la := [97]. Definition lb := [98]. Definition lz := [122]. Definition lq := [113].
Definition ex_h : list txn :=
  [ mkTxn true true [TAdd [] 2 [1]; TAdd [la; lb] 2 [1]; TAdd [lq; lz; la; lb] 2 [2];
                     TAdd [lz; la; lb] 1 [1]; TAdd [lb] 2 [1]; TAdd [lb; [101;120]; []] 1 [7]];
    mkTxn false true [TDelType [lb] 2] ].

Ltac name_ok_tac :=
  let n' := fresh in let H := fresh in
  intros n' H; vm_compute in H; inversion H; subst; eexists; vm_compute; reflexivity.

Example ex_history_ok : history_ok ex_cfg ex_h.
Proof. repeat constructor; name_ok_tac. Qed.

Example ex_result :
  map (fun e => (fst e, nflags (snd e))) (z_nodes (exec ex_cfg ex_h)) =
    [([], 1); ([lb], 0); ([la; lb], 2); ([lz; la; lb], 4); ([lq; lz; la; lb], 4)]
  /\ map fst (z_delegs (exec ex_cfg ex_h)) = [[la; lb]].
Proof. vm_compute. split; reflexivity. Qed.

Example ex_apex_present : In (apexkey ex_cfg) (keys (z_nodes (exec ex_cfg ex_h))).
Proof. vm_compute. auto. Qed.

Example ex_origin_absolute : is_absolute (c_origin ex_cfg) = true.
Proof. reflexivity. Qed.

(* z.a.b0 sorts after the glue beneath a.b: left is the cut a.b, right is none, the closest
   encloser is the origin, not at or below a delegation *)
Example ex_bounds :
  bounds_v ex_cfg (exec ex_cfg ex_h) [lz; la; [98; 48]] =
  Ok (mkBounds [la; lb] None [] false false)
  /\ bounds_v ex_cfg (exec ex_cfg ex_h) [lb; lz; la; lb] =
  Ok (mkBounds [la; lb] None [la; lb] false true).
Proof. vm_compute. split; reflexivity. Qed.

Example ex_wf : wf_labels [lb; [101;120]; []] /\ wf_labels [lq; lz; la; lb].
Proof. split; intros l Hl; cbn in Hl; intuition (subst; discriminate). Qed.

(* the same records loaded outer cut first, in three transactions, then the same deletion *)
Definition ex_h2 : list txn :=
  [ mkTxn true true [TAdd [] 2 [1]; TAdd [lb] 2 [1]];
    mkTxn false true [TAdd [lb] 1 [7]; TAdd [lz; la; lb] 1 [1]; TAdd [la; lb] 2 [1]];
    mkTxn false true [TAdd [lq; lz; la; lb] 2 [2]];
    mkTxn false false [TDelName []];
    mkTxn false true [TDelType [lb] 2] ].

Example ex_history2_ok : history_ok ex_cfg ex_h2.
Proof. repeat constructor; name_ok_tac. Qed.

Example ex_same_content : same_content (z_nodes (exec ex_cfg ex_h)) (z_nodes (exec ex_cfg ex_h2)).
Proof. vm_compute. repeat constructor. Qed.

(* a CNAME stored at the delegation point a.b evicts its NS rdataset: a.b is an ordinary node
   again and the NS owner q.z.a.b it was occluding becomes the delegation point *)
Definition ex_h3 : list txn := ex_h ++ [mkTxn false true [TReplace [la; lb] 5 [1]]].

Example ex_history3_ok : history_ok ex_cfg ex_h3.
Proof. repeat constructor; name_ok_tac. Qed.

Example ex_cname_evicts_ns :
  map (fun e => (fst e, nflags (snd e), map fst (nrds (snd e)))) (z_nodes (exec ex_cfg ex_h3)) =
    [([], 1, [2]); ([lb], 0, [1]); ([la; lb], 0, [5]); ([lz; la; lb], 0, [1]); ([lq; lz; la; lb], 2, [2])]
  /\ map fst (z_delegs (exec ex_cfg ex_h3)) = [[lq; lz; la; lb]].
Proof. vm_compute. split; reflexivity. Qed.
