(* C17 - resolver caches never serve stale data, honour the LRU bound, evict strictly LRU,
   count every lookup once, and are linearizable.
   Model: Model/CacheM.v (Cache value-level; LRUCache store-level with the sentinel ring).
   Histories are lists of `item`s: Call c ds (ds = clock increments seen by the reads of the
   call) and Adv d; `mono` = the clock never goes backwards. *)
From DV Require Import Base.Prelude Model.CacheM.
From DV Require Import Proofs.CacheRing Proofs.CacheDict Proofs.CacheLru Proofs.CacheSpec
  Proofs.CacheThm Proofs.CacheSimple Proofs.CacheBasic.

(* ---- never stale: a lookup returns an answer only if its expiration is strictly later than the
   last clock reading of that lookup (any state, any clock) *)
Theorem never_stale_cache : forall key c k v c' k',
  cache_step (Get key) c k = Ok (RAns v, c', k') -> now k' < a_exp v.
Proof. exact cache_get_fresh. Qed.
Print Assumptions never_stale_cache.

Theorem never_stale_lru : forall key c k v c' k',
  lru_step (Get key) c k = Ok (RAns v, c', k') -> now k' < a_exp v.
Proof. exact lru_get_fresh. Qed.
Print Assumptions never_stale_lru.

(* ---- every history of an LRUCache runs without KeyError/AttributeError/fuel exhaustion *)
Theorem lru_total : forall m t0 its, mono its ->
  exists c0 rs w, lru_init m = Ok c0 /\ wrun lru_step its (c0, t0) = Ok (rs, w).
Proof. exact lru_total_l. Qed.
Print Assumptions lru_total.

Theorem cache_total : forall interval t0 ds0 its, mono its -> Forall cache_item its ->
  exists rs w, wrun cache_step its
    (fst (cache_init interval (mkClk t0 ds0)), now (snd (cache_init interval (mkClk t0 ds0)))) = Ok (rs, w).
Proof. exact cache_total_c. Qed.
Print Assumptions cache_total.

(* ---- latest unexpired: a lookup returns exactly the most recently stored answer of the key
   that was neither flushed nor evicted (the ideal map `fst g`), unless it has expired *)
Theorem latest_unexpired_lru : forall m t0 its g w key ds r w',
  mono its -> lru_reach m t0 its g w -> nonneg ds ->
  wstep lru_step (Call (Get key) ds) w = Ok (Some r, w') ->
  r = expected (fst g) key (snd w').
Proof. exact lru_get_l. Qed.
Print Assumptions latest_unexpired_lru.

Theorem latest_unexpired_cache : forall interval t0 ds0 its g w key ds r w',
  mono its -> Forall cache_item its -> cache_reach interval t0 ds0 its g w -> nonneg ds ->
  wstep cache_step (Call (Get key) ds) w = Ok (Some r, w') ->
  r = expected (fst g) key (snd w').
Proof. exact cache_get_c. Qed.
Print Assumptions latest_unexpired_cache.

(* ---- LRU bound: after every call of every history, len(data) <= max_size (and max_size >= 1);
   set_max_size included *)
Theorem lru_bound : forall m t0 its g w, mono its -> lru_reach m t0 its g w ->
  zlen (l_dict (fst w)) <= l_max (fst w) /\ 1 <= l_max (fst w).
Proof. exact lru_bound_l. Qed.
Print Assumptions lru_bound.

(* ---- strict LRU: whatever a put / set_max_size evicts was used less recently (put or
   successful get) than everything it keeps *)
Theorem evicts_lru_first : forall m t0 its g w cl ds r w' gk kept,
  mono its -> lru_reach m t0 its g w -> nonneg ds ->
  wstep lru_step (Call cl ds) w = Ok (Some r, w') ->
  (match cl with Put key _ => gk <> key /\ kept <> key | SetMax _ => True | _ => False end) ->
  has (fst w) gk = true -> has (fst w') gk = false -> has (fst w') kept = true ->
  younger (snd g) kept gk.
Proof. exact lru_evict_l. Qed.
Print Assumptions evicts_lru_first.

(* ---- counters: hits / misses are the numbers of successful / failed lookups since the last
   reset; get_hits_for_key is the number of successful lookups of the stored answer *)
Theorem counters_exact_lru : forall m t0 its g w, mono its -> lru_reach m t0 its g w ->
  (l_hits (fst w), l_miss (fst w)) = stats_of (snd g).
Proof. exact lru_stats_l. Qed.
Print Assumptions counters_exact_lru.

Theorem counters_exact_cache : forall interval t0 ds0 its g w,
  mono its -> Forall cache_item its -> cache_reach interval t0 ds0 its g w ->
  (c_hits (fst w), c_miss (fst w)) = stats_of (snd g).
Proof. exact cache_stats_c. Qed.
Print Assumptions counters_exact_cache.

Theorem node_hits_exact : forall m t0 its g w key ds r w',
  mono its -> lru_reach m t0 its g w -> nonneg ds ->
  wstep lru_step (Call (HitsFor key) ds) w = Ok (Some r, w') ->
  r = expected_hits (fst g) (snd g) key (snd w').
Proof. exact lru_hitsfor_l. Qed.
Print Assumptions node_hits_exact.

(* ---- non-vacuity: a concrete history of LRUCache(2) *)
Definition ex_hist : list item :=
  [Call (Put 1 (mkAns 11 50)) []; Call (Put 2 (mkAns 12 60)) []; Call (Get 1) [3];
   Call (Put 3 (mkAns 13 70)) []; Adv 100; Call (Get 1) [0]].

Example ex_mono : mono ex_hist.
Proof.
  unfold mono, ex_hist.
  repeat (apply Forall_cons;
          [cbn; unfold nonneg; repeat (first [apply Forall_nil | apply Forall_cons; [lia|]]); try lia|]).
  apply Forall_nil.
Qed.

(* after the history: key 2 was evicted by the third put (1 had been looked up more recently),
   key 1 expired and was dropped by the last lookup *)
Example ex_reach : exists g w, lru_reach 2 0 ex_hist g w /\ dkeys (l_dict (fst w)) = [3] /\ snd w = 103.
Proof.
  eexists. eexists. split.
  - eexists. split; vm_compute; reflexivity.
  - vm_compute. split; reflexivity.
Qed.

(* the hypotheses of evicts_lru_first are satisfiable: the put of key 3 evicts 2 and keeps 1 *)
Example ex_evict : exists g w r w',
  lru_reach 2 0 (firstn 3 ex_hist) g w /\
  wstep lru_step (Call (Put 3 (mkAns 13 70)) []) w = Ok (Some r, w') /\
  has (fst w) 2 = true /\ has (fst w') 2 = false /\ has (fst w') 1 = true.
Proof.
  eexists. eexists. eexists. eexists. split.
  - eexists. split; vm_compute; reflexivity.
  - split; [vm_compute; reflexivity|]. vm_compute. repeat split.
Qed.

Example ex_cache : exists g w,
  cache_reach 5 0 [] [Call (Put 1 (mkAns 11 50)) []; Adv 60; Call (Get 1) [0]] g w /\
  c_miss (fst w) = 1.
Proof. eexists. eexists. split; vm_compute; reflexivity. Qed.
