(* C17 - resolver caches never serve stale data, honour the LRU bound, evict strictly LRU,
   count every lookup once, and are linearizable.
   Model: Model/CacheM.v (Cache value-level; LRUCache store-level with the sentinel ring).
   Histories are lists of `item`s: Call c ds (ds = clock increments seen by the reads of the
   call) and Adv d; `mono` = the clock never goes backwards. *)
From DV Require Import Base.Prelude Model.CacheM Model.CacheSpecM.
From DV Require Import Proofs.CacheRing Proofs.CacheDict Proofs.CacheLru Proofs.CacheSpec
  Proofs.CacheThm Proofs.CacheSimple Proofs.CacheBasic Proofs.CacheWalk Proofs.CacheConc Proofs.CacheOrder Proofs.CacheGuard.
From DV Require Model.CacheSkel Model.ResolM Proofs.ResolChain.
From DV Require Import Model.CacheAnsM Proofs.CacheExpiry Proofs.CacheObs.

(* ---- never stale: a lookup returns an answer only if its expiration is strictly later than the
   last clock reading of that lookup (any state, any clock) *)
Theorem never_stale_cache : forall key c k v c' k',
  cache_step (Get key) c k = Ok (RAns v, c', k') -> now k' < a_exp v.
Proof. exact cache_get_fresh. Qed.
Print Assumptions never_stale_cache.

Theorem never_stale_lru : forall key c k v c' k',
  lru_step (Get key) c k = Ok (RAns v, c', k') -> now k' < a_exp v.
Proof. exact lru_get_fresh. Qed.
Print Assumptions never_stale_lru.

(* ---- never stale, from the message: Answer.expiration = clock reading at construction +
   minimum_ttl of QueryMessage.resolve_chaining (Model/ResolM.v, property C16).  The expiration
   of an answer built from response m at reading t is at most t + the TTL of every CNAME RRset
   followed, of the answer RRset, and for a negative answer of the enclosing SOA and its MINIMUM;
   hence a lookup returning it happens strictly inside all those lifetimes. *)
Theorem answer_expiration_from_message : forall m vid t v,
  answer_of_msg m vid t = Ok v ->
  a_id v = vid /\ within_record_lifetimes m t (a_exp v).
Proof. exact answer_expiration_spec. Qed.
Print Assumptions answer_expiration_from_message.

Theorem lru_serves_only_within_record_lifetimes : forall m vid t v key c k c' k',
  answer_of_msg m vid t = Ok v ->
  lru_step (Get key) c k = Ok (RAns v, c', k') ->
  within_record_lifetimes m t (now k' + 1).
Proof. exact lru_serves_within_lifetimes. Qed.
Print Assumptions lru_serves_only_within_record_lifetimes.

Theorem cache_serves_only_within_record_lifetimes : forall m vid t v key c k c' k',
  answer_of_msg m vid t = Ok v ->
  cache_step (Get key) c k = Ok (RAns v, c', k') ->
  within_record_lifetimes m t (now k' + 1).
Proof. exact cache_serves_within_lifetimes. Qed.
Print Assumptions cache_serves_only_within_record_lifetimes.

(* ---- every history of an LRUCache runs without KeyError/AttributeError/fuel exhaustion *)
Theorem lru_total : forall m t0 its, mono its ->
  exists c0 rs w, lru_init m = Ok c0 /\ wrun lru_step its (c0, t0) = Ok (rs, w).
Proof. exact lru_total_l. Qed.
Print Assumptions lru_total.

Theorem cache_total : forall interval t0 ds0 its, mono its -> Forall cache_item its ->
  exists rs w, wrun cache_step its
    (fst (cache_init interval (mkClk t0 ds0)), now (snd (cache_init interval (mkClk t0 ds0)))) = Ok (rs, w).
Proof. exact cache_total_c. Qed.
Print Assumptions cache_total.

(* ---- latest unexpired: a lookup returns exactly the most recently stored answer of the key
   that was neither flushed nor evicted (the ideal map `fst g`), unless it has expired *)
Theorem latest_unexpired_lru : forall m t0 its g w key ds r w',
  mono its -> lru_reach m t0 its g w -> nonneg ds ->
  wstep lru_step (Call (Get key) ds) w = Ok (Some r, w') ->
  r = expected (fst g) key (snd w').
Proof. exact lru_get_l. Qed.
Print Assumptions latest_unexpired_lru.

Theorem latest_unexpired_cache : forall interval t0 ds0 its g w key ds r w',
  mono its -> Forall cache_item its -> cache_reach interval t0 ds0 its g w -> nonneg ds ->
  wstep cache_step (Call (Get key) ds) w = Ok (Some r, w') ->
  r = expected (fst g) key (snd w').
Proof. exact cache_get_c. Qed.
Print Assumptions latest_unexpired_cache.

(* ---- nothing is lost early: an answer that was stored, not flushed, not evicted and has not
   expired yet is still held (LRU: on a node carrying exactly it; Cache: cleaning drops expired
   entries only) *)
Theorem lru_holds_every_live_answer : forall m t0 its g w key v, mono its -> lru_reach m t0 its g w ->
  fst g key = Some v -> snd w < a_exp v ->
  exists i nd, dget (l_dict (fst w)) key = Some i /\ sget (l_store (fst w)) i = Some nd /\
               n_key nd = Some key /\ n_val nd = Some v.
Proof. exact lru_live_present_l. Qed.
Print Assumptions lru_holds_every_live_answer.

Theorem cache_holds_every_live_answer : forall interval t0 ds0 its g w key v,
  mono its -> Forall cache_item its -> cache_reach interval t0 ds0 its g w ->
  fst g key = Some v -> snd w < a_exp v -> dget (c_data (fst w)) key = Some v.
Proof. exact cache_live_present_c. Qed.
Print Assumptions cache_holds_every_live_answer.

(* ---- what "not flushed or evicted" rests on: a key leaves the dict only by flush, by a lookup
   of that very key (which then found it expired and returned None), or during put/set_max_size;
   it enters only by put *)
Theorem key_set_changes : forall m t0 its g w cl ds r w' x,
  mono its -> lru_reach m t0 its g w -> nonneg ds ->
  wstep lru_step (Call cl ds) w = Ok (Some r, w') ->
  keyset_rule cl (has (fst w)) (has (fst w')) x.
Proof. exact lru_keyset_l. Qed.
Print Assumptions key_set_changes.

(* ---- LRU bound: after every call of every history, len(data) <= max_size (and max_size >= 1);
   set_max_size included *)
Theorem lru_bound : forall m t0 its g w, mono its -> lru_reach m t0 its g w ->
  zlen (l_dict (fst w)) <= l_max (fst w) /\ 1 <= l_max (fst w).
Proof. exact lru_bound_l. Qed.
Print Assumptions lru_bound.

(* ---- strict LRU: whatever a put / set_max_size evicts was used less recently (put or
   successful get) than everything it keeps *)
Theorem evicts_lru_first : forall m t0 its g w cl ds r w' gk kept,
  mono its -> lru_reach m t0 its g w -> nonneg ds ->
  wstep lru_step (Call cl ds) w = Ok (Some r, w') ->
  (match cl with Put key _ => gk <> key /\ kept <> key | SetMax _ => True | _ => False end) ->
  has (fst w) gk = true -> has (fst w') gk = false -> has (fst w') kept = true ->
  younger (snd g) kept gk.
Proof. exact lru_evict_l. Qed.
Print Assumptions evicts_lru_first.

(* ---- put evicts only when the limit forces it: afterwards the cache holds the new entry and as
   many of the other entries as fit *)
Theorem put_evicts_only_when_full : forall m t0 its g w key v ds r w',
  mono its -> lru_reach m t0 its g w -> nonneg ds ->
  wstep lru_step (Call (Put key v) ds) w = Ok (Some r, w') ->
  zlen (l_dict (fst w')) =
  Z.min (l_max (fst w)) (zlen (l_dict (fst w)) - (if has (fst w) key then 1 else 0) + 1).
Proof. exact lru_put_size_l. Qed.
Print Assumptions put_evicts_only_when_full.

(* ---- counters: hits / misses are the numbers of successful / failed lookups since the last
   reset; get_hits_for_key is the number of successful lookups of the stored answer *)
Theorem counters_exact_lru : forall m t0 its g w, mono its -> lru_reach m t0 its g w ->
  (l_hits (fst w), l_miss (fst w)) = stats_of (snd g).
Proof. exact lru_stats_l. Qed.
Print Assumptions counters_exact_lru.

Theorem counters_exact_cache : forall interval t0 ds0 its g w,
  mono its -> Forall cache_item its -> cache_reach interval t0 ds0 its g w ->
  (c_hits (fst w), c_miss (fst w)) = stats_of (snd g).
Proof. exact cache_stats_c. Qed.
Print Assumptions counters_exact_cache.

Theorem node_hits_exact : forall m t0 its g w key ds r w',
  mono its -> lru_reach m t0 its g w -> nonneg ds ->
  wstep lru_step (Call (HitsFor key) ds) w = Ok (Some r, w') ->
  r = expected_hits (fst g) (snd g) key (snd w').
Proof. exact lru_hitsfor_l. Qed.
Print Assumptions node_hits_exact.

(* ---- the shrink case of set_max_size: the new limit is max(1, m) and holds at once *)
Theorem set_max_size_bound : forall m t0 its g w mx ds r w',
  mono its -> lru_reach m t0 its g w -> nonneg ds ->
  wstep lru_step (Call (SetMax mx) ds) w = Ok (Some r, w') ->
  l_max (fst w') = Z.max 1 mx /\ zlen (l_dict (fst w')) <= Z.max 1 mx.
Proof. exact lru_setmax_l. Qed.
Print Assumptions set_max_size_bound.

(* ---- the sentinel ring: in every reachable state walking .next from the sentinel yields a
   duplicate-free list ids, walking .prev yields its reverse, prev (next n) = n for every ring
   node, the dict has one entry per ring node and maps each key to the ring node carrying it *)
Theorem ring_invariant : forall m t0 its g w, mono its -> lru_reach m t0 its g w ->
  exists ids,
    ring_ids (l_store (fst w)) true = Some ids /\
    ring_ids (l_store (fst w)) false = Some (rev ids) /\
    NoDup (sentinel :: ids) /\
    (forall n, In n (sentinel :: ids) ->
       exists x, nxt (l_store (fst w)) n = Some x /\ prv (l_store (fst w)) x = Some n /\ In x (sentinel :: ids)) /\
    length ids = length (l_dict (fst w)) /\
    (forall key i, dget (l_dict (fst w)) key = Some i ->
       In i ids /\ exists nd, sget (l_store (fst w)) i = Some nd /\ n_key nd = Some key).
Proof. exact ring_invariant_l. Qed.
Print Assumptions ring_invariant.

(* the ring read through the node keys: exactly the cached keys, most recently used first
   (strictly sorted by the age of their last put / successful get in the event history) *)
Theorem ring_sorted_by_last_use : forall m t0 its g w, mono its -> lru_reach m t0 its g w ->
  exists ids keys,
    ring_ids (l_store (fst w)) true = Some ids /\
    Forall2 (fun i k => exists nd, sget (l_store (fst w)) i = Some nd /\ n_key nd = Some k) ids keys /\
    Sorted.StronglySorted (younger (snd g)) keys /\
    (forall k, In k keys <-> has (fst w) k = true).
Proof. exact ring_sorted_l. Qed.
Print Assumptions ring_sorted_by_last_use.

(* ---- refinement: from related states the store-level model and the list-level specification
   make the same step (same result, same clock) and stay related; the ring is the recency list *)
Theorem lru_refines_spec : forall cl c a zs k,
  R c a zs ->
  exists c' zs',
    lru_step cl c k = Ok (fst (fst (alru_step cl a k)), c', snd (alru_step cl a k)) /\
    R c' (snd (fst (alru_step cl a k))) zs'.
Proof. exact sim_step. Qed.
Print Assumptions lru_refines_spec.

Theorem ring_is_recency_list : forall c a zs, R c a zs ->
  ring_ids (l_store c) true = Some (map fst zs) /\
  ring_ids (l_store c) false = Some (rev (map fst zs)).
Proof. exact ring_walks. Qed.
Print Assumptions ring_is_recency_list.

(* ---- concurrency (any object whose method bodies are single critical sections; instantiated
   with lru_step / cache_step).  Threads interleave at invocation, lock acquisition, body,
   release and return, and time passes anywhere. *)
Theorem mutual_exclusion_lru : forall s t0 ls cf t1 t2,
  exec lru_step (init_conf s t0) ls cf ->
  in_cs (cf_ph cf t1) = true -> in_cs (cf_ph cf t2) = true -> t1 = t2.
Proof. exact (mutual_exclusion lru_step). Qed.
Print Assumptions mutual_exclusion_lru.

Theorem linearizable_lru : forall s t0 ls cf,
  exec lru_step (init_conf s t0) ls cf ->
  exists rs,
    wrun lru_step (witness ls) (s, t0) = Ok (rs, (cf_obj cf, cf_now cf)) /\
    forall t, thread_results t (witness_tid ls) rs = responses t ls ++ pending (cf_ph cf t).
Proof. exact (linearizable lru_step). Qed.
Print Assumptions linearizable_lru.

Theorem linearizable_cache : forall s t0 ls cf,
  exec cache_step (init_conf s t0) ls cf ->
  exists rs,
    wrun cache_step (witness ls) (s, t0) = Ok (rs, (cf_obj cf, cf_now cf)) /\
    forall t, thread_results t (witness_tid ls) rs = responses t ls ++ pending (cf_ph cf t).
Proof. exact (linearizable cache_step). Qed.
Print Assumptions linearizable_cache.

(* the witness order (order in which the bodies ran) is the lock-acquisition order *)
Theorem witness_is_lock_acquisition_order : forall s t0 ls cf,
  exec lru_step (init_conf s t0) ls cf -> acq_tids ls = body_tids ls ++ holding cf.
Proof. exact (witness_in_acquisition_order lru_step). Qed.
Print Assumptions witness_is_lock_acquisition_order.

(* each call of a thread is Inv, Acq, Body, Rel, Res in this order for the same method, and the
   calls of one thread do not overlap: the body - the call's place in the sequential witness -
   lies between invocation and response, so the witness respects real-time precedence *)
Theorem linearization_point_inside_call : forall s t0 ls cf t,
  exec lru_step (init_conf s t0) ls cf -> trun t TIdle ls = Some (abs_phase (cf_ph cf t)).
Proof. exact (thread_protocol lru_step). Qed.
Print Assumptions linearization_point_inside_call.

(* real-time order, positionally: when a call returns, the same call was invoked earlier, its
   body ran in between and the thread did nothing else in between *)
Theorem body_between_invocation_and_response : forall s t0 ls cf pre t c r post,
  exec lru_step (init_conf s t0) ls cf -> ls = pre ++ LRes t c r :: post ->
  exists p1 p2 p3 ds,
    pre = p1 ++ LInv t c :: p2 ++ LBody t c ds :: p3 /\
    (forall x, In x p2 -> ~ call_event t x) /\ (forall x, In x p3 -> ~ call_event t x).
Proof. exact (body_within_call lru_step). Qed.
Print Assumptions body_between_invocation_and_response.

(* ---- the critical-section premise, explicit.  `atomic c` = the method behind c is one
   `with self.lock:` block; a method that is not runs unprotected (reads the object, writes back
   later).  If every method is atomic, every execution of that larger LTS is one of the LTS above
   and is linearizable.  The table `atomic` of dns/resolver.py is regenerated from the source on
   every run together with guard_ok_* (all entries true) and linearizable_*_source (this theorem
   instantiated with it): removing a lock breaks those obligations by name. *)
Theorem linearizable_if_methods_atomic : forall (atomic : call -> bool),
  (forall c, atomic c = true) ->
  forall s t0 ls g,
  gexec lru_step atomic (ginit s t0) ls g ->
  exists ls' rs,
    ls = map GL ls' /\
    exec lru_step (init_conf s t0) ls' (fst g) /\
    wrun lru_step (witness ls') (s, t0) = Ok (rs, (cf_obj (fst g), cf_now (fst g))) /\
    forall t, thread_results t (witness_tid ls') rs = responses t ls' ++ pending (cf_ph (fst g) t).
Proof. exact (guarded_linearizable lru_step). Qed.
Print Assumptions linearizable_if_methods_atomic.

(* and the premise is needed: with an unprotected put two threads lose an update, which no
   sequential order of the two calls produces *)
Theorem unprotected_put_is_not_linearizable :
  exists g,
    gexec cache_step put_unprotected (ginit cache0 0) lost_update_run g /\
    dkeys (c_data (cf_obj (fst g))) = [2] /\
    (forall its, its = [Call (Put 1 (mkAns 1 100)) []; Call (Put 2 (mkAns 2 100)) []] \/
                 its = [Call (Put 2 (mkAns 2 100)) []; Call (Put 1 (mkAns 1 100)) []] ->
       exists rs w, wrun cache_step its (cache0, 0) = Ok (rs, w) /\ length (c_data (fst w)) = 2%nat).
Proof. exact unlocked_put_loses_update. Qed.
Print Assumptions unprotected_put_is_not_linearizable.

(* every object state that concurrent threads can produce is the state of a sequential history
   (the witness), so every sequential theorem above applies to it verbatim *)
Theorem concurrent_states_are_sequential_states : forall m t0 c0 ls cf,
  lru_init m = Ok c0 -> exec lru_step (init_conf c0 t0) ls cf ->
  exists g, lru_reach m t0 (witness ls) g (cf_obj cf, cf_now cf) /\ mono (witness ls).
Proof. exact conc_lru_reach. Qed.
Print Assumptions concurrent_states_are_sequential_states.

(* in particular a lookup executed by any thread at any point of any interleaving returns the
   most recently stored, not flushed, not evicted, unexpired answer - of the witness history *)
Theorem conc_latest_unexpired : forall m t0 c0 ls cf t key ds cf',
  lru_init m = Ok c0 -> exec lru_step (init_conf c0 t0) ls cf ->
  cstep lru_step cf (LBody t (Get key) ds) cf' ->
  exists g r, lru_reach m t0 (witness ls) g (cf_obj cf, cf_now cf) /\
              cf_ph cf' t = Finished (Get key) r /\
              r = expected (fst g) key (cf_now cf').
Proof. exact conc_lru_get_l. Qed.
Print Assumptions conc_latest_unexpired.

(* consequences for the LRUCache under concurrency: the bound holds in every reachable
   configuration, and no method body can raise *)
Theorem conc_lru_bound : forall m t0 c0 ls cf,
  lru_init m = Ok c0 -> exec lru_step (init_conf c0 t0) ls cf ->
  zlen (l_dict (cf_obj cf)) <= l_max (cf_obj cf).
Proof. exact conc_lru_bound_l. Qed.
Print Assumptions conc_lru_bound.

Theorem conc_lru_progress : forall m t0 c0 ls cf t c ds,
  lru_init m = Ok c0 -> exec lru_step (init_conf c0 t0) ls cf ->
  cf_ph cf t = Holding c -> cf_lock cf = Some t -> nonneg ds ->
  exists cf', cstep lru_step cf (LBody t c ds) cf'.
Proof. exact conc_lru_progress_l. Qed.
Print Assumptions conc_lru_progress.

(* ---- the runs the harness observes are the runs the theorems quantify over: every harness
   operation (a call, time passing, "build an Answer now and put it") is one or two items with the
   same result, world and ghost state, monotone if its increments are *)
Theorem observed_step_is_item_run : forall (h : hop) (w : lru * Z) g r w' g',
  hstep_g lru_step lru_gupd h w g = Ok (r, w', g') ->
  exists its, items_of_hop h w = Ok its /\ lru_grun its w g = Ok (g', w') /\
              hstep lru_step h w = Ok (r, w').
Proof. exact (hstep_g_items lru_step lru_gupd). Qed.
Print Assumptions observed_step_is_item_run.

Theorem observed_step_items_monotone : forall (h : hop) (w : lru * Z) its,
  mono_hop h -> items_of_hop h w = Ok its -> mono its.
Proof. exact (@items_of_hop_mono lru). Qed.
Print Assumptions observed_step_items_monotone.

(* ---- non-vacuity: a concrete history of LRUCache(2) *)
Definition ex_hist : list item :=
  [Call (Put 1 (mkAns 11 50)) []; Call (Put 2 (mkAns 12 60)) []; Call (Get 1) [3];
   Call (Put 3 (mkAns 13 70)) []; Adv 100; Call (Get 1) [0]].

Example ex_mono : mono ex_hist.
Proof.
  unfold mono, ex_hist.
  repeat (apply Forall_cons;
          [cbn; unfold nonneg; repeat (first [apply Forall_nil | apply Forall_cons; [lia|]]); try lia|]).
  apply Forall_nil.
Qed.

(* after the history: key 2 was evicted by the third put (1 had been looked up more recently),
   key 1 expired and was dropped by the last lookup *)
Example ex_reach : exists g w, lru_reach 2 0 ex_hist g w /\ dkeys (l_dict (fst w)) = [3] /\ snd w = 103.
Proof.
  eexists. eexists. split.
  - eexists. split; vm_compute; reflexivity.
  - vm_compute. split; reflexivity.
Qed.

(* the hypotheses of evicts_lru_first are satisfiable: the put of key 3 evicts 2 and keeps 1 *)
Example ex_evict : exists g w r w',
  lru_reach 2 0 (firstn 3 ex_hist) g w /\
  wstep lru_step (Call (Put 3 (mkAns 13 70)) []) w = Ok (Some r, w') /\
  has (fst w) 2 = true /\ has (fst w') 2 = false /\ has (fst w') 1 = true.
Proof.
  eexists. eexists. eexists. eexists. split.
  - eexists. split; vm_compute; reflexivity.
  - split; [vm_compute; reflexivity|]. vm_compute. repeat split.
Qed.

Example ex_cache : exists g w,
  cache_reach 5 0 [] [Call (Put 1 (mkAns 11 50)) []; Adv 60; Call (Get 1) [0]] g w /\
  c_miss (fst w) = 1.
Proof. eexists. eexists. split; vm_compute; reflexivity. Qed.

(* an executable scheduler is sound for `exec`: concrete interleavings exist *)
Theorem exec_fun_is_exec : forall ls cf ls' cf',
  exec_fun lru_step ls cf = Some (ls', cf') -> exec lru_step cf ls' cf'.
Proof. exact (exec_fun_sound lru_step). Qed.
Print Assumptions exec_fun_is_exec.

(* two threads: thread 1 gets the lock first although thread 0 invoked first; the sequential
   witness is  time+2 ; get(1) ; put(1) *)
Definition ex_sched : list label :=
  [LInv 0 (Put 1 (mkAns 11 50)); LInv 1 (Get 1); LAcq 1; LEnv 2; LBody 1 (Get 1) [1]; LRel 1;
   LAcq 0; LBody 0 (Put 1 (mkAns 11 50)) []; LRes 1 (Get 1) RNone; LRel 0].

Example ex_conc :
  match lru_init 2 with
  | Ok c0 =>
      match exec_fun lru_step ex_sched (init_conf c0 0) with
      | Some (ls, cf) =>
          cf_now cf = 2 /\ dkeys (l_dict (cf_obj cf)) = [1] /\ responses 1 ls = [RNone] /\
          witness ls = [Adv 2; Call (Get 1) [1]; Call (Put 1 (mkAns 11 50)) []]
      | None => False
      end
  | _ => False
  end.
Proof. vm_compute. repeat split. Qed.

(* the code before the fix (set_max_size only stored the limit): the bound failed *)
Definition old_set_max (st : lru) (m : Z) : lru :=
  mkLru (l_store st) (l_dict st) (if m <? 1 then 1 else m) (l_hits st) (l_miss st) (l_fresh st).

Example old_set_max_size_broke_the_bound :
  match wrun lru_step [Call (Put 1 (mkAns 1 50)) []; Call (Put 2 (mkAns 2 50)) []; Call (Put 3 (mkAns 3 50)) []]
             (mkLru [(sentinel, mkNode None None 0 sentinel sentinel)] [] 3 0 0 1%nat, 0) with
  | Ok (_, (c, _)) => zlen (l_dict (old_set_max c 1)) = 3 /\ l_max (old_set_max c 1) = 1
  | _ => False
  end.
Proof. vm_compute. split; reflexivity. Qed.

(* a response with a CNAME (TTL 30) to an A RRset (TTL 20): the answer built at reading 1000
   expires at 1020 *)
Definition ex_msg : ResolM.msg :=
  {| ResolM.m_qr := true; ResolM.m_rcode := 0;
     ResolM.m_question := [ {| ResolM.q_name := [[107;49]; []]; ResolM.q_class := 1; ResolM.q_type := 1 |} ];
     ResolM.m_answer :=
       [ {| ResolM.rs_name := [[107;49]; []]; ResolM.rs_class := 1; ResolM.rs_type := 5; ResolM.rs_ttl := 30;
            ResolM.rs_data := [ResolM.DName [[99;48]; []]] |};
         {| ResolM.rs_name := [[99;48]; []]; ResolM.rs_class := 1; ResolM.rs_type := 1; ResolM.rs_ttl := 20;
            ResolM.rs_data := [ResolM.DOther 7] |} ];
     ResolM.m_authority := [] |}.

Example ex_answer_of_msg : answer_of_msg ex_msg 5 1000 = Ok (mkAns 5 1020).
Proof. vm_compute. reflexivity. Qed.
