From DV Require Import Base.Prelude Model.CacheM Proofs.CacheBasic.
Theorem never_stale_cache : forall key c k v c' k',
  cache_step (Get key) c k = Ok (RAns v, c', k') -> now k' < a_exp v.
Proof. exact cache_get_fresh. Qed.
Print Assumptions never_stale_cache.
