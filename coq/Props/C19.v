(* C19 - The copy-on-write B-tree is a correct sorted map with isolated clones.
   Statements only; proofs are in Proofs/BTree*.v, the model in Model/BTreeM.v. *)
From DV Require Import Base.Prelude Model.BTreeM Proofs.BTreeBase Proofs.BTreeWf Proofs.BTreeInsert
  Proofs.BTreeLookup Proofs.BTreeDelete Proofs.BTreeTop
  Model.BTreeStoreM Proofs.BTreeStore Proofs.BTreeIsolation Proofs.BTreeCursor Proofs.BTreeHistory
  Proofs.BTreeRefine Proofs.BTreeRefine5 Proofs.BTreeRefine6 Proofs.BTreeRefine7 Proofs.BTreeRefine8 Proofs.BTreeRefine9 Proofs.BTreeHeight.

(* _Node.search_in_node (shortcut + binary search) on a key-sorted node = linear search *)
Theorem search_spec : forall k es, ksorted es -> search k es = Ok (lsearch k es).
Proof. exact search_lsearch. Qed.
Print Assumptions search_spec.

(* the executable check applied to the implementation's node structure is the invariant *)
Theorem wf_b_reflects : forall t n, wf_b t n = true <-> wf t n.
Proof. exact wf_b_iff. Qed.
Print Assumptions wf_b_reflects.

(* every insertion / replacement (root split, pre-emptive child split, in-order optimisation on
   or off) succeeds - no IndexError, no failed assert, recursion budget sufficient - and keeps
   occupancy t-1..2t-1 (root exempt), uniform leaf depth and key order *)
Theorem insert_wf : forall t io root e,
  wf t root -> exists root' o, insert_tree t io root e = Ok (root', o) /\ wf t root'.
Proof. exact insert_wf_proof. Qed.
Print Assumptions insert_wf.

Theorem insert_elements : forall t io root e,
  wf t root ->
  exists root', insert_tree t io root e = Ok (root', find_sorted (fst e) (elements root)) /\
                elements root' = ins_sorted e (elements root).
Proof. exact insert_elements_proof. Qed.
Print Assumptions insert_elements.

Theorem lookup_spec : forall t root k,
  wf t root -> get (depth root) root k = Ok (find_sorted k (elements root)).
Proof. exact lookup_spec_proof. Qed.
Print Assumptions lookup_spec.

(* _Node.minimum / maximum of the root: first / last element of the traversal, IndexError on the
   empty tree *)
Theorem minimum_spec : forall t root, wf t root ->
  minimum root = match elements root with e :: _ => Ok e | [] => Internal eIndex end.
Proof. exact minimum_root. Qed.
Print Assumptions minimum_spec.

Theorem maximum_spec : forall t root, wf t root ->
  maximum root = match rev (elements root) with e :: _ => Ok e | [] => Internal eIndex end.
Proof. exact maximum_root. Qed.
Print Assumptions maximum_spec.

(* BTree.insert_element: size bookkeeping, result, content *)
Theorem size_spec_insert : forall b e io,
  bwf b -> b_immut b = false ->
  exists b', insert_element b e io = Ok (b', find_sorted (fst e) (elements (b_root b))) /\ bwf b' /\
             elements (b_root b') = ins_sorted e (elements (b_root b)) /\ b_immut b' = false /\ b_t b' = b_t b.
Proof. exact insert_element_spec_proof. Qed.
Print Assumptions size_spec_insert.

(* every deletion (delete_key: exact = None; delete_exact: exact = Some id), present or absent
   key: balance with steal-left / steal-right / merge, successor replacement while rebalancing
   moves the target, root collapse - succeeds without IndexError / assert failure and keeps
   the invariant *)
Theorem delete_wf : forall t root key exact,
  wf t root -> exists root' o, delete_tree t root key exact = Ok (root', o) /\ wf t root'.
Proof. exact delete_wf_proof. Qed.
Print Assumptions delete_wf.

(* the outcome is the reference dictionary's (deleted element / None / the two ValueErrors of
   delete_exact) and the traversal loses exactly the key (nothing on None / ValueError) *)
Theorem delete_elements : forall t root key exact,
  wf t root ->
  let o := dspec exact (find_sorted key (elements root)) in
  exists root', delete_tree t root key exact = Ok (root', o) /\
                elements root' = after_del key o (elements root).
Proof. exact delete_elements_proof. Qed.
Print Assumptions delete_elements.

Theorem size_spec_delete : forall b key exact,
  bwf b -> b_immut b = false ->
  let o := dspec exact (find_sorted key (elements (b_root b))) in
  exists b', delete_btree b key exact = Ok (b', o) /\ bwf b' /\
             elements (b_root b') = after_del key o (elements (b_root b)) /\ b_immut b' = false /\ b_t b' = b_t b.
Proof. exact delete_btree_spec_proof. Qed.
Print Assumptions size_spec_delete.

(* the defect repaired in /repo 68e82b5, kept as a machine-checked witness: with the root
   collapse only after successful deletes (`delete_tree_before_fix`), three deletes of absent keys
   on the well-formed 17-key tree leave a root without keys over a minimal child, and the next
   delete of a key that is present ends in IndexError - so delete_wf fails for that code *)
Theorem delete_before_fix_refuted :
  wf 3 all_minimal_17 /\
  exists r1 r2 r3,
    delete_tree_before_fix 3 all_minimal_17 1 None = Ok (r1, DNone) /\
    delete_tree_before_fix 3 r1 91 None = Ok (r2, DNone) /\
    delete_tree_before_fix 3 r2 151 None = Ok (r3, DNone) /\
    find_sorted 0 (elements r3) = Some (0, 0) /\
    delete_tree_before_fix 3 r3 0 None = Internal eIndex.
Proof. exact delete_before_fix_refuted_proof. Qed.
Print Assumptions delete_before_fix_refuted.

Theorem frozen_rejects : forall b e io k exact,
  b_immut b = true ->
  insert_element b e io = Lib eImmutable /\ delete_btree b k exact = Lib eImmutable.
Proof. exact frozen_rejects_proof. Qed.
Print Assumptions frozen_rejects.

(* Cursors.  `anchor_of c` is the position a reference sorted dictionary would keep for the
   cursor (left / right boundary, just before / just after a key, read off the parking key and
   the direction flags); `pos_ok a l bef aft` says that (bef, aft) is the split of the sorted
   element list l at that anchor (unique: cursor_position_unique).  `cinv` is the representation
   invariant of the concrete cursor (node, index, parents stack, recurse / increasing flags).
   next() returns the first element behind the anchor and moves the anchor just after it (or to
   the right boundary), prev() symmetrically, seek() sets the anchor; parking - which is what every
   mutation of the tree does to its registered cursors - keeps the anchor and makes the cursor
   valid for WHATEVER tree results, so a cursor kept open across mutations resumes at its key. *)
Theorem cursor_spec_seek : forall t root key before,
  wf t root ->
  exists c', cursor_seek root key before = Ok c' /\ cinv t root c' /\ c_parked c' = false /\
             anchor_of c' = if before then AB key else AA key.
Proof. exact cursor_seek_proof. Qed.
Print Assumptions cursor_spec_seek.

Theorem cursor_spec_next : forall t root c,
  wf t root -> cinv t root c ->
  exists bef aft c',
    pos_ok (anchor_of c) (elements root) bef aft /\
    cursor_next root c = Ok (c', hd_error aft) /\
    cinv t root c' /\ c_parked c' = false /\
    anchor_of c' = match aft with x :: _ => AA (fst x) | [] => AR end.
Proof. exact cursor_next_proof. Qed.
Print Assumptions cursor_spec_next.

Theorem cursor_spec_prev : forall t root c,
  wf t root -> cinv t root c ->
  exists bef aft c',
    pos_ok (anchor_of c) (elements root) bef aft /\
    cursor_prev root c = Ok (c', hd_error (rev bef)) /\
    cinv t root c' /\ c_parked c' = false /\
    anchor_of c' = match rev bef with x :: _ => AB (fst x) | [] => AL end.
Proof. exact cursor_prev_proof. Qed.
Print Assumptions cursor_spec_prev.

Theorem cursor_spec_park : forall t root c,
  cinv t root c -> anchor_of (cursor_park c) = anchor_of c /\ forall root', cinv t root' (cursor_park c).
Proof. exact cursor_park_proof. Qed.
Print Assumptions cursor_spec_park.

Theorem cursor_spec_boundaries : forall t root c,
  cinv t root (cursor_seek_first c) /\ anchor_of (cursor_seek_first c) = AL /\
  cinv t root (cursor_seek_last c) /\ anchor_of (cursor_seek_last c) = AR /\
  cinv t root new_cursor /\ anchor_of new_cursor = AL.
Proof. exact cursor_boundary_proof. Qed.
Print Assumptions cursor_spec_boundaries.

Theorem cursor_position_unique : forall a l bef aft bef' aft',
  ksorted l -> pos_ok a l bef aft -> pos_ok a l bef' aft' -> bef = bef' /\ aft = aft'.
Proof. exact pos_ok_unique. Qed.
Print Assumptions cursor_position_unique.

(* Whole histories.  `enc` is the operation syntax the harness sends, `steps` the fold of the
   model over a history (BTreeM.step: trees, clones, frozen trees, registered cursors parked by
   every mutation), `rsteps` the same history answered by the reference world: one sorted
   association list per tree (ins_sorted / del_sorted / find_sorted / length) and one anchor per
   cursor.  For EVERY history - any keys, any t >= 3, in_order on or off, freeze / clone points
   anywhere, any number of live cursors - the two answer every step identically: element
   returned by insert / delete_key / delete_exact (incl. its ValueErrors), lookups, len, in-order
   items, __iter__, KeyError of the mapping API, set membership, Immutable on frozen trees,
   cursor next / prev results before and after arbitrary mutations, iterators advanced between
   mutations, minimum / maximum, and the collections.abc mixins pop / popitem / clear / setdefault /
   update (MutableMapping) and remove / pop / clear (MutableSet) incl. their KeyError-before-
   Immutable order on frozen trees (36 operations). *)
Theorem history_refines : forall xs, steps (mkW [] []) (map enc xs) = rsteps (mkRW [] []) xs.
Proof. exact history_refines_proof. Qed.
Print Assumptions history_refines.

(* ... and in every reachable world all trees are well-formed (occupancy, uniform leaf depth,
   order) with size = number of elements, and every cursor is representable *)
Theorem history_wf : forall xs,
  let w := wsteps (mkW [] []) (map enc xs) in
  Forall bwf (w_trees w) /\
  Forall (fun tc => exists b, nth_error (w_trees w) (fst tc) = Some b /\ cinv (b_t b) (b_root b) (snd tc)) (w_cursors w).
Proof. exact history_wf_proof. Qed.
Print Assumptions history_wf.

(* The height of a well-formed tree with an internal root is logarithmic in the number n of
   elements: 2 * t^(depth-1) <= n + 1.  Every operation of the model descends with fuel = depth, so
   this bounds every root-to-leaf path (search, insert, delete, cursor seek). *)
Theorem height_bound : forall t, (3 <= t)%nat -> forall root,
  wf t root -> n_leaf root = false ->
  (2 * t ^ (depth root - 1) <= S (length (elements root)))%nat.
Proof. exact height_bound_proof. Qed.
Print Assumptions height_bound.

(* The store-level model (nodes with ids and creator tags, in-place writes, maybe_cow /
   maybe_cow_child / clone allocate - Model/BTreeStoreM.v, the model the harness runs) refines the
   value-level model: after ANY history `xs` of store operations (new trees, inserts, deletes,
   freezes, clones and the collections.abc mixins pop / popitem / clear / setdefault), executed
   on the store (`execs`) and on value-level trees (`vexecs`: BTreeM.insert_element /
   delete_btree / get / minimum), every tree of the store world has the parameters of, and reads
   back (`abs`, from its root pointer) exactly as, its value-level tree, which is well-formed. *)
Theorem store_refines : forall xs, represents (execs (mkSW [] []) xs) (vexecs [] xs).
Proof. exact store_represents_proof. Qed.
Print Assumptions store_refines.

(* Copy-on-write isolation, full statement.  After any history, one more operation `x`:
   - before and after, the store world represents the value-level trees, and the operation's
     effect on them and its result are those of the value-level operation (`vexec`: only the
     target tree changes, by insert_element / delete_btree);
   - the result is never an internal model error: the one ghost check the store model's delete
     carries (the child found again after rebalancing is written without maybe_cow_child; the
     model stops with eForeign = 997 if it is not owned) never fires, because the re-search
     lands on the child that grew, which balance has copied (Proofs/BTreeRefine3.v);
   - every OTHER tree of the world - originals and clones alike - keeps its root pointer and
     reads back from the store exactly as before, at every depth. *)
Theorem cow_isolated : forall xs x w' o,
  let w := execs (mkSW [] []) xs in
  let ts := vexecs [] xs in
  exec w x = (w', o) ->
  represents w ts /\
  represents w' (fst (vexec ts x)) /\
  o = snd (vexec ts x) /\
  (forall e, o = Prelude.E e -> In e [eImmutable; eKey; eMismatch; eNoMatch; eNotImmutable; eBadT; eBadCase]) /\
  forall k bk, target x <> Some k -> nth_error (sw_trees w) k = Some bk ->
    nth_error (sw_trees w') k = Some bk /\
    forall fuel, abs fuel (sw_store w') (sb_root bk) = abs fuel (sw_store w) (sb_root bk).
Proof. exact cow_isolated_full. Qed.
Print Assumptions cow_isolated.

(* The write set of an operation, on the store.  `ext c s s'` unfolded: the store only grows, no
   node ever changes its creator tag, and every node NOT tagged c is exactly as before.  After any
   history, an operation on tree i satisfies it with c = i (it writes in place only nodes it created
   itself - everything else is copied first); new-tree and clone only allocate. *)
Theorem writes_own_nodes_only : forall xs x w' o,
  let w := execs (mkSW [] []) xs in
  exec w x = (w', o) ->
  let c := match target x with Some i => i | None => length (sw_trees w) end in
  (length (sw_store w) <= length (sw_store w'))%nat /\
  forall id n, nth_error (sw_store w) id = Some n ->
    (s_cr n <> c -> nth_error (sw_store w') id = Some n) /\
    exists n', nth_error (sw_store w') id = Some n' /\ s_cr n' = s_cr n.
Proof. exact writes_own_nodes_only_proof. Qed.
Print Assumptions writes_own_nodes_only.

(* Isolation node by node: after any history, one more operation leaves every NODE that any other
   tree reaches (its footprint `fp`: the tree is represented on exactly these ids before and after)
   literally untouched in the store - same id, creator, keys and children.  This is what keeps
   cursors and iterators held on those other trees valid: they reference nodes and are NOT parked
   when a different tree (a clone, or the frozen original of a clone) is mutated. *)
Theorem cow_nodes_untouched : forall xs x w' o k bk,
  let w := execs (mkSW [] []) xs in
  exec w x = (w', o) -> target x <> Some k -> nth_error (sw_trees w) k = Some bk ->
  exists fp tr, rep (sw_store w) (sb_root bk) tr fp /\ rep (sw_store w') (sb_root bk) tr fp /\
    forall y, In y fp -> nth_error (sw_store w') y = nth_error (sw_store w) y.
Proof. exact cow_nodes_untouched_proof. Qed.
Print Assumptions cow_nodes_untouched.

(* The sharing discipline behind it: in every reachable world, every node a tree k reaches was
   created by k itself or by an OLDER tree that is frozen - a mutable tree never shares the nodes it
   owns (and may write in place) with any other tree. *)
Theorem sharing_discipline : forall xs k bk,
  let w := execs (mkSW [] []) xs in
  nth_error (sw_trees w) k = Some bk ->
  exists fp tr, rep (sw_store w) (sb_root bk) tr fp /\
    forall y, In y fp -> exists n, nth_error (sw_store w) y = Some n /\
      (s_cr n = k \/ ((s_cr n < k)%nat /\ exists bo, nth_error (sw_trees w) (s_cr n) = Some bo /\ sb_immut bo = true)).
Proof. exact sharing_discipline_proof. Qed.
Print Assumptions sharing_discipline.

(* ... and the value-level operation of `cow_isolated` changes nothing but its target tree *)
Theorem vexec_other : forall ts x k,
  target x <> Some k -> (k < length ts)%nat -> nth_error (fst (vexec ts x)) k = nth_error ts k.
Proof. exact vexec_other_proof. Qed.
Print Assumptions vexec_other.

Theorem ghost_check_never_fires : forall xs x,
  snd (exec (execs (mkSW [] []) xs) x) <> Prelude.E eForeign.
Proof. exact BTreeRefine5.ghost_check_never_fires. Qed.
Print Assumptions ghost_check_never_fires.

(* The model the harness runs (`BTreeStoreM.run`: the value-level world and the store world side
   by side, compared at every store operation and dumped on request) agrees, on every history of
   the 36 operations of `vop`, with the value-level model - it never reports eStoreDiffers - and
   therefore with the sorted-list reference world of `history_refines`. *)
Theorem store_run_agrees : forall xs,
  BTreeStoreM.run (L (I 0 :: map enc xs)) = BTreeM.run (L (I 0 :: map enc xs)).
Proof. exact store_run_proof. Qed.
Print Assumptions store_run_agrees.

Theorem store_run_reference : forall xs,
  BTreeStoreM.run (L (I 0 :: map enc xs)) = L (rsteps (mkRW [] []) xs).
Proof. exact store_run_reference_proof. Qed.
Print Assumptions store_run_reference.

(* The self-check built into the model the harness runs always passes: on every history of
   operations AND dump requests (`HDump`: the step at which the correspondence compares the real
   node structure, serial numbers and creator tags), `BTreeStoreM.run` returns the value-level
   observations (never eStoreDiffers), and every dump carries the store's preorder walk and the
   flag "every tree of the store abstracts to its value-level tree" = true (`expected`). *)
Theorem run_self_check : forall hs,
  BTreeStoreM.run (L (I 0 :: map henc hs)) = L (expected (mkSW [] []) (mkW [] []) hs).
Proof. exact run_self_check_proof. Qed.
Print Assumptions run_self_check.

(* `_visit_preorder_by_node` on the store (`sdump`: the walk whose output the harness compares
   with the real node structure, serial numbers and creator tags): in every reachable world and for
   every tree, the walk from the root reaches pairwise distinct nodes (the structure is a tree: no
   node is shared inside one tree) and sees, node by node, the preorder of the value-level tree. *)
Theorem preorder_walk : forall xs k sb b,
  let sw := execs (mkSW [] []) xs in
  nth_error (sw_trees sw) k = Some sb -> nth_error (vexecs [] xs) k = Some b ->
  let d := sdump (S (length (sw_store sw))) (sw_store sw) (sb_root sb) in
  NoDup (map dump_id d) /\ map dump_node d = preorder (b_root b).
Proof. exact preorder_walk_proof. Qed.
Print Assumptions preorder_walk.

Theorem cow_invariant_reachable : forall xs, WI (execs (mkSW [] []) xs).
Proof. exact WI_reachable. Qed.
Print Assumptions cow_invariant_reachable.

(* non-vacuity: a three-level tree at t = 3 satisfies wf *)
Example wf_inhabited :
  wf 3 (Node false [(8,8)]
          [Node false [(2,2);(5,5)] [Node true [(0,0);(1,1)] []; Node true [(3,3);(4,4)] []; Node true [(6,6);(7,7)] []];
           Node false [(11,11);(14,14)] [Node true [(9,9);(10,10)] []; Node true [(12,12);(13,13)] []; Node true [(15,15);(16,16);(17,17)] []]]).
Proof. apply wf_b_iff. vm_compute. reflexivity. Qed.

Example bwf_inhabited : bwf (mkB 3 (Node true [] []) 0 false false).
Proof. split; [apply wf_b_iff; reflexivity|reflexivity]. Qed.

(* non-vacuity of the isolation statement: freeze tree 0, clone it, insert into the clone; the
   original still abstracts to the tree it had *)
Example cow_isolated_inhabited :
  let xs := [SNew 3 0; SIns 0 1 1 None true; SIns 0 2 2 None true; SFreeze 0; SClone 0 false] in
  let w := execs (mkSW [] []) xs in
  let w' := fst (exec w (SIns 1 3 3 None true)) in
  length (sw_trees w') = 2%nat /\
  abs 3 (sw_store w') 0 = Some (Node true [(1, 1); (2, 2)] []) /\
  abs 3 (sw_store w') 1 = Some (Node true [(1, 1); (2, 2); (3, 3)] []).
Proof. vm_compute. repeat split. Qed.

(* non-vacuity of the refinement statements: a history with a clone that is mutated; the
   value-level side of `store_refines` / `cow_isolated` / `preorder_walk` holds the expected trees *)
Example store_refines_inhabited :
  let xs := [SNew 3 0; SIns 0 1 1 None true; SIns 0 2 2 None true; SFreeze 0; SClone 0 false;
             SDel 1 1 None 0; SSetDefault 1 7 7; SPopFirst 1] in
  map (fun b => (elements (b_root b), b_immut b)) (vexecs [] xs) = [([(1, 1); (2, 2)], true); ([(7, 7)], false)] /\
  length (sw_trees (execs (mkSW [] []) xs)) = 2%nat.
Proof. vm_compute. split; reflexivity. Qed.

(* non-vacuity of the history theorems: a concrete history through model and reference *)
Example history_inhabited :
  let xs := [VNew 3 false; VIns 0 5 1 false; VIns 0 3 2 true; VCur 0; VSeek 0 4 true; VNext 0;
             VDel 0 5; VNext 0; VFreeze 0; VClone 0 false; VIns 1 9 3 false; VIns 0 9 4 false; VItems 0; VItems 1] in
  steps (mkW [] []) (map enc xs) =
  [N; N; N; N; N; L [I 5; I 1]; L [I 5; I 1]; N; N; N; N; Prelude.E eImmutable;
   L [L [I 3; I 2]]; L [L [I 3; I 2]; L [I 9; I 3]]].
Proof. vm_compute. reflexivity. Qed.
