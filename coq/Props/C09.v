(* C09 - zones survive write-then-read as text; equivalent zone-file spellings agree.
   Statements only; proofs are in Proofs/ZoneText*.v.  Model: Model/ZoneTextM.v. *)
From DV Require Import Base.Prelude Model.NameM Model.ZoneTextM.
From DV Require Import Proofs.ZoneTextBase Proofs.ZoneTextInv Proofs.ZoneTextRespell Proofs.ZoneTextLex
  Proofs.ZoneTextAcc Proofs.ZoneTextRecord Proofs.ZoneTextSweep Proofs.ZoneTextRoundtrip Proofs.ZoneTextNames
  Proofs.ZoneTextParens Proofs.ZoneTextRead Proofs.ZoneTextGenerate Proofs.ZoneTextWf
  Proofs.ZoneTextRdata Proofs.ZoneTextStruct Proofs.ZoneTextFuel Proofs.ZoneTextTtl Proofs.ZoneTextRrsets.
From DV Require Import Proofs.NameValid Proofs.NameText.
From Coq Require Import Permutation.
Open Scope Z_scope.

(* WRITE THEN READ.  For every reader configuration c (origin given or taken from $ORIGIN,
   relativized or absolute, any class), every lossless style st (any combination of sorting,
   $ORIGIN, $TTL / default TTL, owner de-duplication, omitted class, left justification of the
   owner and any justification of the other columns, output origin / relativization) and every
   well-formed zone, printing succeeds and reading the printed text gives back exactly the zone
   (names in the order the printer wrote them - `printed_order`, a permutation - and rdatasets,
   records and TTLs unchanged).
   Well-formedness (nodes_wf) is what zones built through the library's API satisfy: distinct
   names inside the origin, non-empty nodes and rdatasets, one rdataset per (type, covers), no
   duplicate records, singleton types hold one record, SOA only at the origin, TTLs and types in
   range, CNAME not mixed with other data; plus, per name and per record, that its own text form
   parses back (owner_ok / rdata_ok: the C01 and C05 round trips, RDATA being a parameter here). *)
Theorem zone_roundtrip : forall (c : cfg) (st : style) (zo : name),
  lossless st ->
  0 <= c_class c <= 65535 ->
  forall nodes nodes' : zone,
  nodes' = printed_order st nodes ->
  (c_origin c = Some zo \/ (c_origin c = None /\ st_want_origin st = true)) ->
  (st_want_origin st = true -> origin_ok zo) ->
  nodes_wf c st zo [] nodes' ->
  (c_check c = true -> check_origin c (Some zo) nodes' = Ok tt) ->
  exists text,
    zone_text st (mkpz (Some zo) (c_rel c) (c_class c) nodes) = Ok text /\
    from_text c text = Ok (match nodes' with [] => c_origin c | _ => Some zo end, nodes').
Proof. exact zone_roundtrip_proof. Qed.
Print Assumptions zone_roundtrip.

(* The per-name premise of zone_roundtrip holds for EVERY valid owner name (all 256 octet values,
   names printed as stored, i.e. the default ZoneStyle/to_text name options) - by C01's text round
   trip and C06's relativize/derelativize laws.  Relativized zone: the stored name is relative and
   name + origin fits in 255 octets; absolute zone: the stored name is inside the origin. *)
Theorem owner_roundtrip_relativized : forall (c : cfg) (st : style) (zo : name),
  Valid zo /\ AllBytes zo /\ is_absolute zo = true -> st_origin st = None ->
  forall n : name,
  c_rel c = true -> Valid n -> AllBytes n -> is_absolute n = false -> Valid (n ++ zo) ->
  owner_ok c st zo n (NameM.to_text n) (n ++ zo).
Proof. exact owner_ok_relativized. Qed.
Print Assumptions owner_roundtrip_relativized.

Theorem owner_roundtrip_absolute : forall (c : cfg) (st : style) (zo : name),
  st_origin st = None ->
  forall n : name,
  c_rel c = false -> Valid n -> AllBytes n -> is_absolute n = true -> is_subdomain n zo = true ->
  owner_ok c st zo n (NameM.to_text n) n.
Proof. exact owner_ok_absolute. Qed.
Print Assumptions owner_roundtrip_absolute.

Theorem origin_roundtrip : forall zo : name,
  Valid zo /\ AllBytes zo /\ is_absolute zo = true -> origin_ok zo.
Proof. exact origin_ok_valid. Qed.
Print Assumptions origin_roundtrip.

(* The per-record premise of zone_roundtrip holds for every record of a modelled field-list type
   (A NS CNAME SOA PTR MX TXT KEY AAAA SRV DNAME NSEC) whose fields are in range: domain names
   valid and stored in normal form (relative = under the origin, absolute = outside it in a
   relativized zone), integers and TTLs in range, IPv4 addresses as inet_aton accepts them,
   character-strings of at most 255 arbitrary octets (the _escapify / unescape_to_bytes round
   trip is proved here), verbatim tokens free of delimiters and backslashes. *)
Theorem rdata_roundtrip_fields : forall (c : cfg) (st : style) (zo : name),
  Valid zo /\ AllBytes zo /\ is_absolute zo = true -> st_origin st = None ->
  forall ty m ks rd,
  tbl_by_code type_table ty = Some (m, ks) -> ty <> tRRSIG ->
  rdata_fits (c_rel c) zo ks rd ->
  rdata_ok c st zo ty rd (rd_toks rd).
Proof. exact rdata_ok_fits_proof. Qed.
Print Assumptions rdata_roundtrip_fields.

(* every character-string survives _escapify followed by the tokenizer's unescape_to_bytes *)
Theorem quoted_string_roundtrip : forall x, Forall is_octet x ->
  tok_unescape (escapify_q x) = Ok x /\ q_clean (escapify_q x) = true.
Proof. exact quoted_string_roundtrip_proof. Qed.
Print Assumptions quoted_string_roundtrip.

(* ... and for RRSIG records (covered type printed as its mnemonic) and for unknown types in the
   RFC 3597 form with non-empty data (lower-case hex). *)
Theorem rdata_roundtrip_rrsig : forall (c : cfg) (st : style) (zo : name),
  Valid zo /\ AllBytes zo /\ is_absolute zo = true -> st_origin st = None ->
  forall cov rest,
  0 <= cov <= 65535 -> rdata_fits (c_rel c) zo rrsig_tail rest ->
  rdata_ok c st zo tRRSIG (VInt cov :: rest) (TId (type_to_text cov) :: rd_toks rest).
Proof. exact rdata_ok_rrsig_proof. Qed.
Print Assumptions rdata_roundtrip_rrsig.

Theorem rdata_roundtrip_generic : forall (c : cfg) (st : style) (zo : name),
  st_origin st = None ->
  forall ty n h,
  tbl_by_code type_table ty = None -> 0 < n -> hex_lower h = true -> zlen h = 2 * n ->
  rdata_ok c st zo ty [VTok [92; 35]; VInt n; VRest [h]] [TId [92; 35]; TId (dec n); TId h].
Proof. exact rdata_ok_generic_proof. Qed.
Print Assumptions rdata_roundtrip_generic.

(* WRITE THEN READ, all hypotheses structural.  For zones over the modelled types (field-list types,
   RRSIG, unknown types in RFC 3597 form) and the default name style (names printed as stored): every zone with pairwise different valid
   owner names stored in the zone's form (relative under the origin / absolute inside it),
   non-empty nodes and rdatasets, one rdataset per type, no duplicate records, singleton types
   holding one record, SOA at the origin only, CNAME not mixed with other data and in-range fields
   (`zone_struct`) is printed and read back unchanged - relativized and absolute zones, every
   lossless style, sorted or not, origin given or taken from $ORIGIN. *)
Theorem zone_roundtrip_fields : forall (c : cfg) (st : style) (zo : name),
  Valid zo /\ AllBytes zo /\ is_absolute zo = true -> st_origin st = None ->
  forall nodes : zone,
  lossless st -> 0 <= c_class c <= 65535 ->
  (c_origin c = Some zo \/ (c_origin c = None /\ st_want_origin st = true)) ->
  zone_struct c zo nodes ->
  (c_check c = true -> check_origin c (Some zo) (printed_order st nodes) = Ok tt) ->
  exists text,
    zone_text st (mkpz (Some zo) (c_rel c) (c_class c) nodes) = Ok text /\
    from_text c text = Ok (match printed_order st nodes with [] => c_origin c | _ => Some zo end,
                           printed_order st nodes).
Proof. exact zone_roundtrip_fields_proof. Qed.
Print Assumptions zone_roundtrip_fields.

(* The well-formedness hypothesis does not depend on the order of the names: `zone_wf` (pairwise
   different names + a condition on each name alone) implies `nodes_wf` for every permutation, in
   particular for the printer's order - so zone_roundtrip applies to a well-formed zone under
   sorted and unsorted styles alike. *)
Theorem wf_any_order : forall c st zo (z z' : zone),
  Permutation z' z -> zone_wf c st zo z -> nodes_wf c st zo [] z'.
Proof. exact nodes_wf_any_order. Qed.
Print Assumptions wf_any_order.

(* the printer's name sort only reorders the names *)
Theorem printed_order_permutation : forall st nodes, Permutation (printed_order st nodes) nodes.
Proof. exact printed_order_perm. Qed.
Print Assumptions printed_order_permutation.

(* the class and type columns the printer writes read back, and are never taken for a TTL or a
   class, for every 16-bit code *)
Theorem type_column_roundtrip : forall ty, 0 <= ty <= 65535 -> type_ok ty.
Proof. exact type_ok_all. Qed.
Print Assumptions type_column_roundtrip.

(* The decimal text of every TTL in range reads back as that TTL. *)
Theorem ttl_text_roundtrip : forall n, 0 <= n <= MAX_TTL -> ttl_from_text (dec n) = Ok n.
Proof. exact ttl_from_text_dec. Qed.
Print Assumptions ttl_text_roundtrip.

(* TTLs written with BIND units, in any letter case ("1w2D3h4m5s"), read as the sum of their parts. *)
Theorem ttl_units_text : forall l,
  l <> [] -> units_ok l -> 0 <= units_value l <= MAX_TTL ->
  ttl_from_text (units_text l) = Ok (units_value l).
Proof. exact ttl_units_text_proof. Qed.
Print Assumptions ttl_units_text.

(* After a successful load no node holds a CNAME (or RRSIG(CNAME)) together with other data -
   for every input text and every reader configuration. *)
Theorem cname_exclusive_after_load : forall c text o z,
  from_text c text = Ok (o, z) -> zone_excl z.
Proof. exact cname_exclusive_after_load_proof. Qed.
Print Assumptions cname_exclusive_after_load.

(* The same for dns.zonefile.read_rrsets: in the list of rrsets it returns, no owner name has a
   CNAME (or RRSIG(CNAME)) rrset together with other data. *)
Theorem cname_exclusive_rrsets : forall c zo text st,
  read_rrsets c zo text = Ok st -> rrs_excl st.
Proof. exact rrsets_cname_exclusive_proof. Qed.
Print Assumptions cname_exclusive_rrsets.

(* Every owner name of the loaded zone is (the relativization of) a name inside the origin. *)
Theorem loaded_names_inside : forall c text o z,
  from_text c text = Ok (o, z) ->
  z = [] \/ exists zo, o = Some zo /\ Forall (in_zone (c_rel c) zo) (map fst z).
Proof. exact loaded_names_inside_proof. Qed.
Print Assumptions loaded_names_inside.

(* A record line whose owner lies outside the origin changes nothing but `last_name`, whatever
   follows the owner on that line ... *)
Theorem outside_origin_ignored : forall c s co zo ov n toks,
  corigin s = Some co -> zorigin s = Some zo ->
  as_name true ov (Some co) false None = Ok n ->
  is_subdomain n zo = false ->
  rr_line c s false (TId ov :: toks) false = Ok (set_last s n).
Proof. exact outside_origin_line_proof. Qed.
Print Assumptions outside_origin_ignored.

(* ... likewise for dns.zonefile.read_rrsets (the list of rrsets is untouched). *)
Theorem outside_origin_ignored_rrsets : forall c zo s ov n toks,
  as_name true ov (Some zo) false None = Ok n ->
  is_subdomain n zo = false ->
  rrs_line c zo s false (TId ov :: toks) false =
  Ok (mkrr (Some n) (rr_lttl s) (rr_lttl_known s) (rr_dttl s) (rr_dttl_known s) (rr_store s)).
Proof. exact rrsets_outside_origin_proof. Qed.
Print Assumptions outside_origin_ignored_rrsets.

(* ... and `last_name` does not influence a following line that spells its owner. *)
Theorem outside_origin_then_explicit_owner : forall c s m toks lerr t,
  rr_line c (set_last s m) false (t :: toks) lerr = rr_line c s false (t :: toks) lerr.
Proof. exact last_name_irrelevant_proof. Qed.
Print Assumptions outside_origin_then_explicit_owner.

(* "<ttl> <class>" and "<class> <ttl>" load alike, with an explicit or an inherited owner. *)
Theorem respell_ttl_class_order : forall c s tv cv t rest lerr,
  ttl_from_text tv = Ok t ->
  class_from_text cv = Some (c_class c) ->
  (forall ov, rr_line c s false (TId ov :: TId tv :: TId cv :: rest) lerr =
              rr_line c s false (TId ov :: TId cv :: TId tv :: rest) lerr) /\
  rr_line c s true (TId tv :: TId cv :: rest) lerr = rr_line c s true (TId cv :: TId tv :: rest) lerr.
Proof. exact respell_ttl_class_order_proof. Qed.
Print Assumptions respell_ttl_class_order.

(* Spelling the owner again and inheriting it (leading white space) load alike. *)
Theorem respell_owner : forall c s co ov n t toks lerr,
  corigin s = Some co ->
  lastname s = Some n ->
  as_name true ov (Some co) false None = Ok n ->
  rr_line c s false (TId ov :: t :: toks) lerr = rr_line c s true (t :: toks) lerr.
Proof. exact respell_owner_proof. Qed.
Print Assumptions respell_owner.

(* $ORIGIN-relative versus absolute names: a record line may spell its owner relative to the
   current origin, absolutely, or (for the origin itself) as "@"; likewise every domain name
   inside RDATA.  For every valid name over all 256 octet values. *)
Theorem respell_origin_relative : forall c s co (n : name) toks lerr,
  corigin s = Some co ->
  Valid n -> AllBytes n -> is_absolute n = false ->
  AllBytes co -> is_absolute co = true -> Valid (n ++ co) ->
  rr_line c s false (TId (NameM.to_text n) :: toks) lerr =
  rr_line c s false (TId (NameM.to_text (n ++ co)) :: toks) lerr.
Proof. exact respell_origin_relative_proof. Qed.
Print Assumptions respell_origin_relative.

Theorem respell_origin_at : forall c s co toks lerr,
  corigin s = Some co -> Valid co -> AllBytes co -> is_absolute co = true ->
  rr_line c s false (TId [64] :: toks) lerr = rr_line c s false (TId (NameM.to_text co) :: toks) lerr.
Proof. exact respell_origin_at_proof. Qed.
Print Assumptions respell_origin_at.

Theorem respell_rdata_name_relative : forall (n co : name) rel zo ks toks,
  Valid n -> AllBytes n -> is_absolute n = false ->
  AllBytes co -> is_absolute co = true -> Valid (n ++ co) ->
  parse_fields (KName :: ks) (TId (NameM.to_text n) :: toks) co rel zo =
  parse_fields (KName :: ks) (TId (NameM.to_text (n ++ co)) :: toks) co rel zo.
Proof. exact respell_rdata_name_relative_proof. Qed.
Print Assumptions respell_rdata_name_relative.

(* Parenthesised multi-line versus single-line records (and any other re-layout of a logical
   line): two layouts with the same tokens - blanks, tabs, parentheses with embedded newlines,
   comments - are read alike, at the level of the character stream, for every reader state and
   whatever follows. *)
Theorem respell_layout : forall c s ps ps' rest f,
  mvalid 0 ps = true -> mvalid 0 ps' = true ->
  mtoks ps = mtoks ps' ->
  starts_ws (mrender ps ++ [10]) = starts_ws (mrender ps' ++ [10]) ->
  read_loop (S f) c s (mrender ps ++ 10 :: rest) = read_loop (S f) c s (mrender ps' ++ 10 :: rest).
Proof. exact respell_layout_proof. Qed.
Print Assumptions respell_layout.

Theorem respell_parens : forall c s ts ps rest f,
  forallb tok_clean ts = true ->
  mvalid 0 ps = true -> mtoks ps = ts ->
  starts_ws (mrender ps ++ [10]) = starts_ws (mrender (single_line ts) ++ [10]) ->
  read_loop (S f) c s (mrender ps ++ 10 :: rest) =
  read_loop (S f) c s (mrender (single_line ts) ++ 10 :: rest).
Proof. exact respell_parens_proof. Qed.
Print Assumptions respell_parens.

(* $GENERATE versus its expansion.  `exp_fold` reads, one record line after the other, the lines
   `<lhs with $ substituted> [ttl] [class] type <tokens of rhs with $ substituted>` for the indices of the
   range; a statement that loads (every generated name inside the origin, type other than SOA)
   leaves exactly the reader state (zone, last name, TTL state) that these lines leave. *)
Theorem respell_generate : forall c s co zo t0 lhs ttlo clso tyt rhs start stop step ttl ty lm rm s',
  corigin s = Some co -> zorigin s = Some zo -> is_absolute co = true ->
  grange_from_text (tokval t0) = Ok (start, stop, step) ->
  ttl_given s ttlo ttl ->
  (forall cv, clso = Some cv -> class_from_text cv = Some (c_class c)) ->
  type_from_text tyt = Some ty -> class_from_text tyt = None -> ttl_from_text tyt = Lib eBadTTL ->
  ty <> tSOA ->
  parse_modify lhs = Ok lm -> parse_modify rhs = Ok rm ->
  generate_line c s (t0 :: TId lhs :: opt_tok ttlo ++ opt_tok clso ++ [TId tyt; TId rhs]) false = Ok (s', Some []) ->
  exp_fold (Z.to_nat ((stop - start) / step + 1)) start step c s lhs rhs lm rm ttlo clso tyt = Ok s'.
Proof. exact respell_generate_proof. Qed.
Print Assumptions respell_generate.

(* The reader loop runs on fuel length(text) + 1 (from_text).  That bound is sufficient: every
   logical line consumes at least one character (lex_rest), so any larger fuel gives the same
   result, and the out-of-fuel marker is unreachable (no line ever produces it either). *)
Theorem read_loop_fuel_irrelevant : forall c f1 f2 text s,
  (length text < f1)%nat -> (length text < f2)%nat ->
  read_loop f1 c s text = read_loop f2 c s text.
Proof. exact read_loop_fuel_irrelevant_proof. Qed.
Print Assumptions read_loop_fuel_irrelevant.

Theorem read_loop_fuel_sufficient : forall c f text s,
  (length text < f)%nat -> read_loop f c s text <> Internal iFuelZ.
Proof. exact read_loop_fuel_sufficient_proof. Qed.
Print Assumptions read_loop_fuel_sufficient.

(* ... and a statement that is rejected (CNAME conflict, bad substituted name or rdata, ...) is
   rejected with exactly the exception its expansion raises - unless an out-of-zone name stopped it. *)
Theorem respell_generate_errors : forall c s co zo t0 lhs ttlo clso tyt rhs start stop step ttl ty lm rm,
  corigin s = Some co -> zorigin s = Some zo -> is_absolute co = true ->
  grange_from_text (tokval t0) = Ok (start, stop, step) ->
  ttl_given s ttlo ttl ->
  (forall cv, clso = Some cv -> class_from_text cv = Some (c_class c)) ->
  type_from_text tyt = Some ty -> class_from_text tyt = None -> ttl_from_text tyt = Lib eBadTTL ->
  ty <> tSOA ->
  parse_modify lhs = Ok lm -> parse_modify rhs = Ok rm ->
  let stmt := generate_line c s (t0 :: TId lhs :: opt_tok ttlo ++ opt_tok clso ++ [TId tyt; TId rhs]) false in
  let expn := exp_fold (Z.to_nat ((stop - start) / step + 1)) start step c s lhs rhs lm rm ttlo clso tyt in
  (forall e, stmt = Lib e -> expn = Lib e) /\ (forall e, stmt = Internal e -> expn = Internal e).
Proof. exact respell_generate_errors_proof. Qed.
Print Assumptions respell_generate_errors.

(* ---------- non-vacuity: the hypotheses are satisfiable, the model really loads zones ---------- *)
Definition ex_origin : name := [[101; 120]; []].   (* "ex." *)
Definition ex_cfg := mkcfg (Some ex_origin) true 1 true.
(* "@ 300 IN SOA ns hm 1 2 3 4 5\n@ 300 IN NS ns\nwww IN 60 CNAME ns\nout.side. 5 IN A 1.2.3.4\n" *)
Definition ex_text : list Z :=
  [64;32;51;48;48;32;73;78;32;83;79;65;32;110;115;32;104;109;32;49;32;50;32;51;32;52;32;53;10;
   64;32;51;48;48;32;73;78;32;78;83;32;110;115;10;
   119;119;119;32;73;78;32;54;48;32;67;78;65;77;69;32;110;115;10;
   111;117;116;46;115;105;100;101;46;32;53;32;73;78;32;65;32;49;46;50;46;51;46;52;10].

Example ex_loads : exists z, from_text ex_cfg ex_text = Ok (Some ex_origin, z) /\ length z = 2%nat.
Proof. eexists. split; [vm_compute; reflexivity|reflexivity]. Qed.

Example ex_class_ttl_hyps :
  ttl_from_text [54; 48] = Ok 60 /\ class_from_text [73; 78] = Some (c_class ex_cfg).
Proof. split; reflexivity. Qed.

Example ex_outside_hyps :
  as_name true [111;117;116;46;115;105;100;101;46] (Some ex_origin) false None = Ok [[111;117;116];[115;105;100;101];[]] /\
  is_subdomain [[111;117;116];[115;105;100;101];[]] ex_origin = false.
Proof. split; reflexivity. Qed.

Example ex_owner_hyps :
  as_name true [119;119;119] (Some ex_origin) false None = Ok [[119;119;119];[101;120];[]].
Proof. reflexivity. Qed.

(* ---------- non-vacuity of zone_roundtrip: a relativized zone with three names, read without
   an origin argument ($ORIGIN is printed), de-duplicated owners, $TTL 300, justified columns ---------- *)
Definition ns_ : name := [[110; 115]].
Definition www_ : name := [[119; 119; 119]].
Definition rt_nodes : zone :=
  [ ([], [ mkrds tSOA 0 300 [[VName ns_; VName [[104; 109]]; VInt 1; VInt 7200; VInt 900; VInt 1209600; VInt 60]];
           mkrds tNS 0 300 [[VName ns_]; [VName [[110; 115; 50]; [111]; []]]] ]);
    (www_, [ mkrds tCNAME 0 60 [[VName ns_]] ]);
    (ns_, [ mkrds tA 0 300 [[VTok [49; 46; 50; 46; 51; 46; 52]]; [VTok [49; 46; 50; 46; 51; 46; 53]]];
            mkrds tTXT 0 3600 [[VStrs [[104; 105; 32; 34]; []]]] ]) ].
Definition rt_cfg := mkcfg None true 1 true.
Definition rt_style := mkstyle false true (Some 300) true false false false false (-8) 6 0 (-6) None false false.

Ltac solve_rdata toks := exists toks; split; [vm_compute; reflexivity|split; vm_compute; reflexivity].

Example rt_premises :
  lossless rt_style /\ origin_ok ex_origin /\ nodes_wf rt_cfg rt_style ex_origin [] rt_nodes /\
  check_origin rt_cfg (Some ex_origin) rt_nodes = Ok tt.
Proof.
  split; [|split; [|split]].
  - unfold lossless, rt_style; cbn.
    split; [reflexivity|]. split; [reflexivity|]. split; [reflexivity|]. split; [lia|]. split; [reflexivity|].
    intros d0 Hd0; inversion Hd0; subst; unfold MAX_TTL; lia.
  - split; [|split]; vm_compute; reflexivity.
  - unfold rt_nodes. cbn [nodes_wf].
    repeat split;
      lazymatch goal with
      | |- exists _, _ => idtac
      | |- _ <> _ => vm_compute; intros HH; discriminate HH
      | |- _ <= _ => vm_compute; intros HH; discriminate HH
      | |- is_singleton _ = true -> _ =>
          vm_compute; first [intros HH; discriminate HH | intros _; eexists; reflexivity]
      | |- soa_ok _ _ _ _ => unfold soa_ok; vm_compute; first [intros _; reflexivity | intros HH; discriminate HH]
      | |- key_fresh _ _ => unfold key_fresh; repeat (apply Forall_cons; [vm_compute; reflexivity|]); apply Forall_nil
      | |- rds_fresh _ _ _ => unfold rds_fresh; repeat (apply Forall_cons; [vm_compute; reflexivity|]); apply Forall_nil
      | |- compat _ _ => vm_compute; first [reflexivity | exact Logic.I]
      | |- True => exact Logic.I
      | |- _ = _ => vm_compute; reflexivity
      end.
    + exists [64], ex_origin. repeat split; vm_compute; reflexivity.
    + solve_rdata [TId [110;115]; TId [104;109]; TId [49]; TId [55;50;48;48]; TId [57;48;48]; TId [49;50;48;57;54;48;48]; TId [54;48]].
    + solve_rdata [TId [110;115]].
    + solve_rdata [TId [110;115;50;46;111;46]].
    + exists [119;119;119], [[119;119;119];[101;120];[]]. repeat split; vm_compute; reflexivity.
    + solve_rdata [TId [110;115]].
    + exists [110;115], [[110;115];[101;120];[]]. repeat split; vm_compute; reflexivity.
    + solve_rdata [TId [49;46;50;46;51;46;52]].
    + solve_rdata [TId [49;46;50;46;51;46;53]].
    + solve_rdata [TQ [104;105;32;92;34]; TQ []].
  - vm_compute. reflexivity.
Qed.

(* ... and the conclusion, computed: the printed text is read back as the same zone *)
Example rt_computed :
  exists text, zone_text rt_style (mkpz (Some ex_origin) true 1 rt_nodes) = Ok text /\
               from_text rt_cfg text = Ok (Some ex_origin, rt_nodes).
Proof.
  exists (match zone_text rt_style (mkpz (Some ex_origin) true 1 rt_nodes) with Ok t => t | _ => [] end).
  split; vm_compute; reflexivity.
Qed.

(* non-vacuity of respell_parens:  www 300 (\n  IN\tA; c\n1.2.3.4 ) ;x   versus   www 300 IN A 1.2.3.4 *)
Definition pr_ts : list tok :=
  [TId [119;119;119]; TId [51;48;48]; TId [73;78]; TId [65]; TId [49;46;50;46;51;46;52]].
Definition pr_ps : list mpiece :=
  [MTk (TId [119;119;119]); MSp 1; MTk (TId [51;48;48]); MSp 1; MOpen; MNl; MSp 2; MTk (TId [73;78]); MTab;
   MTk (TId [65]); MComNl [32; 99]; MTk (TId [49;46;50;46;51;46;52]); MSp 1; MClose; MSp 1; MComEnd [120]].
Example pr_hyps :
  forallb tok_clean pr_ts = true /\ mvalid 0 pr_ps = true /\ mtoks pr_ps = pr_ts /\
  starts_ws (mrender pr_ps ++ [10]) = starts_ws (mrender (single_line pr_ts) ++ [10]).
Proof. repeat split; reflexivity. Qed.

(* non-vacuity of respell_generate:  $GENERATE 1-5/2 h${0,2} IN A 10.0.0.$   after  $TTL 300 *)
Definition gn_state : rstate := set_dttl (init_state (mkcfg (Some ex_origin) true 1 false)) 300.
Example gn_hyps :
  let c := mkcfg (Some ex_origin) true 1 false in
  let lhs := [104; 36; 123; 48; 44; 50; 125] in
  let rhs := [49; 48; 46; 48; 46; 48; 46; 36] in
  corigin gn_state = Some ex_origin /\ zorigin gn_state = Some ex_origin /\
  grange_from_text [49; 45; 53; 47; 50] = Ok (1, 5, 2) /\
  ttl_given gn_state None 300 /\
  type_from_text [65] = Some tA /\ class_from_text [65] = None /\ ttl_from_text [65] = Lib eBadTTL /\
  (exists lm rm s', parse_modify lhs = Ok lm /\ parse_modify rhs = Ok rm /\
     generate_line c gn_state [TId [49; 45; 53; 47; 50]; TId lhs; TId [73; 78]; TId [65]; TId rhs] false
       = Ok (s', Some []) /\ length (zn s') = 3%nat).
Proof.
  cbv zeta. repeat split; try reflexivity.
  - left. split; reflexivity.
  - eexists _, _, _. split; [vm_compute; reflexivity|]. split; [vm_compute; reflexivity|].
    split; vm_compute; reflexivity.
Qed.

(* non-vacuity of zone_roundtrip_fields: the structural hypotheses hold for the example zone *)
Ltac le_c := vm_compute; first [reflexivity | intros HH; discriminate HH].
Ltac solve_forall tac := repeat (apply Forall_cons; [tac|]); apply Forall_nil.
Ltac cmp := vm_compute; first [reflexivity | exact Logic.I].
Ltac solve_valid := apply validate_iff; vm_compute; reflexivity.
Ltac solve_bytes := apply AllBytes_dec; vm_compute; reflexivity.

Ltac rd_fit tac := left; eexists _, _; split; [reflexivity|]; split; [discriminate|]; split; [reflexivity|]; tac.

Example rt_struct : zone_struct rt_cfg ex_origin rt_nodes.
Proof.
  assert (Vns : Valid ns_ /\ AllBytes ns_) by (split; [solve_valid|solve_bytes]).
  assert (Vnsx : Valid (ns_ ++ ex_origin)) by solve_valid.
  assert (Nns : name_field_ok true ex_origin ns_).
  { split; [apply Vns|]. split; [apply Vns|]. left. split; [reflexivity|exact Vnsx]. }
  split.
  - repeat (constructor; [solve_forall ltac:(vm_compute; reflexivity)|]). constructor.
  - unfold rt_nodes. apply Forall_cons; [|apply Forall_cons; [|apply Forall_cons; [|apply Forall_nil]]].
    + (* apex: SOA, NS *)
      split; [discriminate|]. split.
      { split; [solve_valid|]. split; [solve_bytes|]. split; [reflexivity|solve_valid]. }
      cbn [rdss_struct fst snd].
      split; [constructor|]. split; [cmp|]. split.
      { split; [split; le_c|]. split; [discriminate|]. split; [split; le_c|].
        split; [intros _; reflexivity|]. split; [intros _; eexists; reflexivity|].
        cbn [rdatas_struct rdatas]. split; [|split; [reflexivity|exact Logic.I]].
        rd_fit ltac:(idtac). cbn [rdata_fits fval_ok]. split; [exact Nns|]. split.
        { split; [solve_valid|]. split; [solve_bytes|]. left. split; [reflexivity|solve_valid]. }
        repeat (split; [split; le_c|]). exact Logic.I. }
      split; [solve_forall ltac:(reflexivity)|]. split; [cmp|]. split; [|exact Logic.I].
      split; [split; le_c|]. split; [discriminate|]. split; [split; le_c|].
      split; [intros HH; discriminate HH|]. split; [intros HH; discriminate HH|].
      cbn [rdatas_struct rdatas app].
      split; [rd_fit ltac:(idtac); cbn [rdata_fits fval_ok]; split; [exact Nns|exact Logic.I]|].
      split; [reflexivity|]. split; [|split; [vm_compute; reflexivity|exact Logic.I]].
      rd_fit ltac:(idtac). cbn [rdata_fits fval_ok]. split; [|exact Logic.I].
      split; [solve_valid|]. split; [solve_bytes|]. right. split; vm_compute; reflexivity.
    + (* www: CNAME *)
      split; [discriminate|]. split.
      { split; [solve_valid|]. split; [solve_bytes|]. split; [reflexivity|solve_valid]. }
      cbn [rdss_struct fst snd]. split; [constructor|]. split; [cmp|]. split; [|exact Logic.I].
      split; [split; le_c|]. split; [discriminate|]. split; [split; le_c|].
      split; [intros HH; discriminate HH|]. split; [intros _; eexists; reflexivity|].
      cbn [rdatas_struct rdatas].
      split; [rd_fit ltac:(idtac); cbn [rdata_fits fval_ok]; split; [exact Nns|exact Logic.I]|].
      split; [reflexivity|exact Logic.I].
    + (* ns: A, TXT *)
      split; [discriminate|]. split.
      { split; [apply Vns|]. split; [apply Vns|]. split; [reflexivity|exact Vnsx]. }
      cbn [rdss_struct fst snd]. split; [constructor|]. split; [cmp|]. split.
      { split; [split; le_c|]. split; [discriminate|]. split; [split; le_c|].
        split; [intros HH; discriminate HH|]. split; [intros HH; discriminate HH|].
        cbn [rdatas_struct rdatas app].
        split; [rd_fit ltac:(idtac); cbn [rdata_fits fval_ok]; split; [split; vm_compute; reflexivity|exact Logic.I]|].
        split; [reflexivity|].
        split; [rd_fit ltac:(idtac); cbn [rdata_fits fval_ok]; split; [split; vm_compute; reflexivity|exact Logic.I]|].
        split; [vm_compute; reflexivity|exact Logic.I]. }
      split; [solve_forall ltac:(reflexivity)|]. split; [cmp|]. split; [|exact Logic.I].
      split; [split; le_c|]. split; [discriminate|]. split; [split; le_c|].
      split; [intros HH; discriminate HH|]. split; [intros HH; discriminate HH|].
      cbn [rdatas_struct rdatas]. split; [|split; [reflexivity|exact Logic.I]].
      rd_fit ltac:(idtac). cbn [rdata_fits]. split; [discriminate|].
      solve_forall ltac:(split; [solve_forall ltac:(split; le_c)|le_c]).
Qed.
