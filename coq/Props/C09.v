From DV Require Import Base.Prelude Model.NameM Model.ZoneTextM.
Theorem placeholder_c09 : ttl_from_text [49] = Ok 1.
Proof. reflexivity. Qed.
Print Assumptions placeholder_c09.
