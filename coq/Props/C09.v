(* C09 - zones survive write-then-read as text; equivalent zone-file spellings agree.
   Statements only; proofs are in Proofs/ZoneText*.v.  Model: Model/ZoneTextM.v. *)
From DV Require Import Base.Prelude Model.NameM Model.ZoneTextM.
From DV Require Import Proofs.ZoneTextBase Proofs.ZoneTextInv Proofs.ZoneTextRespell.
Open Scope Z_scope.

(* The decimal text of every TTL in range reads back as that TTL. *)
Theorem ttl_text_roundtrip : forall n, 0 <= n <= MAX_TTL -> ttl_from_text (dec n) = Ok n.
Proof. exact ttl_from_text_dec. Qed.
Print Assumptions ttl_text_roundtrip.

(* After a successful load no node holds a CNAME (or RRSIG(CNAME)) together with other data -
   for every input text and every reader configuration. *)
Theorem cname_exclusive_after_load : forall c text o z,
  from_text c text = Ok (o, z) -> zone_excl z.
Proof. exact cname_exclusive_after_load_proof. Qed.
Print Assumptions cname_exclusive_after_load.

(* Every owner name of the loaded zone is (the relativization of) a name inside the origin. *)
Theorem loaded_names_inside : forall c text o z,
  from_text c text = Ok (o, z) ->
  z = [] \/ exists zo, o = Some zo /\ Forall (in_zone (c_rel c) zo) (map fst z).
Proof. exact loaded_names_inside_proof. Qed.
Print Assumptions loaded_names_inside.

(* A record line whose owner lies outside the origin changes nothing but `last_name`, whatever
   follows the owner on that line ... *)
Theorem outside_origin_ignored : forall c s co zo ov n toks,
  corigin s = Some co -> zorigin s = Some zo ->
  as_name true ov (Some co) false None = Ok n ->
  is_subdomain n zo = false ->
  rr_line c s false (TId ov :: toks) false = Ok (set_last s n).
Proof. exact outside_origin_line_proof. Qed.
Print Assumptions outside_origin_ignored.

(* ... and `last_name` does not influence a following line that spells its owner. *)
Theorem outside_origin_then_explicit_owner : forall c s m toks lerr t,
  rr_line c (set_last s m) false (t :: toks) lerr = rr_line c s false (t :: toks) lerr.
Proof. exact last_name_irrelevant_proof. Qed.
Print Assumptions outside_origin_then_explicit_owner.

(* "<ttl> <class>" and "<class> <ttl>" load alike, with an explicit or an inherited owner. *)
Theorem respell_ttl_class_order : forall c s tv cv t rest lerr,
  ttl_from_text tv = Ok t ->
  class_from_text cv = Some (c_class c) ->
  (forall ov, rr_line c s false (TId ov :: TId tv :: TId cv :: rest) lerr =
              rr_line c s false (TId ov :: TId cv :: TId tv :: rest) lerr) /\
  rr_line c s true (TId tv :: TId cv :: rest) lerr = rr_line c s true (TId cv :: TId tv :: rest) lerr.
Proof. exact respell_ttl_class_order_proof. Qed.
Print Assumptions respell_ttl_class_order.

(* Spelling the owner again and inheriting it (leading white space) load alike. *)
Theorem respell_owner : forall c s co ov n t toks lerr,
  corigin s = Some co ->
  lastname s = Some n ->
  as_name true ov (Some co) false None = Ok n ->
  rr_line c s false (TId ov :: t :: toks) lerr = rr_line c s true (t :: toks) lerr.
Proof. exact respell_owner_proof. Qed.
Print Assumptions respell_owner.

(* ---------- non-vacuity: the hypotheses are satisfiable, the model really loads zones ---------- *)
Definition ex_origin : name := [[101; 120]; []].   (* "ex." *)
Definition ex_cfg := mkcfg (Some ex_origin) true 1 true.
(* "@ 300 IN SOA ns hm 1 2 3 4 5\n@ 300 IN NS ns\nwww IN 60 CNAME ns\nout.side. 5 IN A 1.2.3.4\n" *)
Definition ex_text : list Z :=
  [64;32;51;48;48;32;73;78;32;83;79;65;32;110;115;32;104;109;32;49;32;50;32;51;32;52;32;53;10;
   64;32;51;48;48;32;73;78;32;78;83;32;110;115;10;
   119;119;119;32;73;78;32;54;48;32;67;78;65;77;69;32;110;115;10;
   111;117;116;46;115;105;100;101;46;32;53;32;73;78;32;65;32;49;46;50;46;51;46;52;10].

Example ex_loads : exists z, from_text ex_cfg ex_text = Ok (Some ex_origin, z) /\ length z = 2%nat.
Proof. eexists. split; [vm_compute; reflexivity|reflexivity]. Qed.

Example ex_class_ttl_hyps :
  ttl_from_text [54; 48] = Ok 60 /\ class_from_text [73; 78] = Some (c_class ex_cfg).
Proof. split; reflexivity. Qed.

Example ex_outside_hyps :
  as_name true [111;117;116;46;115;105;100;101;46] (Some ex_origin) false None = Ok [[111;117;116];[115;105;100;101];[]] /\
  is_subdomain [[111;117;116];[115;105;100;101];[]] ex_origin = false.
Proof. split; reflexivity. Qed.

Example ex_owner_hyps :
  as_name true [119;119;119] (Some ex_origin) false None = Ok [[119;119;119];[101;120];[]].
Proof. reflexivity. Qed.
