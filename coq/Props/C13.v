(* C13 - Inbound AXFR/IXFR converges to the server's zone or leaves the zone untouched.
   Statements only; proofs are in Proofs/Xfr*.v, the model in Model/XfrM.v, the server-side
   specification (headers, versions, streams) in Proofs/XfrSpec.v. *)
From DV Require Import Base.Prelude Model.XfrM Proofs.XfrSpec.
From DV Require Proofs.XfrZone Proofs.XfrDiff.
From DV Require Proofs.XfrSafety Proofs.XfrBasic Proofs.XfrIxfr Proofs.XfrAxfr Proofs.XfrFault Proofs.XfrOrder Proofs.XfrRefresh Proofs.XfrGlue Proofs.XfrTsig Proofs.XfrSections Proofs.XfrGroup Proofs.XfrSoaFaults Proofs.XfrTsigLink Proofs.XfrAddStart Proofs.XfrBody Proofs.XfrGeneral Proofs.XfrGeneralAxfr Proofs.XfrLegacy Proofs.XfrGeneralOrder Proofs.XfrInversion Proofs.XfrInversionGen Proofs.XfrRefreshGen.
From DV Require Model.TsigM.
From Coq Require Import Sorting.Permutation.

(* Whatever is received (any messages, any records, any chunking, any fault), if the transfer ends
   with an exception - including the stream ending before the transfer is complete - the zone is
   exactly what it was. *)
Theorem error_leaves_zone : forall z rdt ser udp ws e z' n,
  inbound_xfr z rdt ser udp ws = (Error e z', n) -> z' = z.
Proof. exact XfrSafety.error_leaves_zone. Qed.
Print Assumptions error_leaves_zone.

(* "an error is never reported for a transfer that was applied": one call of process_message
   either leaves the published zone alone, or it committed, raised nothing and returned True. *)
Theorem no_error_after_apply : forall s m s' o,
  process_message s m = (s', o) ->
  pub s' = pub s \/ (o = None /\ done s' = true /\ txn s' = None).
Proof. exact XfrSafety.process_message_pub. Qed.
Print Assumptions no_error_after_apply.

(* the same for process_message used without the driver: as long as no call returned True, the
   zone is untouched (feed lists rTrue for a call that returned True) *)
Theorem not_done_leaves_zone : forall ms s l z,
  feed s ms = (l, z) -> ~ In rTrue l -> z = pub s.
Proof. exact XfrSafety.feed_not_done_leaves_zone. Qed.
Print Assumptions not_done_leaves_zone.

(* dns.serial.Serial.__lt__ is RFC 1982 section 3.2 *)
Theorem serial_lt_rfc1982 : forall a b,
  serial_lt a b = true <-> 0 < (b - a) mod two32 < two31.
Proof. exact XfrBasic.serial_lt_rfc1982. Qed.
Print Assumptions serial_lt_rfc1982.

Theorem serial_gt_lt : forall a b, serial_gt a b = serial_lt b a.
Proof. exact XfrBasic.serial_gt_lt. Qed.
Print Assumptions serial_gt_lt.

(* RFC 1982 3.1: adding 0 < d < 2^31 yields a greater serial (what transaction.update_serial relies on) *)
Theorem serial_add_greater : forall a d v, 0 < d < two31 -> serial_add a d = Ok v -> serial_lt a v = true.
Proof. exact XfrBasic.serial_add_greater. Qed.
Print Assumptions serial_add_greater.

Theorem serial_backwards_rejected : forall z ser udp w ws r0 rest,
  header_ok tIXFR w -> w_records w = r0 :: rest -> apex_soa r0 ->
  serial_lt (r_data r0 mod two32) ser = true ->
  inbound_xfr z tIXFR (Some ser) udp (w :: ws) = (Error eBackwards z, 0%nat).
Proof. exact XfrBasic.serial_backwards_rejected. Qed.
Print Assumptions serial_backwards_rejected.

Theorem uptodate_noop : forall z ser udp w ws r0,
  header_ok tIXFR w -> w_records w = [r0] -> apex_soa r0 ->
  r_data r0 mod two32 = ser ->
  inbound_xfr z tIXFR (Some ser) udp (w :: ws) = (Done z, 1%nat).
Proof. exact XfrBasic.uptodate_noop. Qed.
Print Assumptions uptodate_noop.

Theorem use_tcp_signalled : forall z ser w ws r0,
  header_ok tIXFR w -> w_records w = [r0] -> apex_soa r0 ->
  r_data r0 mod two32 <> ser -> serial_lt (r_data r0 mod two32) ser = false ->
  inbound_xfr z tIXFR (Some ser) true (w :: ws) = (Error eUseTCP z, 0%nat).
Proof. exact XfrBasic.use_tcp_signalled. Qed.
Print Assumptions use_tcp_signalled.

(* Multi-step incremental chains: for every chain of well-formed server versions v0 -> v1 -> ... -> vn
   (the intermediate serials differ from vn's, vn is not older than v0 in RFC 1982 terms), a client
   zone equal to v0, and EVERY division of the response stream into messages, the transfer completes
   and the zone equals vn (with vn's SOA, hence its serial). *)
Theorem ixfr_converges : forall v0 chain z0 ws,
  chain_ok v0 chain -> zeq z0 (zone_of v0) -> chunking tIXFR (ixfr_stream v0 chain) ws ->
  exists z' n, inbound_xfr z0 tIXFR (Some (v_serial v0)) false ws = (Done z', n)
               /\ zeq z' (zone_of (last chain v0)).
Proof. exact XfrIxfr.ixfr_converges. Qed.
Print Assumptions ixfr_converges.

(* AXFR: for every well-formed server zone, any client zone, and EVERY division of the stream into
   messages - where dns.message merges the records of a message into RRsets (one_rr_per_rrset=False,
   force_unique from the first SOA on) - the zone ends up equal to the server's. *)
Theorem axfr_converges : forall v z0 ser ws,
  version_wf v -> chunking tAXFR (axfr_stream v) ws ->
  exists z' n, inbound_xfr z0 tAXFR ser false ws = (Done z', n) /\ zeq z' (zone_of v).
Proof. exact XfrAxfr.axfr_converges. Qed.
Print Assumptions axfr_converges.

(* AXFR-style answer to an IXFR request (the second record is not an SOA): rollback, replacement
   transaction, same result; the fallback may be triggered in a later message than the first. *)
Theorem axfr_style_ixfr_converges : forall v z0 ser ws,
  version_wf v -> v_rest v <> [] ->
  v_serial v <> ser -> serial_lt (v_serial v) ser = false ->
  chunking tIXFR (axfr_stream v) ws ->
  exists z' n, inbound_xfr z0 tIXFR (Some ser) false ws = (Done z', n) /\ zeq z' (zone_of v).
Proof. exact XfrAxfr.axfr_style_ixfr_converges. Qed.
Print Assumptions axfr_style_ixfr_converges.

(* General form (RFC 1995 / RFC 5936 do not fix the order of the records inside a deletion section,
   an addition section or an AXFR body): ixfr_response / axfr_response allow ANY permutation of the
   deleted records of every section, and any order AND repetition of added records / body records
   (same_set) - so swapping two records of a section and duplicating an added record are benign.  ixfr_converges, axfr_converges and
   axfr_style_ixfr_converges above are the instances with the canonical order. *)
Theorem ixfr_converges_any_order : forall v0 chain z0 recs ws,
  chain_ok v0 chain -> zeq z0 (zone_of v0) -> ixfr_response v0 chain recs -> chunking tIXFR recs ws ->
  exists z' n, inbound_xfr z0 tIXFR (Some (v_serial v0)) false ws = (Done z', n)
               /\ zeq z' (zone_of (last chain v0)).
Proof. exact XfrOrder.ixfr_converges_any_order. Qed.
Print Assumptions ixfr_converges_any_order.

Theorem axfr_converges_any_order : forall v z0 ser recs ws,
  version_wf v -> axfr_response v recs -> chunking tAXFR recs ws ->
  exists z' n, inbound_xfr z0 tAXFR ser false ws = (Done z', n) /\ zeq z' (zone_of v).
Proof. exact XfrOrder.axfr_converges_any_order. Qed.
Print Assumptions axfr_converges_any_order.

Theorem axfr_style_ixfr_converges_any_order : forall v z0 ser recs ws,
  version_wf v -> v_rest v <> [] -> axfr_response v recs ->
  v_serial v <> ser -> serial_lt (v_serial v) ser = false ->
  chunking tIXFR recs ws ->
  exists z' n, inbound_xfr z0 tIXFR (Some ser) false ws = (Done z', n) /\ zeq z' (zone_of v).
Proof. exact XfrOrder.axfr_style_ixfr_converges_any_order. Qed.
Print Assumptions axfr_style_ixfr_converges_any_order.

(* AXFR whose body also carries out-of-zone records ("glue that is not a subdomain of the origin",
   any class / type except SOA / TTL / rdata), anywhere between the two SOAs: they are ignored *)
Theorem axfr_converges_with_glue : forall v z0 ser recs ws,
  version_wf v -> XfrGlue.axfr_response_glue v recs -> chunking tAXFR recs ws ->
  exists z' n, inbound_xfr z0 tAXFR ser false ws = (Done z', n) /\ zeq z' (zone_of v).
Proof. exact XfrGlue.axfr_converges_with_glue. Qed.
Print Assumptions axfr_converges_with_glue.

Theorem axfr_style_ixfr_converges_with_glue : forall v z0 ser recs ws,
  version_wf v -> v_rest v <> [] -> XfrGlue.axfr_response_glue v recs ->
  v_serial v <> ser -> serial_lt (v_serial v) ser = false ->
  chunking tIXFR recs ws ->
  exists z' n, inbound_xfr z0 tIXFR (Some ser) false ws = (Done z', n) /\ zeq z' (zone_of v).
Proof. exact XfrGlue.axfr_style_ixfr_converges_with_glue. Qed.
Print Assumptions axfr_style_ixfr_converges_with_glue.

(* incremental chains whose deletion / addition sections also carry out-of-zone records *)
Theorem ixfr_converges_with_glue : forall v0 chain z0 recs ws,
  chain_ok v0 chain -> zeq z0 (zone_of v0) -> XfrGlue.ixfr_response_glue v0 chain recs -> chunking tIXFR recs ws ->
  exists z' n, inbound_xfr z0 tIXFR (Some (v_serial v0)) false ws = (Done z', n)
               /\ zeq z' (zone_of (last chain v0)).
Proof. exact XfrGlue.ixfr_converges_with_glue. Qed.
Print Assumptions ixfr_converges_with_glue.

(* UDP IXFR: the same stream in one datagram *)
Theorem udp_ixfr : forall v0 chain z0 w,
  chain_ok v0 chain -> zeq z0 (zone_of v0) ->
  header_ok tIXFR w -> w_records w = ixfr_stream v0 chain ->
  exists z', inbound_xfr z0 tIXFR (Some (v_serial v0)) true [w] = (Done z', 1%nat)
             /\ zeq z' (zone_of (last chain v0)).
Proof. exact XfrIxfr.udp_ixfr. Qed.
Print Assumptions udp_ixfr.

(* based on a different serial *)
Theorem wrong_base_rejected : forall v0 chain z ser ws,
  chain <> [] -> chunking tIXFR (ixfr_stream v0 chain) ws ->
  v_serial v0 <> ser -> v_serial (last chain v0) <> ser ->
  serial_lt (v_serial (last chain v0)) ser = false ->
  v_soa v0 <> v_soa (last chain v0) ->
  exists n, inbound_xfr z tIXFR (Some ser) false ws = (Error eBaseMismatch z, n).
Proof. exact XfrIxfr.wrong_base_rejected. Qed.
Print Assumptions wrong_base_rejected.

(* ends early: every proper prefix of a valid IXFR response, in any division into messages *)
Theorem ixfr_early_end_rejected : forall v0 chain z0 ws q,
  chain_ok v0 chain -> zeq z0 (zone_of v0) ->
  Forall (header_ok tIXFR) ws -> q <> [] ->
  concat (map w_records ws) ++ q = ixfr_stream v0 chain ->
  exists e n, inbound_xfr z0 tIXFR (Some (v_serial v0)) false ws = (Error e z0, n).
Proof. exact XfrIxfr.ixfr_early_end_rejected. Qed.
Print Assumptions ixfr_early_end_rejected.

(* ends early, AXFR *)
Theorem axfr_early_end_rejected : forall v z0 ser ws q,
  version_wf v -> Forall (header_ok tAXFR) ws -> q <> [] ->
  concat (map w_records ws) ++ q = axfr_stream v ->
  exists e n, inbound_xfr z0 tAXFR ser false ws = (Error e z0, n).
Proof. exact XfrFault.axfr_early_end_rejected. Qed.
Print Assumptions axfr_early_end_rejected.

(* single faults on a valid IXFR response that are always detected: a non-zero rcode, or a wrong
   question, in ANY message that is read before the transfer is complete (any division into
   messages); truncation at every position is ixfr_early_end_rejected / axfr_early_end_rejected *)
Theorem ixfr_rcode_fault_rejected : forall v0 chain z0 ws1 w' ws2 q,
  chain_ok v0 chain -> zeq z0 (zone_of v0) ->
  Forall (header_ok tIXFR) ws1 -> q <> [] ->
  concat (map w_records ws1) ++ q = ixfr_stream v0 chain ->
  match ws1 with w :: _ => w_records w <> [] | [] => True end ->
  w_rcode w' <> 0 ->
  exists n, inbound_xfr z0 tIXFR (Some (v_serial v0)) false (ws1 ++ w' :: ws2) = (Error eTransfer z0, n).
Proof. exact XfrFault.ixfr_rcode_fault_rejected. Qed.
Print Assumptions ixfr_rcode_fault_rejected.

Theorem ixfr_question_fault_rejected : forall v0 chain z0 ws1 w' ws2 q qn qt qs,
  chain_ok v0 chain -> zeq z0 (zone_of v0) ->
  Forall (header_ok tIXFR) ws1 -> q <> [] ->
  concat (map w_records ws1) ++ q = ixfr_stream v0 chain ->
  match ws1 with w :: _ => w_records w <> [] | [] => True end ->
  w_rcode w' = 0 -> w_question w' = (qn, qt) :: qs -> (qn <> origin \/ qt <> tIXFR) ->
  exists e n, (e = eQName \/ e = eQType) /\
    inbound_xfr z0 tIXFR (Some (v_serial v0)) false (ws1 ++ w' :: ws2) = (Error e z0, n).
Proof. exact XfrFault.ixfr_question_fault_rejected. Qed.
Print Assumptions ixfr_question_fault_rejected.

(* corrupt serial: after any number of correct difference sequences the next SOA (start of the next
   deletion section, or the final SOA) does not carry the current serial *)
Theorem ixfr_corrupt_serial_rejected : forall v0 pre vn bad rest z0 ws,
  version_wf v0 -> Forall version_wf pre -> zeq z0 (zone_of v0) ->
  (forall v, In v (v0 :: removelast pre) -> v_soa v <> v_soa vn) ->
  v_serial vn <> v_serial v0 -> serial_lt (v_serial vn) (v_serial v0) = false ->
  v_soa bad <> v_soa vn -> v_serial bad <> v_serial (last pre v0) ->
  chunking tIXFR (soa_rr vn :: diff_seqs v0 pre ++ soa_rr bad :: rest) ws ->
  exists n, inbound_xfr z0 tIXFR (Some (v_serial v0)) false ws = (Error eBaseMismatch z0, n).
Proof. exact XfrFault.ixfr_corrupt_serial_rejected. Qed.
Print Assumptions ixfr_corrupt_serial_rejected.

(* a deletion that does not apply at that point (duplicate of a deleted record; corrupt owner, type
   or rdata of a deleted record): DeleteNotExact, zone untouched *)
Theorem ixfr_bad_delete_rejected : forall v0 pre vn D1 r z1 rest z0 ws,
  version_wf v0 -> Forall version_wf pre -> zeq z0 (zone_of v0) ->
  (forall v, In v (v0 :: removelast pre ++ [last pre v0]) -> v_soa v <> v_soa vn) ->
  v_serial vn <> v_serial v0 -> serial_lt (v_serial vn) (v_serial v0) = false ->
  Forall XfrZone.plain D1 -> XfrZone.plain r ->
  XfrDiff.dels (zone_of (last pre v0)) D1 = Some z1 ->
  XfrZone.del1 (look z1 (rkey r)) (r_data r) = None ->
  chunking tIXFR (soa_rr vn :: diff_seqs v0 pre ++ soa_rr (last pre v0) :: D1 ++ r :: rest) ws ->
  exists n, inbound_xfr z0 tIXFR (Some (v_serial v0)) false ws = (Error eDeleteNotExact z0, n).
Proof. exact XfrFault.ixfr_bad_delete_rejected. Qed.
Print Assumptions ixfr_bad_delete_rejected.

(* UDP IXFR that neither completes nor is the bare-SOA "use TCP" answer *)
Theorem udp_incomplete_rejected : forall v0 chain z0 w a q,
  chain_ok v0 chain -> zeq z0 (zone_of v0) -> header_ok tIXFR w ->
  a <> [] -> q <> [] ->
  w_records w = soa_rr (last chain v0) :: a ->
  soa_rr (last chain v0) :: a ++ q = ixfr_stream v0 chain ->
  forall ws, inbound_xfr z0 tIXFR (Some (v_serial v0)) true (w :: ws) = (Error eUDPEnd z0, 0%nat).
Proof. exact XfrFault.udp_incomplete_rejected. Qed.
Print Assumptions udp_incomplete_rejected.

(* the outcome side of the single-fault lemma, for ANY input (hence any fault): an error leaves the
   zone unchanged (error_leaves_zone); a completed transfer leaves the zone untouched (up-to-date
   answer) or holding the SOA announced by the first record - the server's serial *)
Theorem done_has_announced_soa : forall z rdt ser udp ws z' n,
  inbound_xfr z rdt ser udp ws = (Done z', n) ->
  z' = z \/ exists w ws' r0 rs, ws = w :: ws' /\ group (rdt =? tIXFR) (w_records w) = r0 :: rs
                                 /\ announced r0 z'.
Proof. exact XfrFault.done_has_announced_soa. Qed.
Print Assumptions done_has_announced_soa.

(* ---- the transfer is only as good as the stream.  An IXFR response with a well-formed SOA skeleton
        (XfrSections.skel_ok: every deletion section starts at the current serial, the chain ends at
        the announced serial) is applied section by section WHATEVER its records are: exact deletion
        of the deleted records, SOA replacement, set union with the added records
        (XfrSections.apply_secs).  So a dropped or altered non-SOA record is either caught by
        delete_exact or changes the result by exactly that record. ---- *)
Theorem ixfr_sections_applied : forall fin secs z0 z' ser ws,
  secs <> [] -> XfrSections.skel_ok ser fin secs -> XfrSections.end_serial ser secs = v_serial fin ->
  ttl_ok (v_ttl fin) -> v_serial fin <> ser -> serial_lt (v_serial fin) ser = false ->
  XfrZone.quiet z0 -> XfrSections.apply_secs z0 secs = Some z' ->
  chunking tIXFR (soa_rr fin :: XfrSections.secs_stream secs ++ [soa_rr fin]) ws ->
  exists n, inbound_xfr z0 tIXFR (Some ser) false ws = (Done (zput soakey (v_ttl fin, [v_soa fin]) z'), n).
Proof. exact XfrSections.ixfr_sections_applied. Qed.
Print Assumptions ixfr_sections_applied.

(* some deletion (dropped earlier, altered, duplicated ...) does not apply: DeleteNotExact, zone untouched *)
Theorem ixfr_sections_rejected : forall fin secs tail z0 ser ws,
  XfrSections.skel_ok ser fin secs ->
  v_serial fin <> ser -> serial_lt (v_serial fin) ser = false ->
  XfrZone.quiet z0 -> XfrSections.apply_secs z0 secs = None ->
  chunking tIXFR (soa_rr fin :: XfrSections.secs_stream secs ++ tail) ws ->
  exists n, inbound_xfr z0 tIXFR (Some ser) false ws = (Error eDeleteNotExact z0, n).
Proof. exact XfrSections.ixfr_sections_rejected. Qed.
Print Assumptions ixfr_sections_rejected.

(* an addition of the last section received as another record: both transfers complete and the zones
   agree everywhere except at the two RRsets concerned *)
Theorem ixfr_altered_addition : forall fin pre c A1 a a' A2 z0 z1 z2 ser ws1 ws2,
  XfrSections.c_adds c = A1 ++ a :: A2 -> XfrZone.plain a -> XfrZone.plain a' ->
  XfrSections.skel_ok ser fin (pre ++ [c]) -> XfrSections.end_serial ser (pre ++ [c]) = v_serial fin ->
  ttl_ok (v_ttl fin) -> v_serial fin <> ser -> serial_lt (v_serial fin) ser = false ->
  XfrZone.quiet z0 -> XfrSections.apply_secs z0 (pre ++ [c]) = Some z1 ->
  XfrSections.apply_secs z0 (pre ++ [XfrSections.set_adds c (A1 ++ a' :: A2)]) = Some z2 ->
  chunking tIXFR (soa_rr fin :: XfrSections.secs_stream (pre ++ [c]) ++ [soa_rr fin]) ws1 ->
  chunking tIXFR (soa_rr fin :: XfrSections.secs_stream (pre ++ [XfrSections.set_adds c (A1 ++ a' :: A2)]) ++ [soa_rr fin]) ws2 ->
  exists zf1 zf2 n1 n2,
    inbound_xfr z0 tIXFR (Some ser) false ws1 = (Done zf1, n1) /\
    inbound_xfr z0 tIXFR (Some ser) false ws2 = (Done zf2, n2) /\
    forall k, rkey a <> k -> rkey a' <> k -> look zf2 k = look zf1 k.
Proof. exact XfrSections.ixfr_altered_addition. Qed.
Print Assumptions ixfr_altered_addition.

(* the same for full transfers: a response SOA, B, SOA is applied as the set union of the in-zone
   records of B WHATEVER B is (dropped, altered, repeated records, glue) - also for the AXFR-style
   answer to an IXFR request *)
Theorem axfr_body_applied : forall fin B z0 ser ws,
  ttl_ok (v_ttl fin) -> Forall XfrGlue.okrec B ->
  chunking tAXFR (soa_rr fin :: B ++ [soa_rr fin]) ws ->
  exists z' n, inbound_xfr z0 tAXFR ser false ws = (Done z', n)
               /\ zeq z' (zput soakey (v_ttl fin, [v_soa fin]) (XfrDiff.adds [] (XfrGlue.erase B))).
Proof. exact XfrBody.axfr_body_applied. Qed.
Print Assumptions axfr_body_applied.

Theorem axfr_style_body_applied : forall fin r c z0 ser ws,
  ttl_ok (v_ttl fin) -> XfrGlue.okrec r -> Forall XfrGlue.okrec c ->
  v_serial fin <> ser -> serial_lt (v_serial fin) ser = false ->
  chunking tIXFR (soa_rr fin :: (r :: c) ++ [soa_rr fin]) ws ->
  exists z' n, inbound_xfr z0 tIXFR (Some ser) false ws = (Done z', n)
               /\ zeq z' (zput soakey (v_ttl fin, [v_soa fin]) (XfrDiff.adds [] (XfrGlue.erase (r :: c)))).
Proof. exact XfrBody.axfr_style_body_applied. Qed.
Print Assumptions axfr_style_body_applied.

(* the first record of the response is not the zone's SOA (e.g. the first SOA of an AXFR was dropped) *)
Theorem first_record_not_soa_rejected : forall z rdt ser udp w ws r0 rest,
  header_ok rdt w -> w_records w = r0 :: rest -> (rdt = tAXFR /\ udp = false \/ rdt = tIXFR /\ ser <> None) ->
  (r_name r0 <> origin \/ r_type r0 <> tSOA) ->
  exists e, (e = eNoAnswer \/ e = eFirstNotSOA) /\
            inbound_xfr z rdt ser udp (w :: ws) = (Error e z, 0%nat).
Proof. exact XfrBody.first_record_not_soa_rejected. Qed.
Print Assumptions first_record_not_soa_rejected.

(* ---- SOA records out of place (dropped, duplicated, swapped SOAs).  After any number of well-formed
        sections pre and records P taken as additions, an SOA b whose serial is not the current one is
        rejected: base serial mismatch, or - when b is the announced SOA - unexpected end / empty IXFR
        sequence (XfrSoaFaults.mis_code).  Zone untouched, any division into messages. ---- *)
Theorem ixfr_soa_out_of_place : forall fin pre P b rest z0 z1 ser ws,
  XfrSections.skel_ok ser fin pre -> XfrSections.apply_secs z0 pre = Some z1 ->
  Forall XfrGlue.okrec P -> (pre <> [] \/ P = []) ->
  v_serial b <> XfrSections.end_serial ser pre ->
  v_serial fin <> ser -> serial_lt (v_serial fin) ser = false -> (pre = [] /\ P = [] \/ XfrZone.quiet z0) ->
  chunking tIXFR (soa_rr fin :: XfrSections.secs_stream pre ++ P ++ soa_rr b :: rest) ws ->
  exists n, inbound_xfr z0 tIXFR (Some ser) false ws =
            (Error (XfrSoaFaults.mis_code fin b (match pre with [] => true | _ => false end)) z0, n).
Proof. exact XfrSoaFaults.ixfr_soa_out_of_place. Qed.
Print Assumptions ixfr_soa_out_of_place.

(* instances on a valid response v0 -> ... -> a -> b -> ... -> vn (consecutive serials differ):
   the SOA that starts the deletion section a -> b is dropped ... *)
Theorem ixfr_dropped_section_soa_rejected : forall v0 c1 b c2,
  chain_ok v0 (c1 ++ b :: c2) -> v_serial b <> v_serial (last c1 v0) ->
  forall z0 ws, c1 <> [] -> zeq z0 (zone_of v0) ->
  chunking tIXFR (soa_rr (last (c1 ++ b :: c2) v0) :: diff_seqs v0 c1 ++
                  zminus (v_rest (last c1 v0)) (v_rest b) ++
                  soa_rr b :: zminus (v_rest b) (v_rest (last c1 v0)) ++ diff_seqs b c2 ++
                  [soa_rr (last (c1 ++ b :: c2) v0)]) ws ->
  exists n, inbound_xfr z0 tIXFR (Some (v_serial v0)) false ws =
            (Error (XfrSoaFaults.mis_code (last (c1 ++ b :: c2) v0) b false) z0, n).
Proof. exact XfrSoaFaults.ixfr_dropped_section_soa_rejected. Qed.
Print Assumptions ixfr_dropped_section_soa_rejected.

(* ... or sent twice (also the very first one, c1 = []) *)
Theorem ixfr_duplicated_section_soa_rejected : forall v0 c1 b c2,
  chain_ok v0 (c1 ++ b :: c2) -> v_serial b <> v_serial (last c1 v0) ->
  forall z0 rest ws, zeq z0 (zone_of v0) ->
  chunking tIXFR (soa_rr (last (c1 ++ b :: c2) v0) :: diff_seqs v0 c1 ++
                  soa_rr (last c1 v0) :: soa_rr (last c1 v0) :: zminus (v_rest (last c1 v0)) (v_rest b) ++
                  soa_rr b :: rest) ws ->
  exists n, inbound_xfr z0 tIXFR (Some (v_serial v0)) false ws =
            (Error (XfrSoaFaults.mis_code (last (c1 ++ b :: c2) v0) b false) z0, n).
Proof. exact XfrSoaFaults.ixfr_duplicated_section_soa_rejected. Qed.
Print Assumptions ixfr_duplicated_section_soa_rejected.

(* the SOA that starts the ADDITION section of a -> b is dropped (the section adds something): its
   first added record is then a deletion of a record that is not there *)
Theorem ixfr_dropped_addstart_rejected : forall v0 c1 b c2,
  chain_ok v0 (c1 ++ b :: c2) ->
  forall r A' rest z0 ws,
  zminus (v_rest b) (v_rest (last c1 v0)) = r :: A' -> zeq z0 (zone_of v0) ->
  chunking tIXFR (soa_rr (last (c1 ++ b :: c2) v0) :: diff_seqs v0 c1 ++ soa_rr (last c1 v0) ::
                  zminus (v_rest (last c1 v0)) (v_rest b) ++ r :: rest) ws ->
  exists n, inbound_xfr z0 tIXFR (Some (v_serial v0)) false ws = (Error eDeleteNotExact z0, n).
Proof. exact XfrAddStart.ixfr_dropped_addstart_rejected. Qed.
Print Assumptions ixfr_dropped_addstart_rejected.

(* ... or sent twice (b is not the last version): the copy starts a deletion section whose "deletions"
   are the additions.  (For the last version the duplicate is undetectable:
   ex_dup_last_addstart_undetectable.) *)
Theorem ixfr_duplicated_addstart_rejected : forall v0 c1 b c2,
  chain_ok v0 (c1 ++ b :: c2) ->
  forall r A' nx tail z0 ws,
  c2 <> [] -> ttl_ok (v_ttl nx) ->
  zminus (v_rest b) (v_rest (last c1 v0)) = r :: A' -> zeq z0 (zone_of v0) ->
  chunking tIXFR (soa_rr (last (c1 ++ b :: c2) v0) :: diff_seqs v0 c1 ++ soa_rr (last c1 v0) ::
                  zminus (v_rest (last c1 v0)) (v_rest b) ++
                  soa_rr b :: soa_rr b :: (r :: A') ++ soa_rr nx :: tail) ws ->
  exists n, inbound_xfr z0 tIXFR (Some (v_serial v0)) false ws = (Error eDeleteNotExact z0, n).
Proof. exact XfrAddStart.ixfr_duplicated_addstart_rejected. Qed.
Print Assumptions ixfr_duplicated_addstart_rejected.

(* the first SOA sent twice *)
Theorem ixfr_duplicated_first_soa_rejected : forall fin rest z0 ser ws,
  v_serial fin <> ser -> serial_lt (v_serial fin) ser = false ->
  chunking tIXFR (soa_rr fin :: soa_rr fin :: rest) ws ->
  exists n, inbound_xfr z0 tIXFR (Some ser) false ws = (Error eEmptyIXFR z0, n).
Proof. exact XfrSoaFaults.ixfr_duplicated_first_soa_rejected. Qed.
Print Assumptions ixfr_duplicated_first_soa_rejected.

(* the first SOA dropped or swapped with the next one: the response then starts with an SOA carrying
   the client's serial (the up-to-date shape); anything after it in the same message is rejected, and
   alone it is the up-to-date answer (uptodate_noop): the zone is not touched on this path *)
Theorem uptodate_surplus_rejected : forall z ser udp w ws r0 y rest,
  header_ok tIXFR w -> w_records w = r0 :: y :: rest -> apex_soa r0 ->
  r_data r0 mod two32 = ser ->
  inbound_xfr z tIXFR (Some ser) udp (w :: ws) = (Error eAfterFinal z, 0%nat).
Proof. exact XfrSoaFaults.uptodate_surplus_rejected. Qed.
Print Assumptions uptodate_surplus_rejected.

(* records after the final SOA of a complete valid response (a duplicated final SOA, anything):
   rejected when they come in the message of the final SOA, never read otherwise *)
Theorem ixfr_surplus_after_final : forall v0 chain z0 y extra ws,
  chain_ok v0 chain -> zeq z0 (zone_of v0) ->
  chunking tIXFR (ixfr_stream v0 chain ++ y :: extra) ws ->
  exists n, inbound_xfr z0 tIXFR (Some (v_serial v0)) false ws = (Error eAfterFinal z0, n)
         \/ exists z', inbound_xfr z0 tIXFR (Some (v_serial v0)) false ws = (Done z', n)
                       /\ zeq z' (zone_of (last chain v0)).
Proof. exact XfrSoaFaults.ixfr_surplus_after_final. Qed.
Print Assumptions ixfr_surplus_after_final.

(* ---- the parser's RRset grouping (dns.message, xfr=True): what process_message gets to see ---- *)

(* one_rr_per_rrset (IXFR): every record is its own RRset, in stream order *)
Theorem group_one_rr : forall rs, group true rs = map single rs.
Proof. exact XfrBasic.group_true. Qed.
Print Assumptions group_one_rr.

(* force_unique is sticky: from the first SOA record of the section on, stream order is preserved *)
Theorem group_after_soa : forall f x1 r x2, r_type r = tSOA ->
  group f (x1 ++ r :: x2) = group f x1 ++ single r :: map single x2.
Proof. exact XfrGroup.group_after_soa. Qed.
Print Assumptions group_after_soa.

(* merging neither loses nor invents a record (records of the singleton types NXT, DNAME, NSEC, CNAME
   replace each other when merged: XfrGroup.mergeable excludes them) *)
Theorem group_keeps_records : forall f x t, Forall XfrGroup.mergeable x ->
  In t (XfrGroup.tups (group f x)) <-> In t (map XfrGroup.tup x).
Proof. exact XfrGroup.group_keeps_records. Qed.
Print Assumptions group_keeps_records.

(* hence for AXFR in wire form: a message that carries records after the final SOA - of any content,
   also of an RRset that occurred before the SOA in the same message - is rejected *)
Theorem axfr_surplus_rejected : forall v B z0 ser wsA wl ws3 c2 y x2,
  Forall XfrGlue.okrec B ->
  Forall (header_ok tAXFR) wsA -> header_ok tAXFR wl ->
  concat (map w_records wsA) ++ c2 = soa_rr v :: B ->
  w_records wl = c2 ++ soa_rr v :: y :: x2 ->
  match wsA with w :: _ => w_records w <> [] | [] => True end ->
  exists n, inbound_xfr z0 tAXFR ser false (wsA ++ wl :: ws3) = (Error eAfterFinal z0, n).
Proof. exact XfrGroup.axfr_surplus_rejected. Qed.
Print Assumptions axfr_surplus_rejected.

(* ---- a secondary refreshing its zone (make_query -> extract_serial_from_query -> the server's
        answer for that serial -> transfer) ---- *)

(* the query carries the zone's current SOA serial; the transfer is based on the serial read back *)
Theorem refresh_query_serial : forall z table qt s s2 c z',
  refresh1 z table = Ok (qt, s, s2, c, z') ->
  s = zone_serial z /\ s2 = s /\ qt = (match zone_serial z with Some _ => tIXFR | None => tAXFR end).
Proof. exact XfrRefresh.refresh_query_serial. Qed.
Print Assumptions refresh_query_serial.

(* incremental refresh: afterwards the zone is the server's newest version and the next query will
   carry its serial (so refreshes compose) *)
Theorem refresh_converges : forall v0 chain z table recs ws,
  chain_ok v0 chain -> zeq z (zone_of v0) ->
  find_row table (Some (v_serial v0)) = Some ws ->
  ixfr_response v0 chain recs -> chunking tIXFR recs ws ->
  exists z', refresh1 z table = Ok (tIXFR, Some (v_serial v0), Some (v_serial v0), 0, z')
             /\ zeq z' (zone_of (last chain v0))
             /\ zone_serial z' = Some (v_serial (last chain v0)).
Proof. exact XfrRefresh.refresh_converges. Qed.
Print Assumptions refresh_converges.

Theorem refresh_full : forall v z table recs ws,
  version_wf v -> zone_serial z = None ->
  find_row table None = Some ws ->
  axfr_response v recs -> chunking tAXFR recs ws ->
  exists z', refresh1 z table = Ok (tAXFR, None, None, 0, z')
             /\ zeq z' (zone_of v) /\ zone_serial z' = Some (v_serial v).
Proof. exact XfrRefresh.refresh_full. Qed.
Print Assumptions refresh_full.

Theorem refresh_axfr_style : forall v z zs table recs ws,
  version_wf v -> v_rest v <> [] -> zone_serial z = Some zs ->
  v_serial v <> zs -> serial_lt (v_serial v) zs = false ->
  find_row table (Some zs) = None -> find_row table None = Some ws ->
  axfr_response v recs -> chunking tIXFR recs ws ->
  exists z', refresh1 z table = Ok (tIXFR, Some zs, Some zs, 0, z')
             /\ zeq z' (zone_of v) /\ zone_serial z' = Some (v_serial v).
Proof. exact XfrRefresh.refresh_axfr_style. Qed.
Print Assumptions refresh_axfr_style.

(* a whole sequence of incremental refreshes: at every step the server answers the serial found in
   the query (which is the serial the zone reached in the previous step) with a valid response
   (refresh_plan): every refresh succeeds and the zone ends up at the server's last version *)
Theorem refreshes_converge : forall v tables vfin, XfrRefresh.refresh_plan v tables vfin ->
  forall z, zeq z (zone_of v) ->
  length (refreshes z tables) = length tables
  /\ Forall XfrRefresh.refresh_ok (refreshes z tables)
  /\ zeq (XfrRefresh.final_zone z (refreshes z tables)) (zone_of vfin).
Proof. exact XfrRefresh.refreshes_converge. Qed.
Print Assumptions refreshes_converge.

(* dns.query.inbound_xfr, udp_mode TRY_FIRST / ONLY: the UDP answer is the bare SOA ("use TCP") *)
Theorem try_first_falls_back : forall v0 chain z tbu tbt wu recs ws,
  chain_ok v0 chain -> zeq z (zone_of v0) ->
  find_row tbu (Some (v_serial v0)) = Some [wu] ->
  header_ok tIXFR wu -> w_records wu = [soa_rr (last chain v0)] ->
  find_row tbt (Some (v_serial v0)) = Some ws ->
  ixfr_response v0 chain recs -> chunking tIXFR recs ws ->
  (exists z', xfr_top z 1 tbu tbt = Ok (0, z') /\ zeq z' (zone_of (last chain v0)))
  /\ xfr_top z 2 tbu tbt = Ok (eUseTCP, z).
Proof. exact XfrRefresh.try_first_falls_back. Qed.
Print Assumptions try_first_falls_back.

(* ---- transfers authenticated with TSIG (Inbound.require_tsig, set by the drivers when a keyring
        is in use; xfr_run true).  TSIG validation itself is outside the model: w_tsig says that the
        message carried a (valid) TSIG. ---- *)

(* the safety theorems above hold for authenticated transfers as well *)
Theorem error_leaves_zone_authenticated : forall req z rdt ser udp ws e z' n,
  xfr_run req z rdt ser udp ws = (Error e z', n) -> z' = z.
Proof. exact XfrSafety.error_leaves_zone_t. Qed.
Print Assumptions error_leaves_zone_authenticated.

(* with require_tsig, a message that carries no TSIG never publishes anything (the defect fixed by
   4883021 was: the unsigned last message committed and "missing TSIG" was raised afterwards) *)
Theorem unsigned_message_never_applies : forall s m s' o,
  req_tsig s = true -> m_tsig m = false ->
  process_message s m = (s', o) -> pub s' = pub s.
Proof. exact XfrSafety.unsigned_message_never_applies. Qed.
Print Assumptions unsigned_message_never_applies.

(* an authenticated transfer only completes on a signed message (the last one processed) *)
Theorem authenticated_completion_is_signed : forall z rdt ser udp ws z' n,
  xfr_run true z rdt ser udp ws = (Done z', n) ->
  exists w, nth_error ws (pred n) = Some w /\ w_tsig w = true.
Proof. exact XfrTsig.authenticated_completion_is_signed. Qed.
Print Assumptions authenticated_completion_is_signed.

(* when every message is signed the authenticated transfer is exactly the unauthenticated one: all
   convergence and rejection theorems of this file carry over *)
Theorem xfr_run_all_signed : forall z rdt ser udp ws,
  Forall (fun w => w_tsig w = true) ws ->
  xfr_run true z rdt ser udp ws = inbound_xfr z rdt ser udp ws.
Proof. exact XfrTsig.xfr_run_all_signed. Qed.
Print Assumptions xfr_run_all_signed.

(* the link to the TSIG model of C14 (coq/Model/TsigM.v): when the had_tsig flags of the transfer's
   messages are those computed by TsigM.read_stream on the envelopes (XfrTsigLink.tsig_linked), the
   envelope that completed an authenticated transfer was accepted by the TSIG reader with a TSIG *)
Theorem completion_envelope_had_tsig :
  forall (H : TsigM.hashid -> TsigM.bytes -> TsigM.bytes -> TsigM.bytes) wires kr rmac now ws z rdt ser udp z' n,
  XfrTsigLink.tsig_linked H wires kr rmac now ws ->
  xfr_run true z rdt ser udp ws = (Done z', n) ->
  exists m, nth_error (TsigM.read_stream H wires kr rmac None now) (pred n) = Some (Ok m)
            /\ TsigM.m_had_tsig m = true.
Proof. exact XfrTsigLink.completion_envelope_had_tsig. Qed.
Print Assumptions completion_envelope_had_tsig.

(* ---- decision tables ---- *)

(* dns.query.inbound_xfr: which transport is used and what is reported, for every query type, UDP mode,
   keyring flag and server behaviour (tcp_outcome = the TCP attempt) *)
Theorem inbound_xfr_decision_table : forall kr z qt s mode tbu tbt,
  ((qt <> tIXFR \/ mode = 0) -> xfr_core kr z qt s mode tbu tbt = XfrRefresh.tcp_outcome kr z qt s tbt) /\
  (qt = tIXFR -> mode <> 0 ->
     let u := fst (xfr_run kr z qt s true (pick tbu s)) in
     (forall z', u = Done z' -> xfr_core kr z qt s mode tbu tbt = Ok (0, z')) /\
     (forall e z', u = Error e z' -> e <> eUseTCP -> xfr_core kr z qt s mode tbu tbt = Ok (e, z')) /\
     (forall z', u = Error eUseTCP z' -> mode = 2 -> xfr_core kr z qt s mode tbu tbt = Ok (eUseTCP, z')) /\
     (forall z', u = Error eUseTCP z' -> mode <> 2 -> xfr_core kr z qt s mode tbu tbt = XfrRefresh.tcp_outcome kr z qt s tbt)).
Proof. exact XfrRefresh.inbound_xfr_decision_table. Qed.
Print Assumptions inbound_xfr_decision_table.

Theorem xfr_core_error_leaves_zone : forall kr z qt s mode tbu tbt c z',
  xfr_core kr z qt s mode tbu tbt = Ok (c, z') -> c <> 0 -> z' = z.
Proof. exact XfrRefresh.xfr_core_error_leaves_zone. Qed.
Print Assumptions xfr_core_error_leaves_zone.

(* dns.xfr.make_query (serial argument None / 0 / n, zone with or without SOA) and
   extract_serial_from_query: the serial read back is the one make_query returned *)
Theorem query_serial_table : forall zs ser,
  match make_query zs ser with
  | Ok (qt, s) =>
      extract_serial (qt, s) = Ok s /\
      match ser with
      | None => qt = tAXFR /\ s = None
      | Some n =>
          if n =? 0 then match zs with
                         | Some z0 => qt = tIXFR /\ s = Some z0
                         | None => qt = tAXFR /\ s = None
                         end
          else qt = tIXFR /\ s = Some n /\ 0 < n < two32
      end
  | Internal _ => exists n, ser = Some n /\ n <> 0 /\ ~ (0 < n < two32)
  | Lib _ => False
  end.
Proof. exact XfrRefresh.query_serial_table. Qed.
Print Assumptions query_serial_table.

(* non-vacuity: concrete instances of the hypotheses *)
Example ex_backwards :
  let w := mkW 0 [(0, tIXFR)] [mkRR 0 1 6 0 3600 5; mkRR 1 1 1 0 300 7] in
  header_ok tIXFR w /\ apex_soa (mkRR 0 1 6 0 3600 5) /\ serial_lt (5 mod two32) 4294967295 = false
  /\ serial_lt (5 mod two32) 9 = true
  /\ inbound_xfr [((0, 6, 0), (3600, [9]))] tIXFR (Some 9) false [w]
     = (Error eBackwards [((0, 6, 0), (3600, [9]))], 0%nat).
Proof. cbv zeta. repeat split; try reflexivity. right. eexists. reflexivity. Qed.

Example ex_error_after_commit_impossible :
  (* surplus record after the final SOA in the same message: rejected, nothing applied *)
  inbound_xfr [] tAXFR None false
    [mkW 0 [] [mkRR 0 1 6 0 3600 2; mkRR 1 1 1 0 5 4; mkRR 0 1 6 0 3600 2; mkRR 1 1 1 0 5 5]]
  = (Error eAfterFinal [], 0%nat).
Proof. reflexivity. Qed.

(* a two-step chain satisfying chain_ok, with a TTL change, a deletion and additions *)
Definition ex_v0 := mkV 3600 (4294967295) [((0, 2, 0), (3600, [1; 2])); ((1, 1, 0), (300, [4; 5]))].
Definition ex_v1 := mkV 3600 0 [((0, 2, 0), (3600, [1; 2])); ((1, 1, 0), (60, [4; 5]))].
Definition ex_v2 := mkV 600 ((1 * two32) + 7) [((0, 2, 0), (3600, [2; 3])); ((2, 16, 0), (0, [9]))].

Example ex_chain_ok : chain_ok ex_v0 [ex_v1; ex_v2].
Proof.
  unfold chain_ok. split; [discriminate|].
  assert (W : forall v, In v [ex_v0; ex_v1; ex_v2] -> version_wf v).
  { intros v [<-|[<-|[<-|[]]]]; (split; [cbv; split; discriminate|]); split;
      repeat constructor; cbv; intuition (try discriminate; try lia). }
  split; [apply W; cbn; auto|].
  split; [constructor; [apply W; cbn; auto|constructor; [apply W; cbn; auto|constructor]]|].
  split; [|reflexivity].
  intros v [<-|[<-|[]]]; cbv; discriminate.
Qed.

Example ex_ixfr_runs :
  fst (inbound_xfr (zone_of ex_v0) tIXFR (Some (v_serial ex_v0)) false
         (map (fun r => mkW 0 [] [r]) (ixfr_stream ex_v0 [ex_v1; ex_v2])))
  = Done ((soakey, (600, [v_soa ex_v2])) :: [((2, 16, 0), (0, [9])); ((0, 2, 0), (3600, [2; 3]))]).
Proof. vm_compute. reflexivity. Qed.

Example ex_version_wf : version_wf ex_v2 /\ v_rest ex_v2 <> [] /\
  chunking tAXFR (axfr_stream ex_v2)
    [mkW 0 [(0, tAXFR)] [soa_rr ex_v2; mkRR 0 1 2 0 3600 2]; mkW 0 [] []; mkW 0 [] [mkRR 0 1 2 0 3600 3; mkRR 2 1 16 0 0 9; soa_rr ex_v2]].
Proof.
  split; [|split; [discriminate|]].
  - split; [cbv; split; discriminate|]. split; repeat constructor; cbv; intuition (try discriminate; try lia).
  - split; [|split; [reflexivity|discriminate]].
    constructor; [split; [reflexivity|right; eexists; reflexivity]|].
    constructor; [split; [reflexivity|left; reflexivity]|].
    constructor; [split; [reflexivity|left; reflexivity]|constructor].
Qed.

(* grouping matters: in the last message the two NS records are one RRset when they arrive *)
Example ex_axfr_runs :
  inbound_xfr [((5, 1, 0), (1, [1]))] tAXFR None false
    [mkW 0 [(0, tAXFR)] [soa_rr ex_v2]; mkW 0 [] [mkRR 0 1 2 0 3600 3; mkRR 2 1 16 0 0 9; mkRR 0 1 2 0 3600 2; soa_rr ex_v2]]
  = (Done [(soakey, (600, [v_soa ex_v2])); ((2, 16, 0), (0, [9])); ((0, 2, 0), (3600, [2; 3]))], 2%nat).
Proof. vm_compute. reflexivity. Qed.

Example ex_response_any_order :
  axfr_response ex_v2 [soa_rr ex_v2; mkRR 2 1 16 0 0 9; mkRR 0 1 2 0 3600 3; mkRR 0 1 2 0 3600 2; mkRR 2 1 16 0 0 9; soa_rr ex_v2].
Proof.
  exists [mkRR 2 1 16 0 0 9; mkRR 0 1 2 0 3600 3; mkRR 0 1 2 0 3600 2; mkRR 2 1 16 0 0 9]. split; [|reflexivity].
  intros r. cbn. intuition.
Qed.

(* the hypotheses of ixfr_bad_delete_rejected hold for a duplicated deletion: ex_v0 -> ex_v1 changes
   the TTL of (a, A), so both A records are deleted; deleting the first one twice fails *)
Example ex_dup_delete :
  let r := mkRR 1 1 1 0 300 4 in
  XfrDiff.dels (zone_of ex_v0) [r] <> None /\
  (forall z1, XfrDiff.dels (zone_of ex_v0) [r] = Some z1 -> XfrZone.del1 (look z1 (rkey r)) (r_data r) = None) /\
  fst (inbound_xfr (zone_of ex_v0) tIXFR (Some (v_serial ex_v0)) false
         [mkW 0 [] [soa_rr ex_v1; soa_rr ex_v0; r; r; mkRR 1 1 1 0 300 5; soa_rr ex_v1]])
  = Error eDeleteNotExact (zone_of ex_v0).
Proof.
  cbv zeta. split; [vm_compute; discriminate|]. split; [|vm_compute; reflexivity].
  intros z1 H. vm_compute in H. inversion H; subst. vm_compute. reflexivity.
Qed.

Example ex_response_with_glue :
  XfrGlue.axfr_response_glue ex_v2
    [soa_rr ex_v2; mkRR (-1) 3 1 0 4294967295 7; mkRR 2 1 16 0 0 9; mkRR 0 1 2 0 3600 3; mkRR (-2) 1 28 0 5 1; mkRR 0 1 2 0 3600 2; soa_rr ex_v2].
Proof.
  exists [mkRR (-1) 3 1 0 4294967295 7; mkRR 2 1 16 0 0 9; mkRR 0 1 2 0 3600 3; mkRR (-2) 1 28 0 5 1; mkRR 0 1 2 0 3600 2].
  split; [|split; [|reflexivity]].
  - assert (P : forall r, In r [mkRR 2 1 16 0 0 9; mkRR 0 1 2 0 3600 3; mkRR 0 1 2 0 3600 2] -> XfrZone.plain r).
    { intros r [<-|[<-|[<-|[]]]]; unfold XfrZone.plain, ttl_ok; cbn; repeat split; try discriminate; lia. }
    constructor; [left; reflexivity|]. constructor; [right; apply P; cbn; auto|].
    constructor; [right; apply P; cbn; auto|]. constructor; [left; reflexivity|].
    constructor; [right; apply P; cbn; auto|constructor].
  - intros r. cbn. intuition.
Qed.

(* a refresh plan ex_v0 -> ex_v1 -> ex_v2 in two refreshes, and what the model computes for it *)
Lemma ex_wf : forall v, In v [ex_v0; ex_v1; ex_v2] -> version_wf v.
Proof.
  intros v [<-|[<-|[<-|[]]]]; (split; [cbv; split; discriminate|]); split;
    repeat constructor; cbv; intuition (try discriminate; try lia).
Qed.

Definition ex_msgs (l : list rr) : list wmsg := map (fun r => mkW 0 [] [r]) l.

Lemma ex_chunking : forall l, l <> [] -> chunking tIXFR l (ex_msgs l).
Proof.
  intros l Hl. split; [|split].
  - unfold ex_msgs. apply Forall_forall. intros w Hw. apply in_map_iff in Hw. destruct Hw as [r [<- _]].
    split; [reflexivity|left; reflexivity].
  - unfold ex_msgs. induction l as [|r l IH]; [reflexivity|]. cbn. f_equal.
    destruct l; [reflexivity|]. apply IH. discriminate.
  - destruct l; [congruence|]. cbn. discriminate.
Qed.

Example ex_refresh_plan :
  XfrRefresh.refresh_plan ex_v0
    [ [(Some (v_serial ex_v0), ex_msgs (ixfr_stream ex_v0 [ex_v1]))];
      [(Some (v_serial ex_v0), []); (Some (v_serial ex_v1), ex_msgs (ixfr_stream ex_v1 [ex_v2]))] ]
    ex_v2.
Proof.
  assert (C01 : chain_ok ex_v0 [ex_v1]).
  { split; [discriminate|]. split; [apply ex_wf; cbn; auto|].
    split; [constructor; [apply ex_wf; cbn; auto|constructor]|]. split; [|reflexivity].
    intros v [<-|[]]; cbv; discriminate. }
  assert (C12 : chain_ok ex_v1 [ex_v2]).
  { split; [discriminate|]. split; [apply ex_wf; cbn; auto|].
    split; [constructor; [apply ex_wf; cbn; auto|constructor]|]. split; [|reflexivity].
    intros v [<-|[]]; cbv; discriminate. }
  eapply XfrRefresh.rp_cons with (chain := [ex_v1]) (recs := ixfr_stream ex_v0 [ex_v1]).
  - exact C01.
  - reflexivity.
  - eexists. split; [apply XfrOrder.ixfr_seqs_canonical|reflexivity].
  - apply ex_chunking. discriminate.
  - eapply XfrRefresh.rp_cons with (chain := [ex_v2]) (recs := ixfr_stream ex_v1 [ex_v2]).
    + exact C12.
    + reflexivity.
    + eexists. split; [apply XfrOrder.ixfr_seqs_canonical|reflexivity].
    + apply ex_chunking. discriminate.
    + apply XfrRefresh.rp_nil.
Qed.

(* an authenticated AXFR whose last message is unsigned: rejected before anything is committed *)
Example ex_missing_tsig :
  xfr_run true [((5, 1, 0), (1, [1]))] tAXFR None false
    [mkWT 0 [] [soa_rr ex_v2; mkRR 0 1 2 0 3600 3] true; mkWT 0 [] [mkRR 2 1 16 0 0 9; mkRR 0 1 2 0 3600 2; soa_rr ex_v2] false]
  = (Error eMissingTSIG [((5, 1, 0), (1, [1]))], 1%nat).
Proof. vm_compute. reflexivity. Qed.

(* "only as good as the stream": the last add-section SOA duplicated, with a message boundary right
   after the duplicate, is a well-formed response for ANOTHER target (empty last addition section);
   the transfer completes with that zone - it cannot be detected *)
Example ex_dup_last_addstart_undetectable :
  fst (inbound_xfr (zone_of ex_v0) tIXFR (Some (v_serial ex_v0)) false
         [mkW 0 [] [soa_rr ex_v1; soa_rr ex_v0; mkRR 1 1 1 0 300 4; mkRR 1 1 1 0 300 5; soa_rr ex_v1; soa_rr ex_v1];
          mkW 0 [] [mkRR 1 1 1 0 60 4; mkRR 1 1 1 0 60 5; soa_rr ex_v1]])
  = Done [(soakey, (3600, [v_soa ex_v1])); ((0, 2, 0), (3600, [1; 2]))].
Proof. vm_compute. reflexivity. Qed.


(* ==== versions of ANY content: singleton types (CNAME, DNAME, NSEC: one rdata), CNAME-kind RRsets, names that
        change between a CNAME and other data from one version to the next.  The only demand on a version is
        RFC 1034 3.6.2 "CNAME and other data" (no node holds a CNAME-kind and a regular RRset), which the
        library enforces itself in dns/node.py (Node._append_rdataset, modelled by node_put).  ==== *)
Theorem ixfr_converges_general : forall v0 chain z0 ws,
  XfrGeneral.chain_ok_g v0 chain -> zeq z0 (zone_of v0) -> chunking tIXFR (ixfr_stream v0 chain) ws ->
  exists z' n, inbound_xfr z0 tIXFR (Some (v_serial v0)) false ws = (Done z', n)
               /\ zeq z' (zone_of (last chain v0)).
Proof. exact XfrGeneral.ixfr_converges_general. Qed.
Print Assumptions ixfr_converges_general.

Theorem axfr_converges_general : forall v z0 ser ws,
  XfrGeneral.version_wf_g v -> chunking tAXFR (axfr_stream v) ws ->
  exists z' n, inbound_xfr z0 tAXFR ser false ws = (Done z', n) /\ zeq z' (zone_of v).
Proof. exact XfrGeneralAxfr.axfr_converges_general. Qed.
Print Assumptions axfr_converges_general.

Theorem axfr_style_ixfr_converges_general : forall v z0 ser ws,
  XfrGeneral.version_wf_g v -> v_rest v <> [] ->
  v_serial v <> ser -> serial_lt (v_serial v) ser = false ->
  chunking tIXFR (axfr_stream v) ws ->
  exists z' n, inbound_xfr z0 tIXFR (Some ser) false ws = (Done z', n) /\ zeq z' (zone_of v).
Proof. exact XfrGeneral.axfr_style_ixfr_converges_general. Qed.
Print Assumptions axfr_style_ixfr_converges_general.

Theorem udp_ixfr_general : forall v0 chain z0 w,
  XfrGeneral.chain_ok_g v0 chain -> zeq z0 (zone_of v0) ->
  header_ok tIXFR w -> w_records w = ixfr_stream v0 chain ->
  exists z', inbound_xfr z0 tIXFR (Some (v_serial v0)) true [w] = (Done z', 1%nat)
             /\ zeq z' (zone_of (last chain v0)).
Proof. exact XfrGeneral.udp_ixfr_general. Qed.
Print Assumptions udp_ixfr_general.

(* "ends early", versions of any content: every proper prefix of the stream in any division into messages *)
Theorem ixfr_early_end_rejected_general : forall v0 chain z0 ws q,
  XfrGeneral.chain_ok_g v0 chain -> zeq z0 (zone_of v0) ->
  Forall (header_ok tIXFR) ws -> q <> [] ->
  concat (map w_records ws) ++ q = ixfr_stream v0 chain ->
  exists e n, inbound_xfr z0 tIXFR (Some (v_serial v0)) false ws = (Error e z0, n).
Proof. exact XfrGeneral.ixfr_early_end_rejected_general. Qed.
Print Assumptions ixfr_early_end_rejected_general.

Theorem axfr_early_end_rejected_general : forall v z0 ser ws q,
  XfrGeneral.version_wf_g v -> Forall (header_ok tAXFR) ws -> q <> [] ->
  concat (map w_records ws) ++ q = axfr_stream v ->
  exists e n, inbound_xfr z0 tAXFR ser false ws = (Error e z0, n).
Proof. exact XfrGeneralAxfr.axfr_early_end_rejected_general. Qed.
Print Assumptions axfr_early_end_rejected_general.

(* versions of any content, the records of every section / of the body in any order (no repetitions) *)
Theorem ixfr_converges_general_any_order : forall v0 chain z0 recs ws,
  XfrGeneral.chain_ok_g v0 chain -> zeq z0 (zone_of v0) -> XfrGeneralOrder.ixfr_response_p v0 chain recs ->
  chunking tIXFR recs ws ->
  exists z' n, inbound_xfr z0 tIXFR (Some (v_serial v0)) false ws = (Done z', n)
               /\ zeq z' (zone_of (last chain v0)).
Proof. exact XfrGeneralOrder.ixfr_converges_general_any_order. Qed.
Print Assumptions ixfr_converges_general_any_order.

Theorem axfr_converges_general_any_order : forall v z0 ser B ws,
  XfrGeneral.version_wf_g v -> Permutation B (body (v_rest v)) ->
  chunking tAXFR (soa_rr v :: B ++ [soa_rr v]) ws ->
  exists z' n, inbound_xfr z0 tAXFR ser false ws = (Done z', n) /\ zeq z' (zone_of v).
Proof. exact XfrGeneralOrder.axfr_converges_general_any_order. Qed.
Print Assumptions axfr_converges_general_any_order.

(* the general forms subsume the restricted ones *)
Theorem general_covers_restricted : forall v0 chain, chain_ok v0 chain -> XfrGeneral.chain_ok_g v0 chain.
Proof. exact XfrGeneral.chain_ok_ok_g. Qed.
Print Assumptions general_covers_restricted.

(* name 1: CNAME + RRSIG(CNAME) + NSEC, name 2: two A records  --->
   name 1: A + NSEC (other rdata), name 2: CNAME, name 3: DNAME *)
Definition ex_c0 := mkV 3600 10
  [((0, 2, 0), (3600, [1])); ((1, 5, 0), (300, [4])); ((1, 46, 5), (300, [1])); ((1, 47, 0), (60, [2])); ((2, 1, 0), (60, [1; 2]))].
Definition ex_c1 := mkV 3600 11
  [((0, 2, 0), (3600, [1])); ((1, 1, 0), (300, [7])); ((1, 47, 0), (60, [3])); ((2, 5, 0), (60, [9])); ((3, 39, 0), (60, [1]))].

Example ex_general_chain_ok : XfrGeneral.chain_ok_g ex_c0 [ex_c1] /\ ~ version_wf ex_c0.
Proof.
  split.
  - assert (W : forall v, In v [ex_c0; ex_c1] -> XfrGeneral.version_wf_g v).
    { intros v [<-|[<-|[]]]; (split; [cbv; split; discriminate|]); (split; [|split]);
        try (apply XfrGeneral.consistent_check; vm_compute; reflexivity);
        try (split; repeat constructor; cbv; intuition (try discriminate; try lia));
        repeat constructor; cbv; intros; try discriminate; eexists; reflexivity. }
    split; [discriminate|]. split; [apply W; cbn; auto|]. split; [constructor; [apply W; cbn; auto|constructor]|].
    split; [|vm_compute; reflexivity].
    intros v [<-|[]]. vm_compute. discriminate.
  - intros [_ [_ Hf]]. inversion Hf as [|? ? _ Hf1]; subst. inversion Hf1 as [|? ? He _]; subst.
    cbn in He. destruct He as (_ & _ & _ & _ & _ & Hs & _). discriminate.
Qed.

Example ex_general_ixfr_runs :
  fst (inbound_xfr (zone_of ex_c0) tIXFR (Some (v_serial ex_c0)) false
         (map (fun r => mkW 0 [] [r]) (ixfr_stream ex_c0 [ex_c1])))
  = Done [(soakey, (3600, [11])); ((3, 39, 0), (60, [1])); ((2, 5, 0), (60, [9])); ((1, 47, 0), (60, [3]));
          ((1, 1, 0), (300, [7])); ((0, 2, 0), (3600, [1]))].
Proof. vm_compute. reflexivity. Qed.

(* why "CNAME and other data" is demanded of the server's version: a body with a CNAME and an A record at
   one node is accepted, and the zone holds whichever came last - not the server's version *)
Example ex_cname_and_other_data_last_wins :
  fst (inbound_xfr [] tAXFR None false
         [mkW 0 [] [mkRR 0 1 6 0 3600 5; mkRR 1 1 5 0 300 4; mkRR 1 1 1 0 300 7; mkRR 0 1 6 0 3600 5]])
  = Done [(soakey, (3600, [5])); ((1, 1, 0), (300, [7]))]
  /\ fst (inbound_xfr [] tAXFR None false
         [mkW 0 [] [mkRR 0 1 6 0 3600 5; mkRR 1 1 1 0 300 7; mkRR 1 1 5 0 300 4; mkRR 0 1 6 0 3600 5]])
  = Done [(soakey, (3600, [5])); ((1, 5, 0), (300, [4]))].
Proof. split; vm_compute; reflexivity. Qed.


(* ==== the older API: dns.zone.from_xfr(dns.query.xfr(...)) ==== *)
Theorem legacy_axfr_converges : forall v ws,
  version_wf v -> look (v_rest v) (origin, 2, 0) <> None ->
  chunking tAXFR (axfr_stream v) ws ->
  exists z, legacy_axfr ws = Ok z /\ zeq z (zone_of v).
Proof. exact XfrLegacy.legacy_axfr_converges. Qed.
Print Assumptions legacy_axfr_converges.

Example ex_legacy_runs :
  legacy_axfr [mkW 0 [(0, tAXFR)] [soa_rr ex_v2]; mkW 0 [] [mkRR 0 1 2 0 3600 3; mkRR (-1) 1 1 0 300 7; mkRR 2 1 16 0 0 9];
               mkW 0 [] [mkRR 0 1 2 0 3600 2; soa_rr ex_v2]; mkW 0 [] [mkRR 5 1 1 0 1 1]]
  = Ok [(soakey, (600, [v_soa ex_v2])); ((0, 2, 0), (3600, [2; 3])); ((2, 16, 0), (0, [9])); ((-1, 1, 0), (300, [7]))].
Proof. vm_compute. reflexivity. Qed.


(* ==== inversion: what a COMPLETED transfer implies about the stream that was read (vocabulary wire_rec: apex
        SOA records of class IN, ordinary in-zone records, out-of-zone records) ==== *)
Theorem ixfr_done_is_denotation : forall fin z0 ser ws rest z' n,
  XfrZone.quiet z0 -> ttl_ok (v_ttl fin) -> v_serial fin <> ser -> serial_lt (v_serial fin) ser = false ->
  chunking tIXFR (soa_rr fin :: rest) ws -> Forall XfrInversion.wire_rec rest ->
  match rest with x :: _ => exists b, x = soa_rr b /\ ttl_ok (v_ttl b) | [] => True end ->
  inbound_xfr z0 tIXFR (Some ser) false ws = (Done z', n) ->
  exists secs z1 b extra,
    rest = XfrSections.secs_stream secs ++ soa_rr b :: extra /\ secs <> [] /\ XfrSections.skel_ok ser fin secs /\
    XfrSections.end_serial ser secs = v_serial fin /\ v_soa b = v_soa fin /\ XfrSections.apply_secs z0 secs = Some z1 /\
    z' = zput soakey (v_ttl b, [v_soa b]) z1.
Proof. exact XfrInversion.ixfr_done_is_denotation. Qed.
Print Assumptions ixfr_done_is_denotation.

Theorem axfr_style_done_is_denotation : forall fin z0 ser ws x rest z' n,
  ttl_ok (v_ttl fin) -> v_serial fin <> ser -> serial_lt (v_serial fin) ser = false ->
  chunking tIXFR (soa_rr fin :: x :: rest) ws -> XfrGlue.okrec x -> Forall XfrInversion.wire_rec rest ->
  inbound_xfr z0 tIXFR (Some ser) false ws = (Done z', n) ->
  exists B b extra,
    x :: rest = B ++ soa_rr b :: extra /\ B <> [] /\ Forall XfrGlue.okrec B /\ v_soa b = v_soa fin /\
    z' = zput soakey (v_ttl b, [v_soa b]) (XfrDiff.adds [] (XfrGlue.erase B)).
Proof. exact XfrInversion.axfr_style_done_is_denotation. Qed.
Print Assumptions axfr_style_done_is_denotation.

Theorem axfr_done_is_denotation : forall fin z0 ser ws rest z' n,
  chunking tAXFR (soa_rr fin :: rest) ws -> Forall XfrInversion.wire_rec rest ->
  inbound_xfr z0 tAXFR ser false ws = (Done z', n) ->
  exists B b extra,
    rest = B ++ soa_rr b :: extra /\ Forall XfrGlue.okrec B /\ v_soa b = v_soa fin /\
    zeq z' (zput soakey (v_ttl b, [v_soa b]) (XfrDiff.adds [] (XfrGlue.erase B))).
Proof. exact XfrInversion.axfr_done_is_denotation. Qed.
Print Assumptions axfr_done_is_denotation.

(* the single-fault lemma in its strongest form *)
Theorem ixfr_outcome_dichotomy : forall fin z0 ser ws rest,
  XfrZone.quiet z0 -> ttl_ok (v_ttl fin) -> v_serial fin <> ser -> serial_lt (v_serial fin) ser = false ->
  chunking tIXFR (soa_rr fin :: rest) ws -> Forall XfrInversion.wire_rec rest ->
  match rest with x :: _ => exists b, x = soa_rr b /\ ttl_ok (v_ttl b) | [] => True end ->
  (exists e n, inbound_xfr z0 tIXFR (Some ser) false ws = (Error e z0, n)) \/
  (exists secs z1 b extra n,
     inbound_xfr z0 tIXFR (Some ser) false ws = (Done (zput soakey (v_ttl b, [v_soa b]) z1), n) /\
     rest = XfrSections.secs_stream secs ++ soa_rr b :: extra /\ secs <> [] /\ XfrSections.skel_ok ser fin secs /\
     XfrSections.end_serial ser secs = v_serial fin /\ v_soa b = v_soa fin /\ XfrSections.apply_secs z0 secs = Some z1).
Proof. exact XfrInversion.ixfr_outcome_dichotomy. Qed.
Print Assumptions ixfr_outcome_dichotomy.

(* every way an IXFR request can complete over TCP: up to date / difference sequences / the whole zone *)
Theorem ixfr_done_classification : forall fin z0 ser ws rest z' n,
  XfrZone.quiet z0 -> ttl_ok (v_ttl fin) ->
  chunking tIXFR (soa_rr fin :: rest) ws -> Forall XfrInversion.wire_rec rest ->
  inbound_xfr z0 tIXFR (Some ser) false ws = (Done z', n) ->
  (v_serial fin = ser /\ z' = z0) \/
  (v_serial fin <> ser /\ exists secs z1 b extra,
     rest = XfrSections.secs_stream secs ++ soa_rr b :: extra /\ secs <> [] /\ XfrSections.skel_ok ser fin secs /\
     XfrSections.end_serial ser secs = v_serial fin /\ v_soa b = v_soa fin /\ XfrSections.apply_secs z0 secs = Some z1 /\
     z' = zput soakey (v_ttl b, [v_soa b]) z1) \/
  (v_serial fin <> ser /\ exists B b extra,
     rest = B ++ soa_rr b :: extra /\ B <> [] /\ Forall XfrGlue.okrec B /\ v_soa b = v_soa fin /\
     z' = zput soakey (v_ttl b, [v_soa b]) (XfrDiff.adds [] (XfrGlue.erase B))).
Proof. exact XfrInversion.ixfr_done_classification. Qed.
Print Assumptions ixfr_done_classification.

Theorem udp_ixfr_done_is_denotation : forall fin z0 ser w ws rest z' n,
  XfrZone.quiet z0 -> ttl_ok (v_ttl fin) -> v_serial fin <> ser ->
  header_ok tIXFR w -> w_records w = soa_rr fin :: rest -> Forall XfrInversion.wire_rec rest ->
  match rest with x :: _ => exists b, x = soa_rr b /\ ttl_ok (v_ttl b) | [] => True end ->
  inbound_xfr z0 tIXFR (Some ser) true (w :: ws) = (Done z', n) ->
  exists secs z1 b,
    rest = XfrSections.secs_stream secs ++ [soa_rr b] /\ secs <> [] /\ XfrSections.skel_ok ser fin secs /\
    XfrSections.end_serial ser secs = v_serial fin /\ v_soa b = v_soa fin /\ XfrSections.apply_secs z0 secs = Some z1 /\
    z' = zput soakey (v_ttl b, [v_soa b]) z1.
Proof. exact XfrInversion.udp_ixfr_done_is_denotation. Qed.
Print Assumptions udp_ixfr_done_is_denotation.

(* the inversion with NO restriction on the records (any class, type, TTL; apex SOA records in canonical form)
   and on the client zone; the denotation is stated with the transaction operations themselves:
   m_del / m_add = delete_exact / add of one record (out-of-zone records skipped), m_soa = replace of the SOA *)
Theorem ixfr_done_is_denotation_any : forall fin z0 ser ws rest z' n,
  ttl_ok (v_ttl fin) -> v_serial fin <> ser -> serial_lt (v_serial fin) ser = false ->
  chunking tIXFR (soa_rr fin :: rest) ws -> Forall XfrInversionGen.any_rec rest ->
  match rest with x :: _ => exists b, x = soa_rr b /\ ttl_ok (v_ttl b) | [] => True end ->
  inbound_xfr z0 tIXFR (Some ser) false ws = (Done z', n) ->
  exists secs z1 b extra,
    rest = XfrSections.secs_stream secs ++ soa_rr b :: extra /\ secs <> [] /\ XfrInversionGen.skel_g ser fin secs /\
    XfrSections.end_serial ser secs = v_serial fin /\ v_soa b = v_soa fin /\
    XfrInversionGen.m_secs z0 secs = Ok z1 /\ XfrInversionGen.m_soa z1 b = Ok z'.
Proof. exact XfrInversionGen.ixfr_done_is_denotation_any. Qed.
Print Assumptions ixfr_done_is_denotation_any.

(* ... and conversely (so, for streams whose final SOA is the last record of its message, a proper IXFR completes
   IF AND ONLY IF the stream has this form and every operation succeeds, and the zone is then the result) *)
Theorem ixfr_sections_applied_any : forall fin secs z0 z1 z' ser ws,
  secs <> [] -> XfrInversionGen.skel_g ser fin secs -> XfrSections.end_serial ser secs = v_serial fin ->
  v_serial fin <> ser -> serial_lt (v_serial fin) ser = false ->
  XfrInversionGen.m_secs z0 secs = Ok z1 -> XfrInversionGen.m_soa z1 fin = Ok z' ->
  chunking tIXFR (soa_rr fin :: XfrSections.secs_stream secs ++ [soa_rr fin]) ws ->
  exists n, inbound_xfr z0 tIXFR (Some ser) false ws = (Done z', n).
Proof. exact XfrInversionGen.ixfr_sections_applied_any. Qed.
Print Assumptions ixfr_sections_applied_any.

Theorem axfr_outcome_dichotomy : forall fin z0 ser ws rest,
  chunking tAXFR (soa_rr fin :: rest) ws -> Forall XfrInversion.wire_rec rest ->
  (exists e n, inbound_xfr z0 tAXFR ser false ws = (Error e z0, n)) \/
  (exists B b extra z' n,
     inbound_xfr z0 tAXFR ser false ws = (Done z', n) /\
     rest = B ++ soa_rr b :: extra /\ Forall XfrGlue.okrec B /\ v_soa b = v_soa fin /\
     zeq z' (zput soakey (v_ttl b, [v_soa b]) (XfrDiff.adds [] (XfrGlue.erase B)))).
Proof. exact XfrInversion.axfr_outcome_dichotomy. Qed.
Print Assumptions axfr_outcome_dichotomy.

Theorem ixfr_outcome_dichotomy_any : forall fin z0 ser ws rest,
  ttl_ok (v_ttl fin) -> v_serial fin <> ser -> serial_lt (v_serial fin) ser = false ->
  chunking tIXFR (soa_rr fin :: rest) ws -> Forall XfrInversionGen.any_rec rest ->
  match rest with x :: _ => exists b, x = soa_rr b /\ ttl_ok (v_ttl b) | [] => True end ->
  (exists e n, inbound_xfr z0 tIXFR (Some ser) false ws = (Error e z0, n)) \/
  (exists secs z1 b extra z' n,
     inbound_xfr z0 tIXFR (Some ser) false ws = (Done z', n) /\
     rest = XfrSections.secs_stream secs ++ soa_rr b :: extra /\ secs <> [] /\ XfrInversionGen.skel_g ser fin secs /\
     XfrSections.end_serial ser secs = v_serial fin /\ v_soa b = v_soa fin /\
     XfrInversionGen.m_secs z0 secs = Ok z1 /\ XfrInversionGen.m_soa z1 b = Ok z').
Proof. exact XfrInversionGen.ixfr_outcome_dichotomy_any. Qed.
Print Assumptions ixfr_outcome_dichotomy_any.


(* ==== refreshing a zone of any content (the refresh theorems for general versions) ==== *)
Theorem refresh_converges_general : forall v0 chain z table recs ws,
  XfrGeneral.chain_ok_g v0 chain -> zeq z (zone_of v0) ->
  find_row table (Some (v_serial v0)) = Some ws ->
  XfrGeneralOrder.ixfr_response_p v0 chain recs -> chunking tIXFR recs ws ->
  exists z', refresh1 z table = Ok (tIXFR, Some (v_serial v0), Some (v_serial v0), 0, z')
             /\ zeq z' (zone_of (last chain v0))
             /\ zone_serial z' = Some (v_serial (last chain v0)).
Proof. exact XfrRefreshGen.refresh_converges_general. Qed.
Print Assumptions refresh_converges_general.

Theorem refresh_full_general : forall v z table B ws,
  XfrGeneral.version_wf_g v -> zone_serial z = None ->
  find_row table None = Some ws ->
  Permutation B (body (v_rest v)) -> chunking tAXFR (soa_rr v :: B ++ [soa_rr v]) ws ->
  exists z', refresh1 z table = Ok (tAXFR, None, None, 0, z')
             /\ zeq z' (zone_of v) /\ zone_serial z' = Some (v_serial v).
Proof. exact XfrRefreshGen.refresh_full_general. Qed.
Print Assumptions refresh_full_general.

Theorem refresh_axfr_style_general : forall v z zs table ws,
  XfrGeneral.version_wf_g v -> v_rest v <> [] -> zone_serial z = Some zs ->
  v_serial v <> zs -> serial_lt (v_serial v) zs = false ->
  find_row table (Some zs) = None -> find_row table None = Some ws ->
  chunking tIXFR (axfr_stream v) ws ->
  exists z', refresh1 z table = Ok (tIXFR, Some zs, Some zs, 0, z')
             /\ zeq z' (zone_of v) /\ zone_serial z' = Some (v_serial v).
Proof. exact XfrRefreshGen.refresh_axfr_style_general. Qed.
Print Assumptions refresh_axfr_style_general.

Theorem refreshes_converge_general : forall v tables vfin, XfrRefreshGen.refresh_plan_g v tables vfin ->
  forall z, zeq z (zone_of v) ->
  length (refreshes z tables) = length tables
  /\ Forall XfrRefresh.refresh_ok (refreshes z tables)
  /\ zeq (XfrRefresh.final_zone z (refreshes z tables)) (zone_of vfin).
Proof. exact XfrRefreshGen.refreshes_converge_general. Qed.
Print Assumptions refreshes_converge_general.

Theorem try_first_falls_back_general : forall v0 chain z tbu tbt wu recs ws,
  XfrGeneral.chain_ok_g v0 chain -> zeq z (zone_of v0) ->
  find_row tbu (Some (v_serial v0)) = Some [wu] ->
  header_ok tIXFR wu -> w_records wu = [soa_rr (last chain v0)] ->
  find_row tbt (Some (v_serial v0)) = Some ws ->
  XfrGeneralOrder.ixfr_response_p v0 chain recs -> chunking tIXFR recs ws ->
  (exists z', xfr_top z 1 tbu tbt = Ok (0, z') /\ zeq z' (zone_of (last chain v0)))
  /\ xfr_top z 2 tbu tbt = Ok (eUseTCP, z).
Proof. exact XfrRefreshGen.try_first_falls_back_general. Qed.
Print Assumptions try_first_falls_back_general.
