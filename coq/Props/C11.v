(* C11 - versioned readers see one snapshot; version retention is sound.
   Model: Model/VersM.v (dns/versioned.py Zone bookkeeping).  `after ops` is the state reached from a
   new zone by ANY list of operations (reader open by latest/id/serial, reader end, writer begin /
   replace / delete / commit / rollback, set_max_versions, set_pruning_policy with an arbitrary
   policy function); failing operations leave the state unchanged, as in the code. *)
From DV Require Import Base.Prelude Model.VersM Proofs.VersInv Proofs.VersThms.
From Coq Require Import Sorting.Sorted.
Import VersM.

(* version ids strictly increase over the whole history (hist = every version ever committed),
   and history is append-only *)
Theorem ids_strictly_increase : forall ops1 ops2,
  StronglySorted Z.lt (map vid (hist (after (ops1 ++ ops2)))) /\
  exists new, hist (after (ops1 ++ ops2)) = hist (after ops1) ++ new.
Proof. exact T_ids_strictly_increase. Qed.
Print Assumptions ids_strictly_increase.

Theorem commit_id_fresh : forall ops s' r w,
  wtxn (after ops) = Some w -> wchanged w = true -> step (after ops) WCommit = Ok (s', r) ->
  hist s' = hist (after ops) ++ [mkV (wid w) (wcont w)] /\ forall v, In v (hist (after ops)) -> vid v < wid w.
Proof. exact T_commit_id_fresh. Qed.
Print Assumptions commit_id_fresh.

(* the retained versions are a contiguous run of history: a suffix ... *)
Theorem retained_contiguous_suffix : forall ops,
  exists dropped, hist (after ops) = dropped ++ versions (after ops).
Proof. exact T_retained_contiguous_suffix. Qed.
Print Assumptions retained_contiguous_suffix.

(* ... that contains the newest version ... *)
Theorem newest_retained : forall ops,
  exists v, last_opt (versions (after ops)) = Some v /\ last_opt (hist (after ops)) = Some v.
Proof. exact T_newest_retained. Qed.
Print Assumptions newest_retained.

(* ... and every version pinned by an open reader *)
Theorem pinned_retained : forall ops r,
  In r (readers (after ops)) -> exists v, In v (versions (after ops)) /\ vid v = rvid r.
Proof. exact T_pinned_retained. Qed.
Print Assumptions pinned_retained.

(* and is otherwise exactly what the policy allows: nothing prunable is ever left (the oldest
   retained version is the newest, or pinned, or refused by the policy) ... *)
Theorem prune_maximal : forall ops v rest,
  versions (after ops) = v :: rest ->
  rest = [] \/ (exists r, In r (readers (after ops)) /\ rvid r <= vid v) \/
  policy (after ops) (versions (after ops)) v = false.
Proof. exact T_prune_maximal. Qed.
Print Assumptions prune_maximal.

(* ... and nothing is dropped that the policy wanted to keep: every operation either leaves the
   deque alone or removes exactly what the pruning loop removes (`pruned`: oldest first, each below
   least_kept and approved by the policy on the deque as it was then) *)
Theorem prune_sound : forall ops o s' r,
  step (after ops) o = Ok (s', r) ->
  versions s' = versions (after ops) \/
  exists vs0 least,
    (vs0 = versions (after ops) \/
     exists nv, vs0 = versions (after ops) ++ [nv] /\ hist s' = hist (after ops) ++ [nv]) /\
    least_kept vs0 (readers s') = Ok least /\ pruned (policy s') least vs0 (versions s').
Proof. exact T_prune_sound. Qed.
Print Assumptions prune_sound.

(* a reader is opened on the version that is current (or the one requested by id / serial) ... *)
Theorem open_reads_requested : forall ops o s' h i c,
  step (after ops) o = Ok (s', ROpened h i c) ->
  read s' h = Some c /\
  exists v, In v (versions (after ops)) /\ vid v = i /\ vcont v = c /\
    match o with
    | OpenLatest => last_opt (versions (after ops)) = Some v
    | OpenId j => i = j
    | OpenSerial x => serial_of c = Some x
    | _ => False
    end.
Proof. exact T_open_reads_requested. Qed.
Print Assumptions open_reads_requested.

(* reader(serial=) opens the newest retained version carrying that serial *)
Theorem open_serial_newest : forall ops x s' h i c,
  step (after ops) (OpenSerial x) = Ok (s', ROpened h i c) ->
  forall v', In v' (versions (after ops)) -> serial_of (vcont v') = Some x -> vid v' <= i.
Proof. exact T_open_serial_newest. Qed.
Print Assumptions open_serial_newest.

(* ... and reads that same content for its whole life, whatever happens meanwhile *)
Theorem snapshot_stable : forall ops1 ops2 h c,
  read (after ops1) h = Some c -> ~ In (Close h) ops2 -> read (after (ops1 ++ ops2)) h = Some c.
Proof. exact T_snapshot_stable. Qed.
Print Assumptions snapshot_stable.

(* the asserts / deque[0] / deque[-1] / min() of the code never fail in any history *)
Theorem no_internal_error : forall ops o e, step (after ops) o <> Internal e.
Proof. exact T_no_internal_error. Qed.
Print Assumptions no_internal_error.

(* ---- non-vacuity: a history with pinned readers, pruning and a policy change *)
Definition ex_ops : list op :=
  [ WBegin true; WPut 0 1; WPut 2 5; WCommit;            (* version 2, serial 1 *)
    OpenLatest;                                          (* reader 0 on version 2 *)
    WBegin false; WPut 2 6; WPut 0 2; WCommit;           (* version 3 *)
    OpenSerial 2;                                        (* reader 1 on version 3 *)
    WBegin false; WDel 2; WCommit;                       (* version 4 *)
    SetMax (Some 2); Close 0;                            (* version 2 goes *)
    WBegin false; WPut 3 1; WCommit ].                   (* version 5; version 3 pinned by reader 1 *)

Example ex_retained : map vid (versions (after ex_ops)) = [3; 4; 5] /\
                      map vid (hist (after ex_ops)) = [1; 2; 3; 4; 5].
Proof. vm_compute. split; reflexivity. Qed.

Example ex_reader_pinned : read (after ex_ops) 1 = Some [(0, 2); (2, 6)] /\
                           readers (after ex_ops) = [mkR 1 3].
Proof. vm_compute. split; reflexivity. Qed.

Example ex_snapshot_hyp : read (after (firstn 10 ex_ops)) 1 = Some [(0, 2); (2, 6)] /\
                          ~ In (Close 1) (skipn 10 ex_ops).
Proof.
  split; [vm_compute; reflexivity|].
  cbn. intros H. repeat (destruct H as [H|H]; [discriminate H|]). exact H.
Qed.

Example ex_open_hyp : exists s', step (after (firstn 9 ex_ops)) (OpenSerial 2) = Ok (s', ROpened 1 3 [(0, 2); (2, 6)]).
Proof. eexists. vm_compute. reflexivity. Qed.

Example ex_commit_hyp : exists w, wtxn (after (firstn 8 ex_ops)) = Some w /\ wchanged w = true /\ wid w = 3.
Proof. eexists. vm_compute. repeat split; reflexivity. Qed.

(* the policy disjunct of prune_maximal is really used: with set_max_versions(None) nothing is pruned *)
Example ex_policy_keeps :
  let s := after [SetMax None; WBegin false; WPut 2 1; WCommit; WBegin false; WPut 2 2; WCommit] in
  map vid (versions s) = [1; 2; 3] /\ readers s = [] /\ policy s (versions s) (mkV 1 []) = false.
Proof. vm_compute. repeat split; reflexivity. Qed.
