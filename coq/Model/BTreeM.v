(* C19 - value-level model of dns/btree.py (BTree, _Node, Cursor, BTreeDict, BTreeSet).
   Definitions only.  The functions mirror the Python methods branch by branch; every Python
   partial operation (list indexing, pop, assert) is explicit and yields `Internal`.
   Mutation in place of a node that lives inside its parent is modelled by rebuilding the
   parent (value semantics); aliasing / copy-on-write is the subject of Model/BTreeStoreM.v. *)
From DV Require Import Base.Prelude.

(* exception codes *)
Definition eIndex : Z := 1.         (* IndexError *)
Definition eAssert : Z := 2.        (* AssertionError *)
Definition eFuel : Z := 3.          (* model recursion budget exhausted (never, see Proofs) *)
Definition eMismatch : Z := 4.      (* ValueError("exact delete did not match existing elt") *)
Definition eNoMatch : Z := 5.       (* ValueError("exact delete had no match") *)
Definition eKey : Z := 6.           (* KeyError *)
Definition eNotImmutable : Z := 7.  (* ValueError("original BTree is not immutable") *)
Definition eBadT : Z := 8.          (* ValueError("t must be >= 3") *)
Definition eImmutable : Z := 10.    (* dns.btree.Immutable *)
Definition eBadCase : Z := 999.

(* an element: key and the identity of the element object (the harness gives every element
   object a distinct number; BTreeDict values are those numbers) *)
Notation elt := (Z * Z)%type.

Inductive tree := Node (leaf : bool) (elts : list elt) (kids : list tree).

Definition t_min (t : nat) : nat := t - 1.
Definition t_max (t : nat) : nat := 2 * t - 1.

Definition n_leaf (n : tree) := let '(Node lf _ _) := n in lf.
Definition n_elts (n : tree) := let '(Node _ es _) := n in es.
Definition n_kids (n : tree) := let '(Node _ _ ks) := n in ks.

(* ---- list primitives (Python list semantics for in-range / out-of-range) *)

(* l[i] with the context: IndexError when i >= len l *)
Definition split_at {A} (i : nat) (l : list A) : res (list A * A * list A) :=
  match skipn i l with
  | x :: b => Ok (firstn i l, x, b)
  | [] => Internal eIndex
  end.

(* l.insert(i, x) (i >= 0) *)
Definition insert_at {A} (i : nat) (x : A) (l : list A) : list A := firstn i l ++ x :: skipn i l.

(* l.pop() *)
Definition pop_last {A} (l : list A) : res (list A * A) :=
  match rev l with
  | x :: r => Ok (rev r, x)
  | [] => Internal eIndex
  end.

(* ---- _Node.search_in_node: shortcut for keys beyond the last element, then binary search *)

Fixpoint bs (fuel : nat) (k : Z) (es : list elt) (l i : nat) : res (nat * bool) :=
  match fuel with
  | O => Internal eFuel
  | S f =>
      (* r = i - 1; while l <= r *)
      if (l <? i)%nat then
        let m := ((l + (i - 1)) / 2)%nat in
        match nth_error es m with
        | None => Internal eIndex
        | Some (k', _) =>
            if k =? k' then Ok (m, true)
            else if k <? k' then bs f k es l m
            else bs f k es (m + 1)%nat i
        end
      else Ok (i, false)
  end.

Definition search (k : Z) (es : list elt) : res (nat * bool) :=
  let n := length es in
  match n with
  | O => bs 1 k es 0 0
  | S n' =>
      match nth_error es n' with
      | None => Internal eIndex
      | Some (kl, _) => if kl <? k then Ok (n, false) else bs (S n) k es 0 n
      end
  end.

(* the specification the proofs use: linear search in a key-sorted list *)
Fixpoint lsearch (k : Z) (es : list elt) : nat * bool :=
  match es with
  | [] => (0%nat, false)
  | (k', _) :: r =>
      if k =? k' then (0%nat, true)
      else if k <? k' then (0%nat, false)
      else let '(i, e) := lsearch k r in (S i, e)
  end.

(* ---- occupancy tests (with their asserts) *)

Definition is_maximal (t : nat) (n : tree) : res bool :=
  let l := length (n_elts n) in
  if (t_max t <? l)%nat then Internal eAssert else Ok (l =? t_max t)%nat.

Definition is_minimal (t : nat) (n : tree) : res bool :=
  let l := length (n_elts n) in
  if (l <? t_min t)%nat then Internal eAssert else Ok (l =? t_min t)%nat.

(* ---- split / adopt *)

Definition split_node (t : nat) (n : tree) : res (tree * elt * tree) :=
  let '(Node lf es ks) := n in
  do mx <- is_maximal t n;
  if negb mx then Internal eAssert
  else
    let m := t_min t in
    match nth_error es m with
    | None => Internal eIndex
    | Some mid =>
        Ok (Node lf (firstn m es) (if lf then ks else firstn (S m) ks),
            mid,
            Node lf (skipn (S m) es) (if lf then [] else skipn (S m) ks))
    end.

(* self.adopt(lft, middle, rgt).  In the non-root case `self.children[expect]` is the node
   that was split in place (now `lft`, already stored back by the caller); the Python assert
   `self.children[i] == lft` is an identity test, i.e. i = expect. *)
Definition adopt (t : nat) (n : tree) (lft : tree) (mid : elt) (rgt : tree) (expect : nat) : res tree :=
  let '(Node lf es ks) := n in
  do mx <- is_maximal t n;
  if mx then Internal eAssert
  else if lf then Internal eAssert
  else
    do (i, eq) <- search (fst mid) es;
    if eq then Internal eAssert
    else
      let es' := insert_at i mid es in
      match ks with
      | [] => Ok (Node lf es' [lft; rgt])
      | _ =>
          match nth_error ks i with
          | None => Internal eIndex
          | Some _ => if (i =? expect)%nat then Ok (Node lf es' (insert_at (S i) rgt ks)) else Internal eAssert
          end
      end.

(* ---- stealing and merging; `p` is the parent, the acting node is p.children[index] *)

Definition try_left_steal (t : nat) (p : tree) (index : nat) : res (tree * bool) :=
  let '(Node plf pes pks) := p in
  match index with
  | O => Ok (p, false)
  | S im =>
      do (ka, lft, rest) <- split_at im pks;
      match rest with
      | [] => Internal eIndex
      | self :: kb =>
          do mn <- is_minimal t lft;
          if mn then Ok (p, false)
          else
            do (ea, pe, eb) <- split_at im pes;
            let '(Node llf les lks) := lft in
            let '(Node slf ses sks) := self in
            do (les', le) <- pop_last les;
            if llf then
              Ok (Node plf (ea ++ le :: eb) (ka ++ Node llf les' lks :: Node slf (pe :: ses) sks :: kb), true)
            else if slf then Internal eAssert
            else
              do (lks', lc) <- pop_last lks;
              Ok (Node plf (ea ++ le :: eb) (ka ++ Node llf les' lks' :: Node slf (pe :: ses) (lc :: sks) :: kb), true)
      end
  end.

Definition try_right_steal (t : nat) (p : tree) (index : nat) : res (tree * bool) :=
  let '(Node plf pes pks) := p in
  do (ka, self, rest) <- split_at index pks;
  match rest with
  | [] => Ok (p, false)                       (* index + 1 < len(parent.children) fails *)
  | rgt :: kb =>
      do mn <- is_minimal t rgt;
      if mn then Ok (p, false)
      else
        do (ea, pe, eb) <- split_at index pes;
        let '(Node rlf res_ rks) := rgt in
        let '(Node slf ses sks) := self in
        match res_ with
        | [] => Internal eIndex
        | re :: res' =>
            if rlf then
              Ok (Node plf (ea ++ re :: eb) (ka ++ Node slf (ses ++ [pe]) sks :: Node rlf res' rks :: kb), true)
            else if slf then Internal eAssert
            else
              match rks with
              | [] => Internal eIndex
              | rc :: rks' =>
                  Ok (Node plf (ea ++ re :: eb)
                        (ka ++ Node slf (ses ++ [pe]) (sks ++ [rc]) :: Node rlf res' rks' :: kb), true)
              end
        end
  end.

(* p.children[index].merge(p, index) *)
Definition merge (p : tree) (index : nat) : res tree :=
  let '(Node plf pes pks) := p in
  do (ka, self, rest) <- split_at index pks;
  match rest with
  | [] => Internal eIndex
  | rgt :: kb =>
      do (ea, pe, eb) <- split_at index pes;
      let '(Node slf ses sks) := self in
      let '(Node rlf res_ rks) := rgt in
      Ok (Node plf (ea ++ eb)
            (ka ++ Node slf (ses ++ pe :: res_) (if slf then sks else sks ++ rks) :: kb))
  end.

Definition balance (t : nat) (p : tree) (index : nat) : res tree :=
  if n_leaf p then Internal eAssert
  else
    do (p1, ok1) <- try_left_steal t p index;
    if ok1 then Ok p1
    else
      do (p2, ok2) <- try_right_steal t p1 index;
      if ok2 then Ok p2
      else match index with
           | O => merge p2 0
           | S im => merge p2 im
           end.

(* ---- insertion *)

Fixpoint opt_loop (fuel : nat) (t : nat) (p : tree) (li : nat) : res tree :=
  match fuel with
  | O => Internal eFuel
  | S f =>
      do (_, lft, _) <- split_at li (n_kids p);
      if (length (n_elts lft) <? t_max t)%nat then
        do (p', ok) <- try_right_steal t p li;
        if ok then opt_loop f t p' li else Ok p'
      else Ok p
  end.

Definition optimize_in_order_insertion (t : nat) (p : tree) (index : nat) : res tree :=
  match index with
  | O => Ok p
  | S li =>
      do (_, lft, _) <- split_at li (n_kids p);
      if (length (n_elts lft) =? t_max t)%nat then Ok p
      else opt_loop (S (t_max t)) t p li
  end.

(* one iteration of the `while True` loop of insert_nonfull; `rec` is the recursive call on the
   child, `again` what `continue` does *)
Definition ins_iter (t : nat) (in_order : bool)
    (rec : tree -> res (tree * option elt)) (again : tree -> res (tree * option elt))
    (n : tree) (e : elt) : res (tree * option elt) :=
  let '(Node lf es ks) := n in
  do (i, eq) <- search (fst e) es;
  if eq then
    do (a, old, b) <- split_at i es;
    Ok (Node lf (a ++ e :: b) ks, Some old)
  else if lf then Ok (Node lf (insert_at i e es) ks, None)
  else
    do (ka, child, kb) <- split_at i ks;
    do mx <- is_maximal t child;
    if mx then
      do (l, m, r) <- split_node t child;
      do n' <- adopt t (Node lf es (ka ++ l :: kb)) l m r i;
      again n'
    else
      do (c', o) <- rec child;
      let n' := Node lf es (ka ++ c' :: kb) in
      if in_order then do n'' <- optimize_in_order_insertion t n' i; Ok (n'', o)
      else Ok (n', o).

Fixpoint ins (t fuel : nat) (in_order : bool) (n : tree) (e : elt) : res (tree * option elt) :=
  match fuel with
  | O => Internal eFuel
  | S f =>
      do mx <- is_maximal t n;
      if mx then Internal eAssert
      else
        let rec := fun c => ins t f in_order c e in
        ins_iter t in_order rec
          (fun n1 => ins_iter t in_order rec (fun _ => Internal eFuel) n1 e) n e
  end.

(* depth along the leftmost path (= height of a well-formed tree) *)
Fixpoint depth (n : tree) : nat :=
  let '(Node _ _ ks) := n in
  match ks with
  | [] => 1%nat
  | k :: _ => S (depth k)
  end.

(* ---- lookup *)

Fixpoint get (fuel : nat) (n : tree) (k : Z) : res (option elt) :=
  match fuel with
  | O => Internal eFuel
  | S f =>
      let '(Node lf es ks) := n in
      do (i, eq) <- search k es;
      if eq then do (_, x, _) <- split_at i es; Ok (Some x)
      else if lf then Ok None
      else do (_, c, _) <- split_at i ks; get f c k
  end.

(* ---- deletion *)

Inductive dout := DDel (e : elt) | DNone | DMismatch | DNoMatch.

Fixpoint minimum (n : tree) : res elt :=
  let '(Node lf es ks) := n in
  if lf then match es with e :: _ => Ok e | [] => Internal eIndex end
  else match ks with k :: _ => minimum k | [] => Internal eIndex end.

Fixpoint maximum (n : tree) : res elt :=
  let '(Node lf es ks) := n in
  if lf then match rev es with e :: _ => Ok e | [] => Internal eIndex end
  else (fix last_max (l : list tree) : res elt :=       (* self.children[-1].maximum() *)
          match l with
          | [] => Internal eIndex
          | [k] => maximum k
          | _ :: r => last_max r
          end) ks.

(* node, i = self._get_node(key); oelt = node.elts[i]; node.elts[i] = e *)
Fixpoint replace_key (fuel : nat) (n : tree) (k : Z) (e : elt) : res (tree * elt) :=
  match fuel with
  | O => Internal eFuel
  | S f =>
      let '(Node lf es ks) := n in
      do (i, eq) <- search k es;
      if eq then do (a, old, b) <- split_at i es; Ok (Node lf (a ++ e :: b) ks, old)
      else if lf then Internal eAssert
      else
        do (ka, c, kb) <- split_at i ks;
        do (c', old) <- replace_key f c k e;
        Ok (Node lf es (ka ++ c' :: kb), old)
  end.

(* the tail of _Node.delete from "recursively delete in the appropriate child" up to and
   including the recursive call *)
Definition del_down (t : nat) (rec : tree -> Z -> option Z -> res (tree * dout))
    (n : tree) (key : Z) (i : nat) (exact : option Z) : res (tree * dout) :=
  do (_, child, _) <- split_at i (n_kids n);
  do mn <- is_minimal t child;
  do (n1, i1) <-
     (if mn then
        do n1 <- balance t n i;
        do (i1, eq1) <- search key (n_elts n1);
        if eq1 then Internal eAssert else Ok (n1, i1)
      else Ok (n, i));
  let '(Node lf1 es1 ks1) := n1 in
  do (ka, c, kb) <- split_at i1 ks1;
  do mn1 <- (if mn then is_minimal t c else Ok false);
  if mn1 then Internal eAssert
  else
    do (c', o) <- rec c key exact;
    Ok (Node lf1 es1 (ka ++ c' :: kb), o).

Definition exact_mismatch (exact : option Z) (found : elt) : bool :=
  match exact with Some v => negb (snd found =? v) | None => false end.

Fixpoint del (t fuel : nat) (isroot : bool) (n : tree) (key : Z) (exact : option Z) : res (tree * dout) :=
  match fuel with
  | O => Internal eFuel
  | S f =>
      let '(Node lf es ks) := n in
      do mn <- (if isroot then Ok false else is_minimal t n);
      if mn then Internal eAssert
      else
        do (i, eq) <- search key es;
        let rec := fun c k ex => del t f false c k ex in
        if eq then
          do (ea, found, eb) <- split_at i es;
          if exact_mismatch exact found then Ok (n, DMismatch)
          else if lf then Ok (Node lf (ea ++ eb) ks, DDel found)
          else
            do (_, rk, _) <- split_at (S i) ks;
            do succ <- minimum rk;
            do (n1, o) <- del_down t rec n (fst succ) (S i) None;
            match o with
            | DDel selt =>
                do (n2, old) <- replace_key fuel n1 key selt;
                Ok (n2, DDel old)
            | _ => Internal eAssert
            end
        else if lf then Ok (n, match exact with Some _ => DNoMatch | None => DNone end)
        else del_down t rec n key i exact
  end.

(* ---- in-order traversal (visit_in_order) *)

(* for i, elt in enumerate(elts): children[i].visit(); visit(elt)   then children[-1].visit() *)
Definition interleave (f : tree -> list elt) : list elt -> list tree -> list elt :=
  fix go (es : list elt) (ks : list tree) {struct ks} : list elt :=
    match ks with
    | [] => []
    | k :: ks' =>
        match es with
        | e :: es' => f k ++ e :: go es' ks'
        | [] => f k
        end
    end.

Fixpoint elements (n : tree) : list elt :=
  let '(Node lf es ks) := n in
  if lf then es else interleave (fun k => elements k) es ks.

(* ---- executable well-formedness: occupancy, children count, uniform leaf depth *)

Fixpoint wf_node (t : nat) (h : nat) (isroot : bool) (n : tree) : bool :=
  let '(Node lf es ks) := n in
  let l := length es in
  (l <=? t_max t)%nat && (isroot || (t_min t <=? l)%nat) &&
  match h with
  | O => false
  | S h' =>
      if lf then (h' =? 0)%nat && match ks with [] => true | _ => false end
      else
        negb (h' =? 0)%nat && (1 <=? l)%nat && (length ks =? S l)%nat && forallb (wf_node t h' false) ks
  end.

Fixpoint sorted_keys (l : list elt) : bool :=
  match l with
  | [] => true
  | (k, _) :: r =>
      match r with
      | [] => true
      | (k', _) :: _ => (k <? k') && sorted_keys r
      end
  end.

Definition wf_b (t : nat) (n : tree) : bool :=
  (3 <=? t)%nat && wf_node t (depth n) true n && sorted_keys (elements n).

(* reference sorted association list *)
Fixpoint ins_sorted (e : elt) (l : list elt) : list elt :=
  match l with
  | [] => [e]
  | (k, v) :: r =>
      if fst e =? k then e :: r
      else if fst e <? k then e :: l
      else (k, v) :: ins_sorted e r
  end.

Fixpoint del_sorted (k : Z) (l : list elt) : list elt :=
  match l with
  | [] => []
  | (k', v) :: r => if k =? k' then r else (k', v) :: del_sorted k r
  end.

Fixpoint find_sorted (k : Z) (l : list elt) : option elt :=
  match l with
  | [] => None
  | (k', v) :: r => if k =? k' then Some (k', v) else find_sorted k r
  end.

(* ---- BTree handle *)

Record btree := mkB { b_t : nat; b_root : tree; b_size : Z; b_immut : bool; b_inorder : bool }.

Definition new_btree (t : nat) (in_order : bool) : res btree :=
  if (t <? 3)%nat then Internal eBadT else Ok (mkB t (Node true [] []) 0 false in_order).

Definition clone_btree (b : btree) (in_order : bool) : res btree :=
  if b_immut b then Ok (mkB (b_t b) (b_root b) (b_size b) false in_order)
  else Internal eNotImmutable.

Definition make_immutable (b : btree) : btree :=
  mkB (b_t b) (b_root b) (b_size b) true (b_inorder b).

(* the root preparation of insert_element *)
Definition grow_root (t : nat) (root : tree) : res tree :=
  do mx <- is_maximal t root;
  if mx then
    do (l, m, r) <- split_node t root;
    adopt t (Node false [] []) l m r 0
  else Ok root.

Definition insert_tree (t : nat) (in_order : bool) (root : tree) (e : elt) : res (tree * option elt) :=
  do root1 <- grow_root t root;
  ins t (depth root1) in_order root1 e.

Definition insert_element (b : btree) (e : elt) (in_order : bool) : res (btree * option elt) :=
  if b_immut b then Lib eImmutable
  else
    do (root2, o) <- insert_tree (b_t b) in_order (b_root b) e;
    Ok (mkB (b_t b) root2 (match o with None => b_size b + 1 | Some _ => b_size b end) false (b_inorder b), o).

(* root collapse of BTree._delete (in a `finally`: also when nothing was deleted or ValueError
   is raised - rebalancing on the way down may have emptied the root) *)
Definition collapse_root (root : tree) : res tree :=
  let '(Node lf es ks) := root in
  match es with
  | [] => if lf then Ok root
          else match ks with
               | [k] => Ok k
               | _ => Internal eAssert
               end
  | _ => Ok root
  end.

Definition delete_tree (t : nat) (root : tree) (key : Z) (exact : option Z) : res (tree * dout) :=
  do (root1, o) <- del t (depth root) true root key exact;
  do root2 <- collapse_root root1;
  Ok (root2, o).

(* returns the tree after the call (also when ValueError is raised: the rebalancing done on the
   way down stays) and the outcome *)
Definition delete_btree (b : btree) (key : Z) (exact : option Z) : res (btree * dout) :=
  if b_immut b then Lib eImmutable
  else
    do (root1, o) <- delete_tree (b_t b) (b_root b) key exact;
    Ok (mkB (b_t b) root1 (match o with DDel _ => b_size b - 1 | _ => b_size b end) false (b_inorder b), o).

Definition get_element (b : btree) (k : Z) : res (option elt) := get (depth (b_root b)) (b_root b) k.

(* ---- Cursor *)

Record cursor := mkC {
  c_node : option tree;
  c_idx : nat;
  c_rec : bool;
  c_inc : bool;
  c_par : list (tree * nat);
  c_parked : bool;
  c_pkey : option Z;
  c_pkread : bool }.

Definition new_cursor : cursor := mkC None 0 false true [] false None false.

Fixpoint seek_least (fuel : nat) (n : tree) (idx : nat) (par : list (tree * nat))
  : res (tree * nat * list (tree * nat)) :=
  match fuel with
  | O => Internal eFuel
  | S f =>
      if n_leaf n then Ok (n, idx, par)
      else match nth_error (n_kids n) idx with
           | None => Internal eIndex
           | Some c => seek_least f c 0 ((n, idx) :: par)
           end
  end.

Fixpoint seek_greatest (fuel : nat) (n : tree) (idx : nat) (par : list (tree * nat))
  : res (tree * nat * list (tree * nat)) :=
  match fuel with
  | O => Internal eFuel
  | S f =>
      if n_leaf n then Ok (n, idx, par)
      else match nth_error (n_kids n) idx with
           | None => Internal eIndex
           | Some c => seek_greatest f c (length (n_elts c)) ((n, idx) :: par)
           end
  end.

(* Cursor.seek: the descent loop *)
Fixpoint seek_loop (fuel : nat) (key : Z) (before : bool) (n : tree) (par : list (tree * nat))
  : res (tree * nat * list (tree * nat)) :=
  match fuel with
  | O => Internal eFuel
  | S f =>
      do (i, eq) <- search key (n_elts n);
      if n_leaf n then Ok (n, if eq then (if before then i else S i) else i, par)
      else if eq then
        if before then seek_greatest (S (depth n)) n i par
        else seek_least (S (depth n)) n (S i) par
      else match nth_error (n_kids n) i with
           | None => Internal eIndex
           | Some c => seek_loop f key before c ((n, i) :: par)
           end
  end.

Definition cursor_seek (root : tree) (key : Z) (before : bool) : res cursor :=
  do (n, idx, par) <- seek_loop (S (depth root)) key before root [];
  Ok (mkC (Some n) idx false before par false (Some key) false).

Definition cursor_seek_first (c : cursor) : cursor := mkC None 0 false true [] false None (c_pkread c).
Definition cursor_seek_last (c : cursor) : cursor := mkC None 1 false false [] false None (c_pkread c).

Definition maybe_unpark (root : tree) (c : cursor) : res cursor :=
  if c_parked c then
    match c_pkey c with
    | Some k =>
        let before := if c_pkread c then negb (c_inc c) else c_inc c in
        do c' <- cursor_seek root k before;
        Ok (mkC (c_node c') (c_idx c') (c_rec c') (c_inc c) (c_par c') false None (c_pkread c'))
    | None => Ok (mkC (c_node c) (c_idx c) (c_rec c) (c_inc c) (c_par c) false None (c_pkread c))
    end
  else Ok c.

Fixpoint next_loop (fuel : nat) (n : tree) (idx : nat) (rec inc : bool) (par : list (tree * nat))
  : res (cursor * option elt) :=
  match fuel with
  | O => Internal eFuel
  | S f =>
      do (n, idx, par) <- (if rec && inc then seek_least (S (depth n)) n idx par else Ok (n, idx, par));
      match nth_error (n_elts n) idx with
      | Some e => Ok (mkC (Some n) (S idx) (negb (n_leaf n)) true par false (Some (fst e)) true, Some e)
      | None =>
          match par with
          | (p, pi) :: par' => next_loop f p pi false true par'
          | [] => Ok (mkC None 1 false true [] false None true, None)
          end
      end
  end.

Fixpoint prev_loop (fuel : nat) (n : tree) (idx : nat) (rec inc : bool) (par : list (tree * nat))
  : res (cursor * option elt) :=
  match fuel with
  | O => Internal eFuel
  | S f =>
      do (n, idx, par) <- (if rec && negb inc then seek_greatest (S (depth n)) n idx par else Ok (n, idx, par));
      match idx with
      | S j =>
          match nth_error (n_elts n) j with
          | Some e => Ok (mkC (Some n) j (negb (n_leaf n)) false par false (Some (fst e)) true, Some e)
          | None => Internal eIndex
          end
      | O =>
          match par with
          | (p, pi) :: par' => prev_loop f p pi false false par'
          | [] => Ok (mkC None 0 false false [] false None true, None)
          end
      end
  end.

Definition loop_fuel (n : tree) (par : list (tree * nat)) : nat := (length par + depth n + 2)%nat.

Definition cursor_next (root : tree) (c0 : cursor) : res (cursor * option elt) :=
  do c <- maybe_unpark root c0;
  match c_node c with
  | None =>
      if (c_idx c =? 1)%nat then
        Ok (mkC None 1 (c_rec c) (c_inc c) (c_par c) false None (c_pkread c), None)
      else if negb (c_idx c =? 0)%nat then Internal eAssert
      else
        do (n, idx, par) <- seek_least (S (depth root)) root 0 (c_par c);
        do (c', o) <- next_loop (loop_fuel n par) n idx (c_rec c) (c_inc c) par;
        Ok (mkC (c_node c') (c_idx c') (c_rec c') (c_inc c') (c_par c') false (c_pkey c')
              (match o with Some _ => true | None => c_pkread c end), o)
  | Some n =>
      do (c', o) <- next_loop (loop_fuel n (c_par c)) n (c_idx c) (c_rec c) (c_inc c) (c_par c);
      Ok (mkC (c_node c') (c_idx c') (c_rec c') (c_inc c') (c_par c') false (c_pkey c')
            (match o with Some _ => true | None => c_pkread c end), o)
  end.

Definition cursor_prev (root : tree) (c0 : cursor) : res (cursor * option elt) :=
  do c <- maybe_unpark root c0;
  match c_node c with
  | None =>
      if (c_idx c =? 0)%nat then
        Ok (mkC None 0 (c_rec c) (c_inc c) (c_par c) false None (c_pkread c), None)
      else if negb (c_idx c =? 1)%nat then Internal eAssert
      else
        do (n, idx, par) <- seek_greatest (S (depth root)) root (length (n_elts root)) (c_par c);
        do (c', o) <- prev_loop (loop_fuel n par) n idx (c_rec c) (c_inc c) par;
        Ok (mkC (c_node c') (c_idx c') (c_rec c') (c_inc c') (c_par c') false (c_pkey c')
              (match o with Some _ => true | None => c_pkread c end), o)
  | Some n =>
      do (c', o) <- prev_loop (loop_fuel n (c_par c)) n (c_idx c) (c_rec c) (c_inc c) (c_par c);
      Ok (mkC (c_node c') (c_idx c') (c_rec c') (c_inc c') (c_par c') false (c_pkey c')
            (match o with Some _ => true | None => c_pkread c end), o)
  end.

Definition cursor_park (c : cursor) : cursor :=
  mkC (c_node c) (c_idx c) (c_rec c) (c_inc c) (c_par c) true (c_pkey c) (c_pkread c).

(* BTree.__iter__: a fresh cursor, next() until None *)
Fixpoint iter_loop (fuel : nat) (root : tree) (c : cursor) (acc : list Z) : res (list Z) :=
  match fuel with
  | O => Internal eFuel
  | S f =>
      do (c', o) <- cursor_next root c;
      match o with
      | None => Ok (rev acc)
      | Some e => iter_loop f root c' (fst e :: acc)
      end
  end.

(* ---- collections.abc mixins on top of the primitives *)

(* next(iter(self)): a fresh iterator, one step *)
Definition first_element (b : btree) : res (option elt) :=
  do (c, o) <- cursor_next (b_root b) new_cursor; Ok o.

(* MutableMapping.clear: `try: while True: self.popitem()  except KeyError: pass`, where popitem is
   key = next(iter(self)); value = self[key]; del self[key]  (any KeyError ends the loop) *)
Fixpoint clear_loop (fuel : nat) (b : btree) : res btree :=
  match fuel with
  | O => Internal eFuel
  | S f =>
      do o <- first_element b;
      match o with
      | None => Ok b
      | Some e =>
          do g <- get_element b (fst e);
          match g with
          | None => Ok b
          | Some _ =>
              do (b', d) <- delete_btree b (fst e) None;
              match d with DDel _ => clear_loop f b' | _ => Ok b' end
          end
      end
  end.

(* MutableSet.clear: `try: while True: self.pop()  except KeyError: pass`, pop = next(iter) ; discard *)
Fixpoint sclear_loop (fuel : nat) (b : btree) : res btree :=
  match fuel with
  | O => Internal eFuel
  | S f =>
      do o <- first_element b;
      match o with
      | None => Ok b
      | Some e => do (b', d) <- delete_btree b (fst e) None; sclear_loop f b'
      end
  end.

(* ---- the world of the correspondence check: several trees and cursors *)

Record world := mkW { w_trees : list btree; w_cursors : list (nat * cursor) }.

Fixpoint set_nth {A} (i : nat) (x : A) (l : list A) : list A :=
  match l, i with
  | [], _ => []
  | _ :: r, O => x :: r
  | y :: r, S i' => y :: set_nth i' x r
  end.

Definition park_all (ti : nat) (cs : list (nat * cursor)) : list (nat * cursor) :=
  map (fun tc => if (fst tc =? ti)%nat then (fst tc, cursor_park (snd tc)) else tc) cs.

Fixpoint obs_of_tree (n : tree) : obs :=
  let '(Node lf es ks) := n in
  L [ob lf; L (flat_map (fun e => [I (fst e); I (snd e)]) es); L (map obs_of_tree ks)].

Fixpoint elts_of_obs (l : list obs) : option (list elt) :=
  match l with
  | [] => Some []
  | I k :: I v :: r => match elts_of_obs r with Some es => Some ((k, v) :: es) | None => None end
  | _ => None
  end.

Fixpoint tree_of_obs (o : obs) : option tree :=
  match o with
  | L [I lf; L es; L ks] =>
      match elts_of_obs es with
      | None => None
      | Some es' =>
          let kids := (fix go (ks : list obs) : option (list tree) :=
                         match ks with
                         | [] => Some []
                         | k :: r => match tree_of_obs k, go r with
                                     | Some k', Some r' => Some (k' :: r')
                                     | _, _ => None
                                     end
                         end) ks in
          match kids with
          | Some ks' => Some (Node (lf =? 1) es' ks')
          | None => None
          end
      end
  | _ => None
  end.

Definition obs_of_oelt (o : option elt) : obs :=
  match o with Some e => L [I (fst e); I (snd e)] | None => N end.

(* what one step of an iterator yields: the key, the (key, value) item, or the value; None when
   the generator is exhausted *)
Definition obs_of_iter (mode : Z) (o : option elt) : obs :=
  match o with
  | None => N
  | Some e => if mode =? 0 then I (fst e) else if mode =? 1 then L [I (fst e); I (snd e)] else I (snd e)
  end.

Definition obs_err {A} (r : res A) : obs :=
  match r with Ok _ => N | Lib e => E e | Internal e => E e end.

Definition bool_of (z : Z) : bool := negb (z =? 0).

Definition with_tree (w : world) (ti : Z) (f : nat -> btree -> world * obs) : world * obs :=
  match nth_error (w_trees w) (Z.to_nat ti) with
  | Some b => f (Z.to_nat ti) b
  | None => (w, E eBadCase)
  end.

Definition with_cursor (w : world) (ci : Z) (f : nat -> nat -> btree -> cursor -> world * obs) : world * obs :=
  match nth_error (w_cursors w) (Z.to_nat ci) with
  | Some (ti, c) =>
      match nth_error (w_trees w) ti with
      | Some b => f (Z.to_nat ci) ti b c
      | None => (w, E eBadCase)
      end
  | None => (w, E eBadCase)
  end.

(* a mutating call: Immutable is raised before anything else; otherwise every registered
   cursor of the tree is parked *)
Definition mutate (w : world) (ti : nat) (b : btree) (r : res (btree * obs)) : world * obs :=
  match r with
  | Ok (b', o) => (mkW (set_nth ti b' (w_trees w)) (park_all ti (w_cursors w)), o)
  | Lib e => (w, E e)
  | Internal e => (mkW (w_trees w) (if b_immut b then w_cursors w else park_all ti (w_cursors w)), E e)
  end.

Definition obs_of_dout (o : dout) : obs :=
  match o with
  | DDel e => L [I (fst e); I (snd e)]
  | DNone => N
  | DMismatch => E eMismatch
  | DNoMatch => E eNoMatch
  end.

Definition step (w : world) (op : obs) : world * obs :=
  match op with
  | L [I 1; I t; I io] =>
      match new_btree (Z.to_nat t) (bool_of io) with
      | Ok b => (mkW (w_trees w ++ [b]) (w_cursors w), N)
      | r => (w, obs_err r)
      end
  | L [I 26; I t; I io] =>                      (* BTreeSet(t=, in_order=) *)
      match new_btree (Z.to_nat t) (bool_of io) with
      | Ok b => (mkW (w_trees w ++ [b]) (w_cursors w), N)
      | r => (w, obs_err r)
      end
  | L [I 27; I ti] =>                           (* copy.copy(tree) *)
      with_tree w ti (fun i b =>
        match clone_btree b false with
        | Ok b' => (mkW (w_trees w ++ [b']) (w_cursors w), N)
        | r => (w, obs_err r)
        end)
  | L [I 2; I ti; I k; I v; I io] =>
      with_tree w ti (fun i b =>
        mutate w i b (do (b', o) <- insert_element b (k, v) (bool_of io); Ok (b', obs_of_oelt o)))
  | L [I 3; I ti; I k] =>
      with_tree w ti (fun i b =>
        mutate w i b (do (b', o) <- delete_btree b k None; Ok (b', obs_of_dout o)))
  | L [I 4; I ti; I k; I v] =>
      with_tree w ti (fun i b =>
        mutate w i b (do (b', o) <- delete_btree b k (Some v); Ok (b', obs_of_dout o)))
  | L [I 5; I ti; I k] =>
      with_tree w ti (fun i b =>
        match get_element b k with Ok o => (w, obs_of_oelt o) | r => (w, obs_err r) end)
  | L [I 6; I ti] => with_tree w ti (fun i b => (w, I (b_size b)))
  | L [I 7; I ti] =>
      with_tree w ti (fun i b => (w, L (map (fun e => L [I (fst e); I (snd e)]) (elements (b_root b)))))
  | L [I 8; I ti] =>
      with_tree w ti (fun i b => (mkW (set_nth i (make_immutable b) (w_trees w)) (w_cursors w), N))
  | L [I 9; I ti; I io] =>
      with_tree w ti (fun i b =>
        match clone_btree b (bool_of io) with
        | Ok b' => (mkW (w_trees w ++ [b']) (w_cursors w), N)
        | r => (w, obs_err r)
        end)
  | L [I 10; I ti] =>
      with_tree w ti (fun i b => (mkW (w_trees w) (w_cursors w ++ [(i, new_cursor)]), N))
  | L [I 11; I ci; I k; I before] =>
      with_cursor w ci (fun j ti b c =>
        match cursor_seek (b_root b) k (bool_of before) with
        | Ok c' => (mkW (w_trees w) (set_nth j (ti, c') (w_cursors w)), N)
        | r => (w, obs_err r)
        end)
  | L [I 12; I ci] =>
      with_cursor w ci (fun j ti b c => (mkW (w_trees w) (set_nth j (ti, cursor_seek_first c) (w_cursors w)), N))
  | L [I 13; I ci] =>
      with_cursor w ci (fun j ti b c => (mkW (w_trees w) (set_nth j (ti, cursor_seek_last c) (w_cursors w)), N))
  | L [I 14; I ci] =>
      with_cursor w ci (fun j ti b c =>
        match cursor_next (b_root b) c with
        | Ok (c', o) => (mkW (w_trees w) (set_nth j (ti, c') (w_cursors w)), obs_of_oelt o)
        | r => (w, obs_err r)
        end)
  | L [I 15; I ci] =>
      with_cursor w ci (fun j ti b c =>
        match cursor_prev (b_root b) c with
        | Ok (c', o) => (mkW (w_trees w) (set_nth j (ti, c') (w_cursors w)), obs_of_oelt o)
        | r => (w, obs_err r)
        end)
  | L [I 16; I ti] =>
      with_tree w ti (fun i b => (w, L [obs_of_tree (b_root b); ob (wf_b (b_t b) (b_root b))]))
  (* an open iterator (iter(tree), keys(), items(), values(), iter(set)): BTree.__iter__ is a
     generator around a cursor registered with the tree (`with self.cursor() as cursor`), so it
     is parked by every mutation between two steps; one step = cursor.next() *)
  | L [I 18; I ti; I kind] =>
      with_tree w ti (fun i b => (mkW (w_trees w) (w_cursors w ++ [(i, new_cursor)]), N))
  | L [I 19; I ci; I mode] =>
      with_cursor w ci (fun j ti b c =>
        match cursor_next (b_root b) c with
        | Ok (c', o) => (mkW (w_trees w) (set_nth j (ti, c') (w_cursors w)), obs_of_iter mode o)
        | r => (w, obs_err r)
        end)
  | L [I 17; I ti] =>
      with_tree w ti (fun i b =>
        match iter_loop (S (Z.to_nat (b_size b))) (b_root b) new_cursor [] with
        | Ok ks => (w, L (map I ks))
        | r => (w, obs_err r)
        end)
  (* BTreeDict: d[k] = v ; d[k] ; del d[k] *)
  | L [I 20; I ti; I k; I v] =>
      with_tree w ti (fun i b =>
        mutate w i b (do (b', o) <- insert_element b (k, v) (b_inorder b); Ok (b', N)))
  | L [I 21; I ti; I k] =>
      with_tree w ti (fun i b =>
        match get_element b k with
        | Ok (Some e) => (w, I (snd e))
        | Ok None => (w, E eKey)
        | r => (w, obs_err r)
        end)
  | L [I 22; I ti; I k] =>
      with_tree w ti (fun i b =>
        mutate w i b (do (b', o) <- delete_btree b k None;
                      Ok (b', match o with DDel _ => N | _ => E eKey end)))
  (* BTreeSet: add / discard / in *)
  | L [I 23; I ti; I k] =>
      with_tree w ti (fun i b =>
        mutate w i b (do (b', o) <- insert_element b (k, 0) (b_inorder b); Ok (b', N)))
  | L [I 24; I ti; I k] =>
      with_tree w ti (fun i b =>
        mutate w i b (do (b', o) <- delete_btree b k None; Ok (b', N)))
  | L [I 25; I ti; I k] =>
      with_tree w ti (fun i b =>
        match get_element b k with
        | Ok (Some _) => (w, I 1)
        | Ok None => (w, I 0)
        | r => (w, obs_err r)
        end)
  (* _Node.minimum / maximum of the root *)
  | L [I 28; I ti] =>
      with_tree w ti (fun i b => match minimum (b_root b) with Ok e => (w, obs_of_oelt (Some e)) | r => (w, obs_err r) end)
  | L [I 29; I ti] =>
      with_tree w ti (fun i b => match maximum (b_root b) with Ok e => (w, obs_of_oelt (Some e)) | r => (w, obs_err r) end)
  (* MutableMapping mixins: pop(k) / popitem() / clear() / setdefault(k, v) / update({k: v}) *)
  | L [I 40; I ti; I k] =>
      with_tree w ti (fun i b =>
        match get_element b k with
        | Ok None => (w, E eKey)
        | Ok (Some e) =>
            mutate w i b (do (b', d) <- delete_btree b k None;
                          Ok (b', match d with DDel _ => I (snd e) | _ => E eKey end))
        | r => (w, obs_err r)
        end)
  | L [I 41; I ti] =>
      with_tree w ti (fun i b =>
        match first_element b with
        | Ok None => (w, E eKey)
        | Ok (Some e) =>
            match get_element b (fst e) with
            | Ok None => (w, E eKey)
            | Ok (Some e2) =>
                mutate w i b (do (b', d) <- delete_btree b (fst e) None;
                              Ok (b', match d with DDel _ => L [I (fst e); I (snd e2)] | _ => E eKey end))
            | r => (w, obs_err r)
            end
        | r => (w, obs_err r)
        end)
  | L [I 42; I ti] =>
      with_tree w ti (fun i b =>
        match first_element b with
        | Ok None => (w, N)
        | Ok (Some _) => mutate w i b (do b' <- clear_loop (S (Z.to_nat (b_size b))) b; Ok (b', N))
        | r => (w, obs_err r)
        end)
  | L [I 43; I ti; I k; I v] =>
      with_tree w ti (fun i b =>
        match get_element b k with
        | Ok (Some e) => (w, I (snd e))
        | Ok None => mutate w i b (do (b', o) <- insert_element b (k, v) (b_inorder b); Ok (b', I v))
        | r => (w, obs_err r)
        end)
  | L [I 44; I ti; I k; I v] =>
      with_tree w ti (fun i b =>
        mutate w i b (do (b', o) <- insert_element b (k, v) (b_inorder b); Ok (b', N)))
  (* MutableSet mixins: remove(k) / pop() / clear() *)
  | L [I 45; I ti; I k] =>
      with_tree w ti (fun i b =>
        match get_element b k with
        | Ok None => (w, E eKey)
        | Ok (Some _) => mutate w i b (do (b', d) <- delete_btree b k None; Ok (b', N))
        | r => (w, obs_err r)
        end)
  | L [I 46; I ti] =>
      with_tree w ti (fun i b =>
        match first_element b with
        | Ok None => (w, E eKey)
        | Ok (Some e) => mutate w i b (do (b', d) <- delete_btree b (fst e) None; Ok (b', I (fst e)))
        | r => (w, obs_err r)
        end)
  | L [I 47; I ti] =>
      with_tree w ti (fun i b =>
        match first_element b with
        | Ok None => (w, N)
        | Ok (Some _) => mutate w i b (do b' <- sclear_loop (S (Z.to_nat (b_size b))) b; Ok (b', N))
        | r => (w, obs_err r)
        end)
  (* the program drops its last reference to the tree handle (`del tree`; the garbage collector
     frees the BTree object - not the nodes still shared with clones): nothing observable happens.
     The handle stays in the model's world (indices are stable); histories do not use it again. *)
  | L [I 48; I ti] => with_tree w ti (fun i b => (w, N))
  | _ => (w, E eBadCase)
  end.

Fixpoint steps (w : world) (ops : list obs) : list obs :=
  match ops with
  | [] => []
  | op :: r => let '(w', o) := step w op in o :: steps w' r
  end.

(* run: an operation history -> the list of per-step observations;
        [30; t; dump]   -> the model's wf_b applied to a node structure read off the
                           implementation *)
Definition run (c : obs) : obs :=
  match c with
  | L [I 30; I t; d] =>
      match tree_of_obs d with
      | Some n => ob (wf_b (Z.to_nat t) n)
      | None => E eBadCase
      end
  | L (I 0 :: ops) => L (steps (mkW [] []) ops)
  | _ => E eBadCase
  end.
