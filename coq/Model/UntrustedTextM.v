(* C04 model of the message TEXT reader: dns/message.py class _TextReader (read, _header_line,
   _question_line, _rr_line, _make_message) and dns.message.from_text, on the shared tokenizer
   model (Model/TokM.v).  The record parser behind dns.rdata.from_text is a parameter; the
   executable instance uses C05's text schemas (Model/RdTextM.v).  Definitions only. *)
From DV Require Import Base.Prelude Model.NameM.
From DV Require Model.TokM Model.RdTextM.
Open Scope Z_scope.

Module T := TokM.

(* library exceptions (codes 1-4, 20-23 as in NameM / TokM) *)
Definition eFormError := NameM.eFormError.           (* 7: UpdateMessage._parse_rr_header *)
Definition eUnknownHeaderField := 40.
Definition eNoPreviousName := 41.
Definition eUnknownOpcode := 42.
Definition eUnknownRcode := 43.
Definition eUnknownRdatatype := 44.
Definition eUnknownRdataclass := 45.                 (* never escapes: swallowed by the reader *)
Definition iValueError := 104.
Definition iKeyError := 106.
Definition iFuelT := 197.                            (* model artefact; proved unreachable *)

(* ---------- dns.enum.IntEnum.from_text ---------- *)
Definition upper (c : Z) : Z := if (97 <=? c) && (c <=? 122) then c - 32 else c.
Definition upper_l (s : list Z) : list Z := map upper s.

Fixpoint assoc (k : list Z) (t : list (list Z * Z)) : option Z :=
  match t with
  | [] => None
  | (n, v) :: r => if zlist_eqb n k then Some v else assoc k r
  end.

Fixpoint strip_prefix (p s : list Z) : option (list Z) :=
  match p, s with
  | [], _ => Some s
  | a :: p', b :: s' => if a =? b then strip_prefix p' s' else None
  | _ :: _, [] => None
  end.

Definition all_decimal (s : list Z) : bool :=
  match s with [] => false | _ => forallb T.is_decimal s end.   (* ''.isdecimal() is False *)
Definition dec_value (s : list Z) : Z := fold_left (fun a c => a * 10 + (c - 48)) s 0.

(* text.upper(); cls[text]; prefix + decimal digits (range checked: ValueError); else `unknown` *)
Definition enum_from_text (tbl : list (list Z * Z)) (prefix : list Z) (maxv unknown : Z) (text : list Z) : res Z :=
  let u := upper_l text in
  match assoc u tbl with
  | Some v => Ok v
  | None =>
      match strip_prefix prefix u with
      | Some d => if all_decimal d then (if dec_value d >? maxv then Internal iValueError else Ok (dec_value d))
                  else Lib unknown
      | None => Lib unknown
      end
  end.

Definition s (l : list Z) := l.
Definition flag_tbl : list (list Z * Z) :=
  [([81;82], 32768); ([65;65], 1024); ([84;67], 512); ([82;68], 256); ([82;65], 128); ([65;68], 32); ([67;68], 16)].
Definition eflag_tbl : list (list Z * Z) := [([68;79], 32768)].
(* dns.flags.from_text(word): KeyError for an unknown word *)
Definition flags_from_text (tbl : list (list Z * Z)) (word : list Z) : res Z :=
  match assoc (upper_l word) tbl with Some v => Ok v | None => Internal iKeyError end.

Definition opcode_tbl : list (list Z * Z) :=
  [([81;85;69;82;89], 0); ([73;81;85;69;82;89], 1); ([83;84;65;84;85;83], 2); ([78;79;84;73;70;89], 4); ([85;80;68;65;84;69], 5)].
Definition rcode_tbl : list (list Z * Z) :=
  [([78;79;69;82;82;79;82], 0); ([70;79;82;77;69;82;82], 1); ([83;69;82;86;70;65;73;76], 2); ([78;88;68;79;77;65;73;78], 3);
   ([78;79;84;73;77;80], 4); ([82;69;70;85;83;69;68], 5); ([89;88;68;79;77;65;73;78], 6); ([89;88;82;82;83;69;84], 7);
   ([78;88;82;82;83;69;84], 8); ([78;79;84;65;85;84;72], 9); ([78;79;84;90;79;78;69], 10); ([68;83;79;84;89;80;69;78;73], 11);
   ([66;65;68;86;69;82;83], 16); ([66;65;68;83;73;71], 16); ([66;65;68;75;69;89], 17); ([66;65;68;84;73;77;69], 18);
   ([66;65;68;77;79;68;69], 19); ([66;65;68;78;65;77;69], 20); ([66;65;68;65;76;71], 21); ([66;65;68;84;82;85;78;67], 22);
   ([66;65;68;67;79;79;75;73;69], 23)].
Definition class_tbl : list (list Z * Z) :=
  [([73;78], 1); ([67;72], 3); ([72;83], 4); ([78;79;78;69], 254); ([65;78;89], 255);
   (* the aliases of dns.rdataclass.RdataClass *)
   ([82;69;83;69;82;86;69;68;48], 0); ([73;78;84;69;82;78;69;84], 1); ([67;72;65;79;83], 3); ([72;69;83;73;79;68], 4)].
(* the type mnemonics the executable instance knows (the correspondence only uses these) *)
Definition type_tbl : list (list Z * Z) :=
  [([65], 1); ([78;83], 2); ([67;78;65;77;69], 5); ([83;79;65], 6); ([80;84;82], 12); ([77;88], 15); ([84;88;84], 16);
   ([65;65;65;65], 28); ([83;82;86], 33); ([68;78;65;77;69], 39); ([65;78;89], 255); ([65;88;70;82], 252); ([73;88;70;82], 251)].

Definition opcode_from_text := enum_from_text opcode_tbl [] 15 eUnknownOpcode.
Definition rcode_from_text := enum_from_text rcode_tbl [] 4095 eUnknownRcode.
Definition class_from_text := enum_from_text class_tbl [67;76;65;83;83] 65535 eUnknownRdataclass.
Definition section_tbl (update : bool) : list (list Z * Z) :=
  if update then [([90;79;78;69], 0); ([80;82;69;82;69;81], 1); ([85;80;68;65;84;69], 2); ([65;68;68;73;84;73;79;78;65;76], 3)]
  else [([81;85;69;83;84;73;79;78], 0); ([65;78;83;87;69;82], 1); ([65;85;84;72;79;82;73;84;89], 2); ([65;68;68;73;84;73;79;78;65;76], 3)].

(* ---------- the message being built ---------- *)
Record rrec := mkRR { r_sec : Z; r_name : name; r_class : Z; r_type : Z; r_ttl : Z; r_deleting : Z; r_n : Z }.
Record tmsg := mkTM { tm_update : bool; tm_flags : Z; tm_opt : option Z;
                      tm_q : list (name * Z * Z); tm_rrs : list rrec }.   (* lists reversed *)

Record rdr := mkR {
  t_tok : T.tstate; t_last : option name;
  t_edns : Z; t_ednsflags : Z; t_payload : Z; t_rcode : Z; t_opcode : Z; t_flags : Z;
  t_msg : option tmsg; t_orps : bool }.

Definition set_tok (r : rdr) (st : T.tstate) : rdr :=
  mkR st (t_last r) (t_edns r) (t_ednsflags r) (t_payload r) (t_rcode r) (t_opcode r) (t_flags r) (t_msg r) (t_orps r).
Definition set_last (r : rdr) (n : name) : rdr :=
  mkR (t_tok r) (Some n) (t_edns r) (t_ednsflags r) (t_payload r) (t_rcode r) (t_opcode r) (t_flags r) (t_msg r) (t_orps r).
Definition set_msg (r : rdr) (m : tmsg) (orps : bool) : rdr :=
  mkR (t_tok r) (t_last r) (t_edns r) (t_ednsflags r) (t_payload r) (t_rcode r) (t_opcode r) (t_flags r) (Some m) orps.

(* _make_message: factory by opcode, flags, use_edns, set_rcode *)
Definition make_message (r : rdr) : tmsg :=
  let opt0 := if t_edns r >=? 0
              then Some (Z.lor (Z.land (t_ednsflags r) 4278255615) (Z.shiftl (t_edns r) 16)) else None in
  let '(fl, opt) :=
    if t_rcode r =? 0 then (t_flags r, opt0)
    else
      let fl := Z.lor (Z.land (t_flags r) 65520) (Z.land (t_rcode r) 15) in
      let cur := match opt0 with Some v => v | None => 0 end in
      let ef := Z.lor (Z.land cur 16777215) (Z.shiftl (Z.land (t_rcode r) 4080) 20) in
      (fl, match opt0 with Some _ => Some ef | None => if ef =? 0 then None else Some ef end) in
  mkTM (t_opcode r =? 5) fl opt [] [].

(* Message._parse_rr_header / UpdateMessage._parse_rr_header -> (rdclass, deleting (0 = None), empty) *)
Definition parse_rr_header (m : tmsg) (section rdclass rdtype : Z) : res (Z * Z * bool) :=
  if negb (tm_update m) then Ok (rdclass, 0, false)
  else if section =? 0 then
    if (rdclass =? 255) || (rdclass =? 254) || negb (rdtype =? 6)
       || negb (match tm_q m with [] => true | _ => false end)
    then Lib eFormError else Ok (rdclass, 0, false)
  else
    match rev (tm_q m) with
    | [] => Lib eFormError
    | (_, _, zc) :: _ =>
        if (rdclass =? 255) || (rdclass =? 254) then Ok (zc, rdclass, (rdclass =? 255) || (section =? 1))
        else Ok (rdclass, 0, false)
    end.

Section Reader.
  (* cls.from_text of the class get_rdata_class(rdclass, rdtype) picked: ANY function *)
  Variable per_type_text : Z -> Z -> T.tstate -> res (unit * T.tstate).
  Variable pctx : RdTextM.pctx.             (* origin / relativize / relativize_to *)
  Variable type_from_text : list Z -> res Z.  (* dns.rdatatype.from_text *)

  (* dns.rdata.from_text(rdclass, rdtype, tok, ...): with ExceptionWrapper(SyntaxError):
     cls.from_text(...); tok.get_eol_as_token() *)
  Definition rdata_from_tok (rdclass rdtype : Z) (st : T.tstate) : res (unit * T.tstate) :=
    T.wrap_syntax
      (do vs <- per_type_text rdclass rdtype st;
       do tk <- T.get_eol_as_token (snd vs);
       Ok (tt, snd tk)).

  Definition get_eol (st : T.tstate) : res T.tstate := do tk <- T.get_eol_as_token st; Ok (snd tk).

  (* the `while True` loop of the flags / eflags lines; acc = flag bits so far *)
  Fixpoint flags_loop (fuel : nat) (tbl : list (list Z * Z)) (st : T.tstate) (acc : Z) : res (Z * T.tstate) :=
    match fuel with
    | O => Internal iFuelT
    | S f =>
        do ts <- T.get0 st;
        if negb (T.is_identifier (fst ts)) then do st' <- T.unget (snd ts) (fst ts); Ok (acc, st')
        else
          match flags_from_text tbl (T.tvalue (fst ts)) with
          | Ok v => flags_loop f tbl (snd ts) (Z.lor acc v)
          | _ => Lib T.eSyntax                        (* except KeyError: raise SyntaxError *)
          end
    end.

  Definition meas (st : T.tstate) : nat :=
    (length (T.inp st) + match T.ungot st with Some _ => 1 | None => 0 end)%nat.

  (* _header_line *)
  Definition header_line (r : rdr) : res rdr :=
    do ts <- T.get0 (t_tok r);
    let '(tk, st) := ts in
    let what := T.tvalue tk in
    do r' <-
      (if zlist_eqb what [105; 100] then                                   (* id *)
         do v <- T.get_uint16 st; Ok (set_tok r (snd v))
       else if zlist_eqb what [102;108;97;103;115] then                     (* flags *)
         do fs <- flags_loop (S (S (meas st))) flag_tbl st (t_flags r);
         Ok (mkR (snd fs) (t_last r) (t_edns r) (t_ednsflags r) (t_payload r) (t_rcode r) (t_opcode r) (fst fs) (t_msg r) (t_orps r))
       else if zlist_eqb what [101;100;110;115] then                        (* edns *)
         do v <- T.get_uint8 st;
         Ok (mkR (snd v) (t_last r) (fst v) (Z.lor (t_ednsflags r) (Z.shiftl (fst v) 16)) (t_payload r) (t_rcode r) (t_opcode r) (t_flags r) (t_msg r) (t_orps r))
       else if zlist_eqb what [101;102;108;97;103;115] then                 (* eflags *)
         let edns := if t_edns r <? 0 then 0 else t_edns r in
         do fs <- flags_loop (S (S (meas st))) eflag_tbl st (t_ednsflags r);
         Ok (mkR (snd fs) (t_last r) edns (fst fs) (t_payload r) (t_rcode r) (t_opcode r) (t_flags r) (t_msg r) (t_orps r))
       else if zlist_eqb what [112;97;121;108;111;97;100] then              (* payload *)
         do v <- T.get_uint16 st;
         Ok (mkR (snd v) (t_last r) (if t_edns r <? 0 then 0 else t_edns r) (t_ednsflags r) (fst v) (t_rcode r) (t_opcode r) (t_flags r) (t_msg r) (t_orps r))
       else if zlist_eqb what [111;112;99;111;100;101] then                 (* opcode *)
         do v <- T.get_string st 0;
         match opcode_from_text (fst v) with
         | Ok oc => Ok (mkR (snd v) (t_last r) (t_edns r) (t_ednsflags r) (t_payload r) (t_rcode r) oc
                            (Z.lor (t_flags r) (Z.land (Z.shiftl oc 11) 30720)) (t_msg r) (t_orps r))
         | Lib e => Lib e
         | Internal _ => Lib T.eSyntax                 (* except ValueError: raise SyntaxError *)
         end
       else if zlist_eqb what [114;99;111;100;101] then                     (* rcode *)
         do v <- T.get_string st 0;
         match rcode_from_text (fst v) with
         | Ok rc => Ok (mkR (snd v) (t_last r) (t_edns r) (t_ednsflags r) (t_payload r) rc (t_opcode r) (t_flags r) (t_msg r) (t_orps r))
         | Lib e => Lib e
         | Internal _ => Lib T.eSyntax
         end
       else Lib eUnknownHeaderField);
    do st' <- get_eol (t_tok r'); Ok (set_tok r' st').

  (* the owner column shared by _question_line and _rr_line *)
  Definition owner (r : rdr) : res (rdr * name) :=
    do ts <- T.get (t_tok r) true false;
    let '(tk, st) := ts in
    do r1 <- (if negb (T.ttype tk =? T.tWS)
              then do n <- RdTextM.as_name pctx tk; Ok (set_last (set_tok r st) n)
              else Ok (set_tok r st));
    match t_last r1 with
    | None => Lib eNoPreviousName
    | Some n => Ok (r1, n)
    end.

  (* the class column: try: rdataclass.from_text; next token must be an identifier
     except SyntaxError: raise; except Exception: rdclass = IN (token stays) *)
  Definition class_column (tk : T.token) (st : T.tstate) : res (Z * T.token * T.tstate) :=
    match class_from_text (T.tvalue tk) with
    | Ok c =>
        match T.get0 st with
        | Ok (tk2, st2) => if negb (T.is_identifier tk2) then Lib T.eSyntax else Ok (c, tk2, st2)
        | Lib e => if T.in_syntax_family e then Lib T.eSyntax else Ok (1, tk, st)
        | Internal _ => Ok (1, tk, st)
        end
    | _ => Ok (1, tk, st)
    end.

  Definition type_column (tk : T.token) : res Z :=
    match type_from_text (T.tvalue tk) with
    | Internal _ => Lib T.eSyntax                      (* except ValueError: raise SyntaxError *)
    | x => x
    end.

  (* _question_line *)
  Definition question_line (r : rdr) (m : tmsg) (section : Z) : res rdr :=
    do rn <- owner r;
    let '(r1, n) := rn in
    do ts <- T.get0 (t_tok r1);
    if negb (T.is_identifier (fst ts)) then Lib T.eSyntax
    else
      do cc <- class_column (fst ts) (snd ts);
      let '(rdclass, tk, st) := cc in
      do rdtype <- type_column tk;
      do hd <- parse_rr_header m section rdclass rdtype;
      let m' := mkTM (tm_update m) (tm_flags m) (tm_opt m) ((n, rdtype, fst (fst hd)) :: tm_q m) (tm_rrs m) in
      do st' <- get_eol st;
      Ok (set_msg (set_tok r1 st') m' (t_orps r1)).

  (* int(token.value, 0) for ASCII text: sign, 0x / 0o / 0b prefixes (an underscore may follow the
     prefix), digits with single underscores between them; in decimal a leading zero is allowed only
     when the value is zero; more than 4300 decimal digits are CPython's ValueError (like every
     ValueError here: "not a number", the token is then tried as a class) *)
  Definition int0 (v : list Z) : option Z :=
    let '(neg, s) := match v with
                     | c :: r => if c =? 43 then (false, r) else if c =? 45 then (true, r) else (false, v)
                     | [] => (false, v)
                     end in
    let pref (base : Z) (r : list Z) : option Z :=
      let r' := match r with c :: r2 => if c =? 95 then r2 else r | [] => r end in
      match r' with
      | [] => None
      | c :: _ => if c =? 95 then None else T.int_digits base r' 0 false
      end in
    let mag :=
      match s with
      | [] => None
      | c :: rest =>
          if c =? 95 then None
          else if c =? 48 then
            match rest with
            | p :: r =>
                if (p =? 120) || (p =? 88) then pref 16 r
                else if (p =? 111) || (p =? 79) then pref 8 r
                else if (p =? 98) || (p =? 66) then pref 2 r
                else match T.int_digits 10 s 0 false with Some 0 => Some 0 | _ => None end
            | [] => Some 0
            end
          else if Nat.ltb 4300 (length (filter T.is_decimal s)) then None
          else T.int_digits 10 s 0 false
      end in
    match mag with Some m => Some (if neg then - m else m) | None => None end.

  (* _rr_line *)
  Definition rr_line (r : rdr) (m : tmsg) (section : Z) : res rdr :=
    do rn <- owner r;
    let '(r1, n) := rn in
    do ts <- T.get0 (t_tok r1);
    if negb (T.is_identifier (fst ts)) then Lib T.eSyntax
    else
      (* TTL *)
      do tq <- (match int0 (T.tvalue (fst ts)) with
                | Some v =>
                    if (v <? 0) || (v >? 4294967295) then Lib T.eSyntax
                    else
                      match T.get0 (snd ts) with
                      | Ok (tk2, st2) => if negb (T.is_identifier tk2) then Lib T.eSyntax else Ok (v, tk2, st2)
                      | Lib e => if T.in_syntax_family e then Lib T.eSyntax else Ok (0, fst ts, snd ts)
                      | Internal _ => Ok (0, fst ts, snd ts)
                      end
                | None => Ok (0, fst ts, snd ts)
                end);
      let '(ttl, tk1, st1) := tq in
      do cc <- class_column tk1 st1;
      let '(rdclass, tk, st) := cc in
      do rdtype <- type_column tk;
      do hd <- parse_rr_header m section rdclass rdtype;
      let '(rdclass', deleting, empty) := hd in
      do ts3 <- T.get0 st;
      let eol := T.is_eol_or_eof (fst ts3) in
      if empty && negb eol then Lib T.eSyntax
      else if negb empty && eol then Lib T.eUnexpectedEnd
      else
        do hs <- (if negb eol then
                    do st4 <- T.unget (snd ts3) (fst ts3);
                    do rd <- rdata_from_tok rdclass' rdtype st4; Ok (true, snd rd)
                  else Ok (false, snd ts3));
        let '(have_rd, st5) := hs in
        let rec := mkRR section n rdclass' rdtype (if have_rd then ttl else 0) deleting (if have_rd then 1 else 0) in
        Ok (set_msg (set_tok r1 st5) (mkTM (tm_update m) (tm_flags m) (tm_opt m) (tm_q m) (rec :: tm_rrs m)) (t_orps r1)).

  (* which line method is current *)
  Inductive lmeth := LHeader | LQuestion | LRR.

  (* _TextReader.read *)
  Fixpoint read_loop (fuel : nat) (r : rdr) (lm : lmeth) (section : Z) : res rdr :=
    match fuel with
    | O => Internal iFuelT
    | S f =>
        do ts <- T.get (t_tok r) true true;
        let '(tk, st) := ts in
        if T.is_eol_or_eof tk then Ok (set_tok r st)
        else if T.ttype tk =? T.tCOMMENT then
          let u := upper_l (T.tvalue tk) in
          let lm1 := if zlist_eqb u [72;69;65;68;69;82] then LHeader else lm in
          let m := match t_msg r with Some m => m | None => make_message r end in
          let '(r1, lm2, sec2) :=
            match enum_from_text (section_tbl (tm_update m)) [] 3 0 u with
            | Ok sn =>
                let r1 := match t_msg r with
                          | Some _ => r
                          | None => set_msg r m (if tm_update m then true else t_orps r)
                          end in
                (r1, (if sn =? 0 then LQuestion else LRR), sn)
            | _ => (r, lm1, section)
            end in
          do st' <- get_eol st;
          read_loop f (set_tok r1 st') lm2 sec2
        else
          do st1 <- T.unget st tk;
          let r0 := set_tok r st1 in
          do r' <- (match lm with
                    | LHeader => header_line r0
                    | LQuestion => match t_msg r0 with Some m => question_line r0 m section | None => Internal 103 end
                    | LRR => match t_msg r0 with Some m => rr_line r0 m section | None => Internal 103 end
                    end);
          read_loop f r' lm section
    end.

  Definition r0 (text : list Z) (orps : bool) : rdr :=
    mkR (T.init text) None (-1) 0 1232 0 0 0 None orps.

  Definition from_text (text : list Z) (orps : bool) : res tmsg :=
    do r <- read_loop (S (S (length text))) (r0 text orps) LHeader 0;
    Ok (match t_msg r with Some m => m | None => make_message r end).
End Reader.

(* ---------- executable instance and harness interface ---------- *)
(* dns.rdatatype.from_text: C05's model of it (the full mnemonic table, '-' / '_' spellings, TYPEnnn) *)
Definition type_from_text_run (v : list Z) : res Z :=
  match RdTextM.rdtype_from_text v with
  | Lib _ => Lib eUnknownRdatatype
  | x => x
  end.

(* class IN: C05's text schema for the type, else GenericRdata.from_text *)
(* types implemented under dns/rdtypes/IN only: in any other class get_rdata_class gives GenericRdata *)
Definition in_only (rdtype : Z) : bool :=
  existsb (Z.eqb rdtype) [1; 28; 42; 49; 65; 45; 36; 35; 22; 23; 26; 33; 64; 11].

Definition per_type_run (pctx : RdTextM.pctx) (rdclass rdtype : Z) (st : T.tstate) : res (unit * T.tstate) :=
  match (if rdclass =? 1 then RdTextM.schema_of rdtype
         (* a type implemented under dns/rdtypes/IN only: in another class the class-specific module
            if there is one (CH A: C05's key rdclass * 65536 + rdtype), else GenericRdata *)
         else if in_only rdtype then (if rdclass =? 0 then None else RdTextM.schema_of (rdclass * 65536 + rdtype))
         else RdTextM.schema_of rdtype) with
  | Some fs => do r <- RdTextM.class_from_text pctx fs (RdTextM.schema_chk rdtype) st; Ok (tt, snd r)
  | None => do r <- T.generic_from_text st; Ok (tt, snd r)
  end.

Definition obs_of_rr (r : rrec) : obs :=
  L [I (r_sec r); obs_of_name (r_name r); I (r_class r); I (r_type r); I (r_ttl r); I (r_deleting r); I (r_n r)].

Definition run (c : obs) : obs :=
  match c with
  | L [I 1; t; I orps; o; I rel] =>
      match T.text_of_obs t, oname_of_obs o with
      | Some text, Some origin =>
          let pctx := RdTextM.mkPctx origin (rel =? 1) None in
          match from_text (per_type_run pctx) pctx type_from_text_run text (orps =? 1) with
          | Ok m =>
              L [I (tm_flags m);
                 match tm_opt m with Some v => I v | None => N end;
                 L (map (fun q => let '(n, t, c) := q in L [obs_of_name n; I t; I c]) (rev (tm_q m)));
                 (* message.sections groups the records by section *)
                 (if (orps =? 1) || tm_update m
                  then L (map obs_of_rr (flat_map (fun sec => filter (fun r => r_sec r =? sec) (rev (tm_rrs m))) [1; 2; 3]))
                  else N)]
          | Lib e => E e
          | Internal e => E e
          end
      | _, _ => E 999
      end
  | _ => E 999
  end.
