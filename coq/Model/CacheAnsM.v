(* C17 - where an Answer's expiration comes from.

   dns.resolver.Answer.__init__ :  self.chaining_result = response.resolve_chaining()
                                   self.expiration = time.time() + self.chaining_result.minimum_ttl
   QueryMessage.resolve_chaining is modelled in Model/ResolM.v (property C16: CNAME walk bounded
   by MAX_CHAIN, minimum TTL over the chain and the answer RRset, for a negative reply the TTL
   and MINIMUM of the closest enclosing SOA); this file reuses that model read-only and adds the
   harness operation 13 "put the Answer built from this response message".
   A failing resolve_chaining makes the Answer constructor raise: codes 20 + ResolM's code
   (20 NotQueryResponse, 21 FormError, 22 ChainTooLong, 23 AnswerForNXDOMAIN). *)
From DV Require Import Base.Prelude Model.NameM.
From DV Require Model.ResolM.
From DV Require Import Model.CacheM.

Definition eChainBase := 20.

Definition answer_of_msg (m : ResolM.msg) (vid : Z) (t : Z) : res ans :=
  match ResolM.resolve_chaining m with
  | Ok ch => Ok (mkAns vid (t + ResolM.ch_min_ttl ch))
  | Lib e => Lib (eChainBase + e)
  | Internal e => Internal (eChainBase + e)
  end.

(* ---------- decoding of a response message ---------- *)
Definition name_of (o : obs) : option name :=
  match o with L l => name_of_obs l | _ => None end.

Definition rdata_of (o : obs) : option ResolM.rdata :=
  match o with
  | L [I 0; n] => option_map ResolM.DName (name_of n)
  | L [I 1; I m] => Some (ResolM.DSoa m)
  | L [I 2; I k] => Some (ResolM.DOther k)
  | _ => None
  end.

Fixpoint map_opt {A B} (f : A -> option B) (l : list A) : option (list B) :=
  match l with
  | [] => Some []
  | x :: r => match f x, map_opt f r with Some y, Some ys => Some (y :: ys) | _, _ => None end
  end.

Definition rrset_of (o : obs) : option ResolM.rrset :=
  match o with
  | L [n; I cls; I ty; I ttl; L ds] =>
      match name_of n, map_opt rdata_of ds with
      | Some n, Some ds =>
          Some {| ResolM.rs_name := n; ResolM.rs_class := cls; ResolM.rs_type := ty;
                  ResolM.rs_ttl := ttl; ResolM.rs_data := ds |}
      | _, _ => None
      end
  | _ => None
  end.

Definition question_of (o : obs) : option ResolM.question :=
  match o with
  | L [n; I cls; I ty] =>
      option_map (fun n => {| ResolM.q_name := n; ResolM.q_class := cls; ResolM.q_type := ty |}) (name_of n)
  | _ => None
  end.

Definition msg_of (o : obs) : option ResolM.msg :=
  match o with
  | L [I qr; I rc; L qs; L ans; L auth] =>
      match map_opt question_of qs, map_opt rrset_of ans, map_opt rrset_of auth with
      | Some qs, Some ans, Some auth =>
          Some {| ResolM.m_qr := negb (qr =? 0); ResolM.m_rcode := rc; ResolM.m_question := qs;
                  ResolM.m_answer := ans; ResolM.m_authority := auth |}
      | _, _, _ => None
      end
  | _ => None
  end.

Definition hop_of_obs_msg (o : obs) : option hop :=
  match o with
  | L [I 13; I k; I vid; m; L ds] =>
      match msg_of m, zs_of_obs ds with
      | Some m, Some d => Some (HPutAns k (answer_of_msg m vid) d)
      | _, _ => None
      end
  | _ => hop_of_obs o
  end.

Definition run : obs -> obs := run_with hop_of_obs_msg.
