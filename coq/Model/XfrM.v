(* C13 - executable model of dns/xfr.py (Inbound), the part of dns/transaction.py it uses,
   dns/serial.py (__lt__), the answer-section grouping of dns/message.py (_get_section with
   xfr=True) and the driver loop of dns/query.py (_inbound_xfr).  Definitions only.

   Abstraction (done by harness/pC13.py when it builds real dns.message / dns.zone objects):
     name   : Z      0 = the zone origin, > 0 = another name below the origin,
                     < 0 = a name that is not a subdomain of the origin
     rdata  : Z      an identifier of the RDATA value; for SOA the identifier is
                     serial + 2^32 * v  (v identifies the remaining SOA fields)
     class/type/covers/ttl/rcode : the DNS numbers
   A zone is a finite map  (name, type, covers) -> (ttl, set of rdata)  (class fixed: IN);
   rdata sets are kept as strictly increasing lists (dns.set.Set compares order-insensitively). *)
From DV Require Import Base.Prelude.

Definition tSOA : Z := 6.
Definition tIXFR : Z := 251.
Definition tAXFR : Z := 252.
Definition cIN : Z := 1.
Definition origin : Z := 0.
Definition two32 : Z := 4294967296.
Definition two31 : Z := 2147483648.

(* name.is_subdomain(self.origin) *)
Definition in_zone (n : Z) : bool := 0 <=? n.

(* ---- error codes (harness maps exception class + message text to the same numbers) ---- *)
Definition eTransfer : Z := 1.        (* TransferError: rcode != NOERROR *)
Definition eQName : Z := 10.          (* FormError "wrong question name" *)
Definition eQType : Z := 11.          (* FormError "wrong question rdatatype" *)
Definition eNoAnswer : Z := 12.       (* FormError "No answer or RRset not for zone origin" *)
Definition eFirstNotSOA : Z := 13.    (* FormError "first RRset is not an SOA" *)
Definition eAfterFinal : Z := 14.     (* FormError "answers after final SOA" *)
Definition eEmptyIXFR : Z := 15.      (* FormError "empty IXFR sequence" *)
Definition eUnexpectedEnd : Z := 16.  (* FormError "unexpected end of IXFR sequence" *)
Definition eBaseMismatch : Z := 17.   (* FormError "IXFR base serial mismatch" *)
Definition eAXFRSOA : Z := 18.        (* FormError "unexpected origin SOA in AXFR" *)
Definition eUDPEnd : Z := 19.         (* FormError "unexpected end of UDP IXFR" *)
Definition eBackwards : Z := 20.      (* SerialWentBackwards *)
Definition eUseTCP : Z := 21.         (* UseTCP *)
Definition eDeleteNotExact : Z := 22. (* dns.transaction.DeleteNotExact *)
Definition eMissingTSIG : Z := 23.    (* FormError "missing TSIG" *)
Definition eValueClass : Z := 30.     (* ValueError "... has objects of wrong RdataClass" *)
Definition eValueSOA : Z := 31.       (* ValueError "... has non-origin SOA" *)
Definition eValueInit : Z := 32.      (* ValueError raised by Inbound.__init__ *)
Definition eValueEmpty : Z := 33.     (* ValueError "rdata list must not be empty" (RRset.to_rdataset) *)
Definition eEOF : Z := 40.            (* EOFError: the stream ended before the transfer was done *)
Definition eIndex : Z := 50.          (* rdataset[0] on an RRset without rdata (StopIteration from Set.__getitem__) *)
Definition eAssert : Z := 51.         (* AssertionError: assert self.txn is not None *)

(* ---- rdata sets: strictly increasing lists ---- *)
Fixpoint ins (x : Z) (l : list Z) : list Z :=
  match l with
  | [] => [x]
  | y :: r => if x <? y then x :: l else if x =? y then l else y :: ins x r
  end.

Fixpoint mem (x : Z) (l : list Z) : bool :=
  match l with
  | [] => false
  | y :: r => (x =? y) || mem x r
  end.

(* Set.union_update: add every item of b *)
Definition union (a b : list Z) : list Z := fold_left (fun acc x => ins x acc) b a.
Definition diff (a b : list Z) : list Z := filter (fun x => negb (mem x b)) a.
Definition inter (a b : list Z) : list Z := filter (fun x => mem x b) a.
Definition set_eqb (a b : list Z) : bool :=
  forallb (fun x => mem x b) a && forallb (fun x => mem x a) b.

(* ---- zones ---- *)
Definition key := (Z * Z * Z)%type.            (* name, rdtype, covers *)
Definition entry := (Z * list Z)%type.          (* ttl, rdatas *)
Definition zone := list (key * entry).

Definition key_eqb (a b : key) : bool :=
  let '(a1, a2, a3) := a in
  let '(b1, b2, b3) := b in
  (a1 =? b1) && (a2 =? b2) && (a3 =? b3).

Fixpoint look (z : zone) (k : key) : option entry :=
  match z with
  | [] => None
  | (k', e) :: r => if key_eqb k k' then Some e else look r k
  end.

Fixpoint zremove (k : key) (z : zone) : zone :=
  match z with
  | [] => []
  | (k', e) :: r => if key_eqb k k' then zremove k r else (k', e) :: zremove k r
  end.

Definition zput (k : key) (e : entry) (z : zone) : zone := (k, e) :: zremove k z.

Definition name_of_key (k : key) : Z := let '(n, _, _) := k in n.

(* dns/node.py NodeKind.classify(rdtype, covers): 2 = CNAME (CNAME, RRSIG(CNAME)),
   1 = NEUTRAL (NSEC, NSEC3, KEY and their RRSIGs), 0 = REGULAR *)
Definition kind_of (t cv : Z) : Z :=
  let neutral x := (x =? 47) || (x =? 50) || (x =? 25) in
  if (t =? 5) || ((t =? 46) && (cv =? 5)) then 2
  else if neutral t || ((t =? 46) && neutral cv) then 1
  else 0.

Definition key_kind (k : key) : Z := let '(_, t, cv) := k in kind_of t cv.

(* Node._append_rdataset: storing a CNAME-kind rdataset drops the REGULAR rdatasets of that node, storing a
   REGULAR one drops the CNAME-kind ones ("the most recent change wins"); NEUTRAL ones coexist with both *)
Definition conflicts (k k' : key) : bool :=
  (name_of_key k =? name_of_key k') &&
  (((key_kind k =? 2) && (key_kind k' =? 0)) || ((key_kind k =? 0) && (key_kind k' =? 2))).

Definition node_clean (k : key) (z : zone) : zone :=
  filter (fun ke => negb (conflicts k (fst ke))) z.

(* Version._put_rdataset -> Node.replace_rdataset: delete the old rdataset, then _append_rdataset *)
Definition node_put (k : key) (e : entry) (z : zone) : zone := zput k e (node_clean k z).

(* ---- records and RRsets ---- *)
Record rr := mkRR { r_name : Z; r_class : Z; r_type : Z; r_covers : Z; r_ttl : Z; r_data : Z }.
Record rrset := mkRS { s_name : Z; s_class : Z; s_type : Z; s_covers : Z; s_ttl : Z; s_data : list Z }.

Definition skey (s : rrset) : key := (s_name s, s_type s, s_covers s).

(* RRset.__eq__ / Rdataset.__eq__: name, class, type, covers, items as a set; the TTL is not compared *)
Definition rrset_eqb (a b : rrset) : bool :=
  (s_name a =? s_name b) && (s_class a =? s_class b) && (s_type a =? s_type b)
  && (s_covers a =? s_covers b) && set_eqb (s_data a) (s_data b).

(* ---- dns/message.py _get_section (xfr=True): how the records of one answer section become
        RRsets.  force_unique starts as one_rr_per_rrset and stays True from the first SOA on. ---- *)
Definition clamp_ttl (t : Z) : Z := if t >? 2147483647 then 0 else t.

Definition single (r : rr) : rrset :=
  mkRS (r_name r) (r_class r) (r_type r) (r_covers r) (clamp_ttl (r_ttl r)) [r_data r].

Definition same_rrset (r : rr) (s : rrset) : bool :=
  (r_name r =? s_name s) && (r_class r =? s_class s) && (r_type r =? s_type s) && (r_covers r =? s_covers s).

(* dns.rdatatype.is_singleton: SOA, NXT, DNAME, NSEC, CNAME *)
Definition is_singleton (t : Z) : bool :=
  (t =? 6) || (t =? 30) || (t =? 39) || (t =? 47) || (t =? 5).

(* Rdataset.add(rd): a singleton type keeps only the newest rdata ("if is_singleton and len(self) > 0:
   self.clear()") *)
Definition rds_add (ty : Z) (d : Z) (ds : list Z) : list Z :=
  if is_singleton ty then [d] else ins d ds.

(* rrset.add(rd, ttl): update_ttl (minimum; the set is never empty here), then add the item *)
Definition rrset_add (s : rrset) (r : rr) : rrset :=
  let t := clamp_ttl (r_ttl r) in
  mkRS (s_name s) (s_class s) (s_type s) (s_covers s)
       (match s_data s with [] => t | _ => if t <? s_ttl s then t else s_ttl s end)
       (rds_add (s_type s) (r_data r) (s_data s)).

(* find_rrset(create=True, force_unique=False) followed by rrset.add *)
Fixpoint add_to (r : rr) (acc : list rrset) : list rrset :=
  match acc with
  | [] => [single r]
  | s :: acc' => if same_rrset r s then rrset_add s r :: acc' else s :: add_to r acc'
  end.

Fixpoint group_go (force : bool) (acc : list rrset) (rs : list rr) : list rrset :=
  match rs with
  | [] => acc
  | r :: rest =>
      let force' := force || (r_type r =? tSOA) in
      group_go force' (if force' then acc ++ [single r] else add_to r acc) rest
  end.

Definition group (one_rr : bool) (rs : list rr) : list rrset := group_go one_rr [] rs.

(* ---- dns/transaction.py over a zone version (class IN) ---- *)

(* Transaction._add(replace, (name, rrset)): the RRset handed over by dns.xfr is first converted
   with RRset.to_rdataset(), which raises ValueError("rdata list must not be empty") *)
Definition t_add (replace : bool) (z : zone) (s : rrset) : res zone :=
  match s_data s with
  | [] => Internal eValueEmpty
  | _ :: _ =>
      if negb (s_class s =? cIN) then Internal eValueClass
      else if (s_type s =? tSOA) && negb (s_name s =? origin) then Internal eValueSOA
      else
        let k := skey s in
        let e :=
          if replace then (s_ttl s, s_data s)
          else match look z k with
               | Some (ettl, erds) =>
                   (* existing.union(rdataset): union_update -> update_ttl (minimum), then
                      Rdataset.add for every item (singleton types keep only the newest) *)
                   ((if s_ttl s <? ettl then s_ttl s else ettl),
                    fold_left (fun acc x => rds_add (s_type s) x acc) (s_data s) erds)
               | None => (s_ttl s, s_data s)
               end in
        Ok (node_put k e z)
  end.

(* Transaction._delete(exact=True, (name, rrset)) *)
Definition t_delete_exact (z : zone) (s : rrset) : res zone :=
  match s_data s with
  | [] => Internal eValueEmpty
  | _ :: _ =>
      if negb (s_class s =? cIN) then Internal eValueClass
      else
        let k := skey s in
        match look z k with
        | None => Lib eDeleteNotExact
        | Some (ettl, erds) =>
            if negb (set_eqb (inter erds (s_data s)) (s_data s)) then Lib eDeleteNotExact
            else
              match diff erds (s_data s) with
              | [] => Ok (zremove k z)
              | rest => Ok (node_put k (ettl, rest) z)
              end
        end
  end.

(* ---- dns/serial.py: Serial(a) < b for 32 bits ---- *)
Definition serial_lt (a b : Z) : bool :=
  let a := a mod two32 in
  let b := b mod two32 in
  ((a <? b) && (b - a <? two31)) || ((a >? b) && (a - b >? two31)).

(* Serial(a) > b, ==, <=, >= and Serial(a) + d (ValueError when |d| > 2^31 - 1) *)
Definition serial_gt (a b : Z) : bool :=
  let a := a mod two32 in
  let b := b mod two32 in
  ((a <? b) && (b - a >? two31)) || ((a >? b) && (a - b <? two31)).
Definition serial_eq (a b : Z) : bool := (a mod two32) =? (b mod two32).
Definition serial_le (a b : Z) : bool := serial_eq a b || serial_lt a b.
Definition serial_ge (a b : Z) : bool := serial_eq a b || serial_gt a b.
Definition serial_add (a d : Z) : res Z :=
  if Z.abs d >? two31 - 1 then Internal eValueInit else Ok ((a mod two32 + d) mod two32).

(* ---- dns/xfr.py Inbound ---- *)
Record st := mkSt {
  pub : zone;            (* the zone as published by the transaction manager *)
  txn : option zone;     (* self.txn: the version under construction *)
  rdtype : Z;
  incremental : bool;
  serial : Z;            (* self.serial (only read while incremental) *)
  is_udp : bool;
  soa : option rrset;    (* self.soa_rdataset *)
  done : bool;
  expecting : bool;      (* self.expecting_SOA *)
  delmode : bool;        (* self.delete_mode *)
  req_tsig : bool        (* self.require_tsig *)
}.

Definition set_pub (s : st) v := mkSt v (txn s) (rdtype s) (incremental s) (serial s) (is_udp s) (soa s) (done s) (expecting s) (delmode s) (req_tsig s).
Definition set_txn (s : st) v := mkSt (pub s) v (rdtype s) (incremental s) (serial s) (is_udp s) (soa s) (done s) (expecting s) (delmode s) (req_tsig s).
Definition set_incremental (s : st) v := mkSt (pub s) (txn s) (rdtype s) v (serial s) (is_udp s) (soa s) (done s) (expecting s) (delmode s) (req_tsig s).
Definition set_serial (s : st) v := mkSt (pub s) (txn s) (rdtype s) (incremental s) v (is_udp s) (soa s) (done s) (expecting s) (delmode s) (req_tsig s).
Definition set_soa (s : st) v := mkSt (pub s) (txn s) (rdtype s) (incremental s) (serial s) (is_udp s) v (done s) (expecting s) (delmode s) (req_tsig s).
Definition set_done (s : st) v := mkSt (pub s) (txn s) (rdtype s) (incremental s) (serial s) (is_udp s) (soa s) v (expecting s) (delmode s) (req_tsig s).
Definition set_expecting (s : st) v := mkSt (pub s) (txn s) (rdtype s) (incremental s) (serial s) (is_udp s) (soa s) (done s) v (delmode s) (req_tsig s).
Definition set_delmode (s : st) v := mkSt (pub s) (txn s) (rdtype s) (incremental s) (serial s) (is_udp s) (soa s) (done s) (expecting s) v (req_tsig s).

(* Inbound.__init__ (the origin is always known for a zone) *)
Definition init_t (req : bool) (z : zone) (rdt : Z) (ser : option Z) (udp : bool) : st + Z :=
  if rdt =? tIXFR then
    match ser with
    | None => inr eValueInit
    | Some sv => inl (mkSt z None rdt true sv udp None false false false req)
    end
  else if rdt =? tAXFR then
    if udp then inr eValueInit
    else inl (mkSt z None rdt false (match ser with Some sv => sv | None => 0 end) udp None false false false req)
  else inr eValueInit.

(* require_tsig defaults to False *)
Definition init (z : zone) (rdt : Z) (ser : option Z) (udp : bool) : st + Z := init_t false z rdt ser udp.

(* soa.serial of rdataset[0] *)
Definition soa_serial (s : rrset) : option Z :=
  match s_data s with
  | d :: _ => Some (d mod two32)
  | [] => None
  end.

(* a parsed message as process_message sees it *)
Record message := mkMsg { m_rcode : Z; m_question : list (Z * Z); m_answer : list rrset; m_tsig : bool (* message.had_tsig *) }.

Definition res_of {A} (s : st) (r : res A) (k : A -> st * option Z) : st * option Z :=
  match r with
  | Ok a => k a
  | Lib e => (s, Some e)
  | Internal e => (s, Some e)
  end.

(* where an RRset stands in its message: not the last one; the last one of a message that carries a
   TSIG; the last one of a message without TSIG *)
Inductive flag := Mid | Last | LastNoSig.
Definition flag_of_bool (b : bool) : flag := if b then Last else Mid.
Coercion flag_of_bool : bool >-> flag.

(* the body of "for index, rrset in enumerate(rrsets)" *)
Definition step (fl : flag) (s : st) (r : rrset) : st * option Z :=
  if done s then (s, Some eAfterFinal)
  else
    match txn s with
    | None => (s, Some eAssert)
    | Some tz =>
        if (s_type r =? tSOA) && (s_name r =? origin) then
          let dm := if incremental s then negb (delmode s) else delmode s in
          let s := set_delmode s dm in
          if (match soa s with Some s0 => rrset_eqb r s0 | None => false end)
             && (negb (incremental s) || dm) then
            (* the final SOA *)
            match soa_serial r with
            | None => (s, Some eIndex)
            | Some ss =>
                if expecting s then (s, Some eEmptyIXFR)
                else if incremental s && negb (serial s =? ss) then (s, Some eUnexpectedEnd)
                else
                  match fl with
                  | Mid => (s, Some eAfterFinal)                 (* index != len(rrsets) - 1 *)
                  | _ =>
                      if req_tsig s && (match fl with LastNoSig => true | _ => false end)
                      then (s, Some eMissingTSIG)                (* require_tsig and not message.had_tsig *)
                      else
                        res_of s (t_add true tz r)
                          (fun tz' => (set_done (set_txn (set_pub s tz') None) true, None))   (* commit *)
                  end
            end
          else
            let s := set_expecting s false in
            match soa_serial r with
            | None => (s, Some eIndex)
            | Some ss =>
                if incremental s then
                  if dm then
                    if negb (ss =? serial s) then (s, Some eBaseMismatch) else (s, None)
                  else
                    let s := set_serial s ss in
                    res_of s (t_add true tz r) (fun tz' => (set_txn s (Some tz'), None))
                else (s, Some eAXFRSOA)
            end
        else
          (* AXFR-style answer to an IXFR: roll back, start a replacement transaction *)
          let '(s, tz) :=
            if expecting s
            then (set_txn (set_delmode (set_expecting (set_incremental s false) false) false) (Some []), [])
            else (s, tz) in
          if negb (in_zone (s_name r)) then (s, None)
          else if delmode s then
            res_of s (t_delete_exact tz r) (fun tz' => (set_txn s (Some tz'), None))
          else
            res_of s (t_add false tz r) (fun tz' => (set_txn s (Some tz'), None))
    end.

Fixpoint loopT (sig : bool) (s : st) (rs : list rrset) : st * option Z :=
  match rs with
  | [] => (s, None)
  | r :: rest =>
      match step (match rest with [] => (if sig then Last else LastNoSig) | _ => Mid end) s r with
      | (s', Some e) => (s', Some e)
      | (s', None) => loopT sig s' rest
      end
  end.

(* the loop over the RRsets of a message that carries a TSIG *)
Notation loop := (loopT true).

(* Inbound.process_message; the returned state is the state at return / at the raise *)
Definition process_message (s : st) (m : message) : st * option Z :=
  let s := match txn s with
           | None => set_txn s (Some (if incremental s then pub s else []))   (* writer(not incremental) *)
           | Some _ => s
           end in
  if negb (m_rcode m =? 0) then (s, Some eTransfer)
  else
    match (match m_question m with
           | (qn, qt) :: _ =>
               if negb (qn =? origin) then Some eQName
               else if negb (qt =? rdtype s) then Some eQType else None
           | [] => None
           end) with
    | Some e => (s, Some e)
    | None =>
        let after (r : st * option Z) : st * option Z :=
          match r with
          | (s', Some e) => (s', Some e)
          | (s', None) => if is_udp s' && negb (done s') then (s', Some eUDPEnd) else (s', None)
          end in
        match soa s with
        | Some _ => after (loopT (m_tsig m) s (m_answer m))
        | None =>
            match m_answer m with
            | [] => (s, Some eNoAnswer)
            | r0 :: rest =>
                if negb (s_name r0 =? origin) then (s, Some eNoAnswer)
                else if negb (s_type r0 =? tSOA) then (s, Some eFirstNotSOA)
                else
                  let s := set_soa s (Some r0) in
                  if incremental s then
                    match soa_serial r0 with
                    | None => (s, Some eIndex)
                    | Some ss =>
                        if ss =? serial s then after (loopT (m_tsig m) (set_done s true) rest)
                        else if serial_lt ss (serial s) then (s, Some eBackwards)
                        else if is_udp s && (match rest with [] => true | _ => false end)
                             then (s, Some eUseTCP)
                        else after (loopT (m_tsig m) (set_expecting s true) rest)
                    end
                  else after (loopT (m_tsig m) s rest)
            end
        end
    end.

(* ---- dns/query.py _inbound_xfr: one wire message = rcode, questions, answer records ---- *)
Record wmsg := mkWT { w_rcode : Z; w_question : list (Z * Z); w_records : list rr; w_tsig : bool }.
Definition mkW (rc : Z) (q : list (Z * Z)) (rs : list rr) : wmsg := mkWT rc q rs false.

Definition from_wire (one_rr : bool) (w : wmsg) : message :=
  mkMsg (w_rcode w) (w_question w) (group one_rr (w_records w)) (w_tsig w).

Inductive result :=
| Done (z : zone)            (* the generator ran to completion; z = zone content afterwards *)
| Error (e : Z) (z : zone).  (* an exception propagated; Inbound.__exit__ rolled back an open txn *)

(* "while not done": read, parse, process.  Running out of messages is EOFError.
   The nat counts the messages that were processed without an exception (= yielded). *)
Fixpoint drive (one_rr : bool) (s : st) (ws : list wmsg) : result * nat :=
  match ws with
  | [] => (Error eEOF (pub s), 0%nat)
  | w :: rest =>
      match process_message s (from_wire one_rr w) with
      | (s', Some e) => (Error e (pub s'), 0%nat)
      | (s', None) =>
          if done s' then
            (* after the loop: "if query.keyring and r is not None and not r.had_tsig: raise
               FormError('missing TSIG')" (only reachable for the up-to-date answer since 4883021) *)
            if req_tsig s' && negb (w_tsig w) then (Error eMissingTSIG (pub s'), 1%nat)
            else (Done (pub s'), 1%nat)
          else let '(r, n) := drive one_rr s' rest in (r, S n)
      end
  end.

(* req = bool(query.keyring) *)
Definition xfr_run (req : bool) (z : zone) (rdt : Z) (ser : option Z) (udp : bool) (ws : list wmsg) : result * nat :=
  match init_t req z rdt ser udp with
  | inr e => (Error e z, 0%nat)
  | inl s => drive (rdt =? tIXFR) s ws
  end.

(* a transfer without TSIG keyring *)
Definition inbound_xfr (z : zone) (rdt : Z) (ser : option Z) (udp : bool) (ws : list wmsg) : result * nat :=
  xfr_run false z rdt ser udp ws.

(* ---- the older API: dns.zone.from_xfr(dns.query.xfr(...)), AXFR.  dns.query.xfr runs _inbound_xfr on a
   transaction manager whose transactions do nothing and yields every message it has processed;
   dns.zone.from_xfr adds every RRset of every yielded message (out-of-zone ones too, the SOA twice) to a
   fresh zone - node.find_rdataset(create=True) (a new rdataset goes through _append_rdataset),
   update_ttl (minimum), Rdataset.add for every rdata - and ends with check_origin (NoSOA / NoNS).
   The validation part is the real state machine on the empty zone: the same as the do-nothing
   transactions as long as no transaction operation would fail (records of the zone's class, no SOA below
   the apex, no RRset without rdata). ---- *)
Definition eNoSOA : Z := 60.
Definition eNoNS : Z := 61.

Definition fx_add (z : zone) (s : rrset) : zone :=
  let k := skey s in
  match look z k with
  | Some (t, ds) =>
      zput k ((if s_ttl s <? t then s_ttl s else t), fold_left (fun acc x => rds_add (s_type s) x acc) (s_data s) ds) z
  | None => node_put k (s_ttl s, fold_left (fun acc x => rds_add (s_type s) x acc) (s_data s) []) z
  end.

Definition from_xfr (ws : list wmsg) : res zone :=
  let z := fold_left fx_add (flat_map (fun w => group false (w_records w)) ws) [] in
  match look z (origin, tSOA, 0) with
  | None => Lib eNoSOA
  | Some _ => match look z (origin, 2, 0) with None => Lib eNoNS | Some _ => Ok z end
  end.

Definition legacy_axfr (ws : list wmsg) : res zone :=
  match inbound_xfr [] tAXFR None false ws with
  | (Done _, n) => from_xfr (firstn n ws)
  | (Error e _, _) => Lib e
  end.

(* feeding already parsed messages to process_message one after the other (the public API used
   without the driver): per-message results (0 = returned False, rTrue = returned True, otherwise the
   error code), stop at the first exception, then __exit__ *)
Definition rTrue : Z := 1000.
Fixpoint feed (s : st) (ms : list message) : list Z * zone :=
  match ms with
  | [] => ([], pub s)
  | m :: rest =>
      match process_message s m with
      | (s', Some e) => ([e], pub s')
      | (s', None) => let '(l, z) := feed s' rest in ((if done s' then rTrue else 0) :: l, z)
      end
  end.

(* ---- dns.xfr.make_query / extract_serial_from_query (the serial / rdtype decision only) ----
   serial argument: None | Some n ; zone: has an SOA with serial zs or not *)
Definition make_query (zone_serial : option Z) (ser : option Z) : res (Z * option Z) :=
  match ser with
  | None => Ok (tAXFR, None)
  | Some n =>
      if n =? 0 then
        match zone_serial with
        | Some zs => Ok (tIXFR, Some zs)
        | None => Ok (tAXFR, None)
        end
      else if (0 <? n) && (n <? two32) then Ok (tIXFR, Some n)
      else Internal eValueInit
  end.

(* the query carries the rdtype in the question and, iff serial is not None, an SOA with that serial
   in the authority section; extract_serial_from_query reads it back *)
Definition extract_serial (q : Z * option Z) : res (option Z) :=
  let '(qt, auth) := q in
  if qt =? tAXFR then Ok None
  else if negb (qt =? tIXFR) then Internal eValueInit
  else match auth with
       | Some n => Ok (Some n)
       | None => Internal 52   (* KeyError: no SOA rrset in the authority section *)
       end.

(* ---- repeated refresh of a zone from a server (end to end): make_query on the zone as it is now,
        extract_serial_from_query, the server's answer for THAT serial, _inbound_xfr ---- *)
Definition zone_serial (z : zone) : option Z :=
  match look z (origin, tSOA, 0) with
  | Some (_, d :: _) => Some (d mod two32)
  | _ => None
  end.

Definition oz_eqb (a b : option Z) : bool :=
  match a, b with
  | Some x, Some y => x =? y
  | None, None => true
  | _, _ => false
  end.

(* the server's answers, keyed by the serial in the query; the row keyed None is the full transfer
   sent for an AXFR query or for a serial the server has no history for *)
Fixpoint find_row (table : list (option Z * list wmsg)) (k : option Z) : option (list wmsg) :=
  match table with
  | [] => None
  | (k', ms) :: rest => if oz_eqb k' k then Some ms else find_row rest k
  end.

Definition pick (table : list (option Z * list wmsg)) (ser : option Z) : list wmsg :=
  match find_row table ser with
  | Some ms => ms
  | None => match find_row table None with Some ms => ms | None => [] end
  end.

Definition result_zone (r : result) : zone := match r with Done z => z | Error _ z => z end.
Definition result_code (r : result) : Z := match r with Done _ => 0 | Error e _ => e end.

(* one refresh: (query rdtype, serial returned by make_query, serial read back from the query,
   outcome code, zone afterwards) *)
Definition refresh1 (z : zone) (table : list (option Z * list wmsg))
  : res (Z * option Z * option Z * Z * zone) :=
  do q <- make_query (zone_serial z) (Some 0);
  let '(qt, s) := q in
  do s2 <- extract_serial (qt, s);
  let '(r, _) := inbound_xfr z qt s2 false (pick table s2) in
  Ok (qt, s, s2, result_code r, result_zone r).

Fixpoint refreshes (z : zone) (tables : list (list (option Z * list wmsg)))
  : list (res (Z * option Z * option Z * Z * zone)) :=
  match tables with
  | [] => []
  | t :: rest =>
      match refresh1 z t with
      | Ok (qt, s, s2, c, z') => Ok (qt, s, s2, c, z') :: refreshes z' rest
      | Lib e => [Lib e]
      | Internal e => [Internal e]
      end
  end.

(* dns.query.inbound_xfr(where, txn_manager, query, udp_mode=...) once the query's rdtype qt, its
   serial s and whether it carries a TSIG keyring (kr) are known: an IXFR is first tried over UDP
   unless udp_mode is NEVER (0); UseTCP falls back to TCP for TRY_FIRST (1) and propagates for
   ONLY (2); any other outcome of the UDP attempt is final.  Inbound gets require_tsig = bool(keyring). *)
Definition xfr_core (kr : bool) (z : zone) (qt : Z) (s : option Z) (mode : Z)
           (tbu tbt : list (option Z * list wmsg)) : res (Z * zone) :=
  let tcp (_ : unit) : res (Z * zone) :=
    let '(r, _) := xfr_run kr z qt s false (pick tbt s) in Ok (result_code r, result_zone r) in
  if (qt =? tIXFR) && negb (mode =? 0) then
    let '(r, _) := xfr_run kr z qt s true (pick tbu s) in
    match r with
    | Done z' => Ok (0, z')
    | Error e z' =>
        if e =? eUseTCP then (if mode =? 2 then Ok (eUseTCP, z') else tcp Datatypes.tt)
        else Ok (e, z')
    end
  else tcp Datatypes.tt.

(* query=None: "query, serial = dns.xfr.make_query(txn_manager)" (no keyring) *)
Definition xfr_top (z : zone) (mode : Z) (tbu tbt : list (option Z * list wmsg)) : res (Z * zone) :=
  do q <- make_query (zone_serial z) (Some 0);
  let '(qt, s) := q in
  xfr_core false z qt s mode tbu tbt.

(* a query made by the caller with dns.xfr.make_query(zone, serial=qser, keyring=...): the keyring only
   makes the query signed (q.use_tsig); then "serial = dns.xfr.extract_serial_from_query(query)" *)
Definition xfr_top_query (z : zone) (qser : option Z) (kr : bool) (mode : Z)
           (tbu tbt : list (option Z * list wmsg)) : res (Z * zone) :=
  do q <- make_query (zone_serial z) qser;
  let '(qt, s) := q in
  do s2 <- extract_serial (qt, s);
  xfr_core kr z qt s2 mode tbu tbt.

(* ---- obs interface ---- *)
Fixpoint zs_of_obs (l : list obs) : option (list Z) :=
  match l with
  | [] => Some []
  | I x :: r => match zs_of_obs r with Some t => Some (x :: t) | None => None end
  | _ => None
  end.

Definition entry_of_obs (o : obs) : option (key * entry) :=
  match o with
  | L [I n; I t; I c; I ttl; L ds] =>
      match zs_of_obs ds with Some d => Some ((n, t, c), (ttl, d)) | None => None end
  | _ => None
  end.

Fixpoint zone_of_obs (l : list obs) : option zone :=
  match l with
  | [] => Some []
  | o :: r => match entry_of_obs o, zone_of_obs r with
              | Some e, Some t => Some (e :: t)
              | _, _ => None
              end
  end.

Definition rr_of_obs (o : obs) : option rr :=
  match o with
  | L [I n; I c; I t; I cv; I ttl; I d] => Some (mkRR n c t cv ttl d)
  | _ => None
  end.

Fixpoint rrs_of_obs (l : list obs) : option (list rr) :=
  match l with
  | [] => Some []
  | o :: r => match rr_of_obs o, rrs_of_obs r with
              | Some e, Some t => Some (e :: t)
              | _, _ => None
              end
  end.

Fixpoint qs_of_obs (l : list obs) : option (list (Z * Z)) :=
  match l with
  | [] => Some []
  | L [I n; I t] :: r => match qs_of_obs r with Some q => Some ((n, t) :: q) | None => None end
  | _ => None
  end.

Definition wmsg_of_obs (o : obs) : option wmsg :=
  match o with
  | L [I rc; L q; L rs] =>
      match qs_of_obs q, rrs_of_obs rs with
      | Some q, Some rs => Some (mkW rc q rs)
      | _, _ => None
      end
  | L [I rc; L q; L rs; I sg] =>
      match qs_of_obs q, rrs_of_obs rs with
      | Some q, Some rs => Some (mkWT rc q rs (sg =? 1))
      | _, _ => None
      end
  | _ => None
  end.

Fixpoint wmsgs_of_obs (l : list obs) : option (list wmsg) :=
  match l with
  | [] => Some []
  | o :: r => match wmsg_of_obs o, wmsgs_of_obs r with
              | Some e, Some t => Some (e :: t)
              | _, _ => None
              end
  end.

Definition rrset_of_obs (o : obs) : option rrset :=
  match o with
  | L [I n; I c; I t; I cv; I ttl; L ds] =>
      match zs_of_obs ds with Some d => Some (mkRS n c t cv ttl d) | None => None end
  | _ => None
  end.

Fixpoint rrsets_of_obs (l : list obs) : option (list rrset) :=
  match l with
  | [] => Some []
  | o :: r => match rrset_of_obs o, rrsets_of_obs r with
              | Some e, Some t => Some (e :: t)
              | _, _ => None
              end
  end.

Definition msg_of_obs (o : obs) : option message :=
  match o with
  | L [I rc; L q; L rs] =>
      match qs_of_obs q, rrsets_of_obs rs with
      | Some q, Some rs => Some (mkMsg rc q rs false)
      | _, _ => None
      end
  | _ => None
  end.

Fixpoint msgs_of_obs (l : list obs) : option (list message) :=
  match l with
  | [] => Some []
  | o :: r => match msg_of_obs o, msgs_of_obs r with
              | Some e, Some t => Some (e :: t)
              | _, _ => None
              end
  end.

Definition oz_of_obs (o : obs) : option (option Z) :=
  match o with
  | N => Some None
  | I x => Some (Some x)
  | _ => None
  end.

(* canonical dump: entries sorted by key *)
Definition key_ltb (a b : key) : bool :=
  let '(a1, a2, a3) := a in
  let '(b1, b2, b3) := b in
  (a1 <? b1) || ((a1 =? b1) && ((a2 <? b2) || ((a2 =? b2) && (a3 <? b3)))).

Fixpoint zinsert (ke : key * entry) (l : zone) : zone :=
  match l with
  | [] => [ke]
  | x :: r => if key_ltb (fst ke) (fst x) then ke :: l else x :: zinsert ke r
  end.

Definition zsort (z : zone) : zone := fold_right zinsert [] z.

Definition obs_of_zone (z : zone) : obs :=
  L (map (fun ke => let '((n, t, c), (ttl, ds)) := ke in
                    L [I n; I t; I c; I ttl; L (map I ds)]) (zsort z)).

Definition obs_of_result (rn : result * nat) : obs :=
  match rn with
  | (Done z, n) => L [I 0; I (Z.of_nat n); obs_of_zone z]
  | (Error e z, n) => L [I e; I (Z.of_nat n); obs_of_zone z]
  end.

Definition row_of_obs (o : obs) : option (option Z * list wmsg) :=
  match o with
  | L [k; L ws] =>
      match oz_of_obs k, wmsgs_of_obs ws with
      | Some k, Some ws => Some (k, ws)
      | _, _ => None
      end
  | _ => None
  end.

Fixpoint table_of_obs (l : list obs) : option (list (option Z * list wmsg)) :=
  match l with
  | [] => Some []
  | o :: r => match row_of_obs o, table_of_obs r with
              | Some e, Some t => Some (e :: t)
              | _, _ => None
              end
  end.

(* a refresh in the case: [target zone (for the oracle only); table] *)
Fixpoint tables_of_obs (l : list obs) : option (list (list (option Z * list wmsg))) :=
  match l with
  | [] => Some []
  | L [_; L t] :: r => match table_of_obs t, tables_of_obs r with
                       | Some e, Some ts => Some (e :: ts)
                       | _, _ => None
                       end
  | _ => None
  end.

Definition obs_of_oz (o : option Z) : obs := match o with Some x => I x | None => N end.

Definition eBadCase : Z := 999.

Definition run (c : obs) : obs :=
  match c with
  (* 1: the driver.  [1; zone kind; relativize; rdtype; serial; is_udp; zone; messages; expectation]
     zone kind / relativize / expectation are for the implementation side and the oracle only *)
  | L (I 1 :: I _ :: I _ :: I rdt :: ser :: I udp :: L z :: L ws :: _) =>
      match oz_of_obs ser, zone_of_obs z, wmsgs_of_obs ws with
      | Some ser, Some z, Some ws => obs_of_result (inbound_xfr z rdt ser (udp =? 1) ws)
      | _, _, _ => E eBadCase
      end
  (* 2: process_message fed directly with parsed messages *)
  | L (I 2 :: I _ :: I _ :: I rdt :: ser :: I udp :: L z :: L ms :: _) =>
      match oz_of_obs ser, zone_of_obs z, msgs_of_obs ms with
      | Some ser, Some z, Some ms =>
          match init z rdt ser (udp =? 1) with
          | inr e => L [L [I e]; obs_of_zone z]
          | inl s => let '(l, z') := feed s ms in L [L (map I l); obs_of_zone z']
          end
      | _, _, _ => E eBadCase
      end
  (* 3: make_query then extract_serial_from_query *)
  | L [I 3; zs; ser] =>
      match oz_of_obs zs, oz_of_obs ser with
      | Some zs, Some ser =>
          match make_query zs ser with
          | Ok (qt, s) =>
              L [I qt; (match s with Some n => I n | None => N end);
                 (match extract_serial (qt, s) with
                  | Ok (Some n) => I n | Ok None => N | Lib e => E e | Internal e => E e end)]
          | Lib e => E e
          | Internal e => E e
          end
      | _, _ => E eBadCase
      end
  (* 11: a transfer with a TSIG keyring in use (require_tsig); every message carries its had_tsig flag.
         [11; zone kind; relativize; rdtype; serial; zone; messages; ...] *)
  | L (I 11 :: I _ :: I _ :: I rdt :: ser :: L z :: L ws :: _) =>
      match oz_of_obs ser, zone_of_obs z, wmsgs_of_obs ws with
      | Some ser, Some z, Some ws =>
          match xfr_run true z rdt ser false ws with
          | (Done z', _) => L [I 0; obs_of_zone z']
          | (Error e z', _) => L [I e; obs_of_zone z']
          end
      | _, _, _ => E eBadCase
      end
  (* 10: extract_serial_from_query on a hand-made query: question rdtype, SOA serial in the authority section or none *)
  | L [I 10; I qt; au] =>
      match oz_of_obs au with
      | Some au => match extract_serial (qt, au) with
                   | Ok (Some n) => I n | Ok None => N | Lib e => E e | Internal e => E e end
      | None => E eBadCase
      end
  (* 4: dns.serial.Serial(a) < b *)
  | L [I 4; I a; I b] => L [ob (serial_lt a b); ob (serial_le a b); ob (serial_gt a b); ob (serial_ge a b); ob (serial_eq a b)]
  (* 7: (Serial(a) + d).value *)
  | L [I 7; I a; I d] => match serial_add a d with Ok v => I v | Lib e => E e | Internal e => E e end
  (* 5: the RRsets dns.message.from_wire(xfr=True, one_rr_per_rrset=f) makes of an answer section *)
  | L [I 5; I f; L rs] =>
      match rrs_of_obs rs with
      | Some rs => L (map (fun s => L [I (s_name s); I (s_class s); I (s_type s); I (s_covers s);
                                       I (s_ttl s); L (map I (s_data s))]) (group (f =? 1) rs))
      | None => E eBadCase
      end
  (* 6: repeated refresh.  [6; zone kind; relativize; max_versions; pinned reader; zone; refreshes] *)
  | L [I 6; I _; I _; I _; I _; L z; L rs] =>
      match zone_of_obs z, tables_of_obs rs with
      | Some z, Some ts =>
          L (map (fun r => match r with
                           | Ok (qt, s, s2, c, z') => L [I qt; obs_of_oz s; obs_of_oz s2; I c; obs_of_zone z']
                           | Lib e => E e
                           | Internal e => E e
                           end) (refreshes z ts))
      | _, _ => E eBadCase
      end
  (* 8: dns.query.inbound_xfr against a server.  [8; zone kind; relativize; udp_mode; zone; udp table; tcp table; target] *)
  | L (I 8 :: I _ :: I _ :: I mode :: L z :: L otu :: L ott :: _) =>
      match zone_of_obs z, table_of_obs otu, table_of_obs ott with
      | Some z, Some tbu, Some tbt =>
          match xfr_top z mode tbu tbt with
          | Ok (c, z') => L [I c; obs_of_zone z']
          | Lib e => E e
          | Internal e => E e
          end
      | _, _, _ => E eBadCase
      end
  (* 12: dns.query.inbound_xfr with a query made by dns.xfr.make_query(zone, serial, keyring).
         [12; zone kind; relativize; udp_mode; zone; udp table; tcp table; serial argument; keyring 0/1; ...] *)
  | L (I 12 :: I _ :: I _ :: I mode :: L z :: L otu :: L ott :: qser :: I kr :: _) =>
      match zone_of_obs z, table_of_obs otu, table_of_obs ott, oz_of_obs qser with
      | Some z, Some tbu, Some tbt, Some qser =>
          match xfr_top_query z qser (kr =? 1) mode tbu tbt with
          | Ok (c, z') => L [I c; obs_of_zone z']
          | Lib e => L [I e; obs_of_zone z]          (* make_query / extract_serial raised: nothing was started *)
          | Internal e => L [I e; obs_of_zone z]
          end
      | _, _, _, _ => E eBadCase
      end
  (* 9: dns.zone.from_xfr(dns.query.xfr(...)) on an AXFR response.  [9; relativize; messages; expected zone];
        owner names are reported + 10 (out-of-zone names are negative) *)
  | L (I 9 :: I _ :: L ws :: _) =>
      match wmsgs_of_obs ws with
      | Some ws =>
          match legacy_axfr ws with
          | Ok z => obs_of_zone (map (fun ke => let '((n, t, c), e) := ke in ((n + 10, t, c), e)) z)
          | Lib e => E e
          | Internal e => E e
          end
      | None => E eBadCase
      end
  | _ => E eBadCase
  end.
