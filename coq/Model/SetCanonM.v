(* Records with their fields: Rdata.to_digestable / __eq__ / __hash__ / _cmp on the *real*
   encodings, for the table-like types.  The field language, the values and the generic writer
   are C02's (Model/SchemaM.v, imported read-only); what is added here is the canonicalize flag of
   Rdata.to_wire(origin, canonicalize=True) as each type's _to_wire hands it to name.to_wire, the
   try/except NeedAbsoluteNameOrOrigin of __eq__/_cmp, and the abstraction to the flat records
   of Model/SetM.v.  Definitions only; proofs in Proofs/SetCanon*.v. *)
From DV Require Import Base.Prelude Model.NameM Model.SchemaM Model.SetM.
Open Scope Z_scope.

(* ---------- Rdata.to_wire(origin=origin, canonicalize=low) ---------- *)
(* `low`: the canonicalize argument as it reaches name.to_wire in the type's _to_wire (types that
   pass a literal False have low = false also on the to_digestable path) *)
Section CWriter.
  Variable origin : option name.
  Variable low : bool.

  Definition cenc_s (f : sfld) (v : sval) : res (list Z) :=
    match f, v with
    | SchemaM.FName _, VN n => NameM.to_wire n origin low
    | _, _ => enc_s origin f v
    end.

  Fixpoint cenc_row (fs : list sfld) (vs : list sval) : res (list Z) :=
    match fs, vs with
    | [], [] => Ok []
    | f :: fr, v :: vr => do a <- cenc_s f v; do b <- cenc_row fr vr; Ok (a ++ b)
    | _, _ => Internal NameM.eBadCase
    end.

  Fixpoint cenc_rows (row : list sfld) (rows : list (list sval)) : res (list Z) :=
    match rows with
    | [] => Ok []
    | r :: rr => do a <- cenc_row row r; do b <- cenc_rows row rr; Ok (a ++ b)
    end.

  Definition cenc_f (f : fld) (v : val) : res (list Z) :=
    match f, v with
    | FS s, VS x => cenc_s s x
    | FRepeat _ _ row, VL rows => cenc_rows row rows
    | _, _ => enc_f origin f v
    end.

  Fixpoint cenc_fields (fs : list fld) (vs : list val) : res (list Z) :=
    match fs, vs with
    | [], [] => Ok []
    | f :: fr, v :: vr => do a <- cenc_f f v; do b <- cenc_fields fr vr; Ok (a ++ b)
    | _, _ => Internal NameM.eBadCase
    end.
End CWriter.

(* ---------- a record with its fields ---------- *)
Record srec := mkS {
  sid : Z;                 (* object identity, as rid *)
  scls : Z; styp : Z; scov : Z;
  sfs : list fld;          (* the type's field list (its _to_wire / constructor) *)
  sck : check;             (* record-level constructor checks *)
  slow : bool;             (* the type passes canonicalize on to its names *)
  svs : list val           (* the field values *)
}.

Definition root : name := [[]].

(* Rdata.to_digestable(origin) = to_wire(origin=origin, canonicalize=True) *)
Definition s_digest (r : srec) (origin : option name) : res (list Z) :=
  cenc_fields origin (slow r) (sfs r) (svs r).

(* try: d = self.to_digestable(); relative = False
   except NeedAbsoluteNameOrOrigin: d = self.to_digestable(dns.name.root); relative = True *)
Definition s_digest_rel (r : srec) : res (list Z * bool) :=
  match s_digest r None with
  | Ok d => Ok (d, false)
  | Lib e => if e =? eNeedAbsolute
             then (do d <- s_digest r (Some root); Ok (d, true))
             else Lib e
  | Internal e => Internal e
  end.

(* Rdata.__eq__ *)
Definition s_eq (a b : srec) : res bool :=
  if negb (scls a =? scls b) || negb (styp a =? styp b) then Ok false
  else
    do da <- s_digest_rel a;
    do db <- s_digest_rel b;
    if negb (Bool.eqb (snd da) (snd db)) then Ok false
    else Ok (zlist_eqb (fst da) (fst db)).

(* Rdata.__hash__: the value that is hashed *)
Definition s_hashkey (r : srec) : res (list Z) := s_digest r (Some root).

(* Rdata._cmp (_allow_relative_comparisons = True) *)
Definition s_cmp (a b : srec) : res Z :=
  do da <- s_digest_rel a;
  do db <- s_digest_rel b;
  if negb (Bool.eqb (snd da) (snd db)) then Ok (if snd da then -1 else 1)
  else Ok (match cmp_bytes (fst da) (fst db) with Eq => 0 | Gt => 1 | Lt => -1 end).

(* what Model/SetM.v keeps of a record *)
Definition s_abs (r : srec) : res rdata :=
  do d <- s_digest_rel r;
  Ok (mkRd (sid r) (scls r) (styp r) (scov r) (fst d) (snd d)).

(* Rdata.covers(): the type_covered field of RRSIG / SIG, NONE otherwise *)
Definition s_covers (typ : Z) (vs : list val) : Z :=
  if is_sigtype typ then match vs with VS (VI c) :: _ => c | _ => 0 end else 0.

(* ---------- the types used by the correspondence ---------- *)
(* field lists and canonicalize flags read off the _to_wire methods of dns/rdtypes (nsbase,
   mxbase, SOA, SRV, RP, PX, NAPTR, DNAME, rrsigbase: flag passed on; NSEC, DSYNC, LP: literal
   False; A, TXT, unknown types: no names) *)
Definition u16max := 65535. Definition u32max := 4294967295.
Definition nm := FS (SchemaM.FName true).
Definition bitmap := FRepeat false true [FU 1 255; FCounted 1 1 32].

Definition rrsig_fields : list fld :=
  [FS (FU 2 u16max); FS (FU 1 255); FS (FU 1 255); FS (FU 4 u32max); FS (FU 4 u32max);
   FS (FU 4 u32max); FS (FU 2 u16max); nm; FRemaining 0].

Definition schema_of (cls typ : Z) : option (list fld * bool) :=
  if (typ =? 1) && (cls =? 1) then Some ([FS (FFixed 4)], false)                     (* IN A *)
  else if (typ =? 2) || (typ =? 5) || (typ =? 12) || (typ =? 39) then Some ([nm], true) (* NS CNAME PTR DNAME *)
  else if (typ =? 15) || (typ =? 18) || (typ =? 21) || (typ =? 36)
       then Some ([FS (FU 2 u16max); nm], true)                                      (* MX AFSDB RT KX *)
  else if typ =? 6 then Some ([nm; nm; FS (FU 4 u32max); FS (FU 4 u32max); FS (FU 4 u32max);
                               FS (FU 4 u32max); FS (FU 4 u32max)], true)            (* SOA *)
  else if typ =? 33 then Some ([FS (FU 2 u16max); FS (FU 2 u16max); FS (FU 2 u16max); nm], true) (* SRV *)
  else if typ =? 17 then Some ([nm; nm], true)                                       (* RP *)
  else if typ =? 26 then Some ([FS (FU 2 u16max); nm; nm], true)                     (* PX *)
  else if typ =? 35 then Some ([FS (FU 2 u16max); FS (FU 2 u16max); FS (FCounted 1 0 255);
                                FS (FCounted 1 0 255); FS (FCounted 1 0 255); nm], true) (* NAPTR *)
  else if (typ =? 46) || (typ =? 24) then Some (rrsig_fields, true)                  (* RRSIG SIG *)
  else if typ =? 47 then Some ([nm; bitmap], false)                                  (* NSEC *)
  else if typ =? 66 then Some ([FS (FU 2 u16max); FS (FU 1 255); FS (FU 2 u16max); nm], false) (* DSYNC *)
  else if typ =? 107 then Some ([FS (FU 2 u16max); nm], false)                       (* LP *)
  else if typ =? 16 then Some ([FRepeat true false [FCounted 1 0 255]], false)       (* TXT *)
  else if typ =? 65280 then Some ([FRemaining 0], false)                             (* GenericRdata *)
  else if (typ =? 23) && (cls =? 1) then Some ([nm], false)                          (* IN NSAP-PTR (UncompressedNS) *)
  else if (typ =? 28) && (cls =? 1) then Some ([FS (FFixed 16)], false)              (* IN AAAA *)
  else if typ =? 13 then Some ([FS (FCounted 1 0 255); FS (FCounted 1 0 255)], false) (* HINFO *)
  else if typ =? 44 then Some ([FS (FU 1 255); FS (FU 1 255); FRemaining 0], false)  (* SSHFP *)
  else if (typ =? 52) || (typ =? 53)
       then Some ([FS (FU 1 255); FS (FU 1 255); FS (FU 1 255); FRemaining 0], false) (* TLSA SMIMEA *)
  else if (typ =? 48) || (typ =? 60)
       then Some ([FS (FU 2 u16max); FS (FU 1 255); FS (FU 1 255); FRemaining 0], false) (* DNSKEY CDNSKEY *)
  else if typ =? 256 then Some ([FS (FU 2 u16max); FS (FU 2 u16max); FRemaining 1], false) (* URI *)
  else if typ =? 257 then Some ([FS (FU 1 255); FS (FCounted 1 1 255); FRemaining 0], false) (* CAA *)
  else None.

(* the types of schema_of *)
Definition table_types : list (Z * Z) :=
  [(1, 1); (1, 2); (1, 5); (1, 12); (1, 39); (1, 15); (1, 18); (1, 21); (1, 36); (1, 6); (1, 33);
   (1, 17); (1, 26); (1, 35); (1, 46); (1, 24); (1, 47); (1, 66); (1, 107); (1, 16); (1, 65280);
   (3, 2); (3, 15); (1, 23); (1, 28); (1, 13); (1, 44); (1, 52); (1, 53); (1, 48); (1, 60); (1, 256); (1, 257)].

(* ---------- harness interface ---------- *)
Definition srec_of_obs (o : obs) : option srec :=
  match o with
  | L [I i; I c; I t; L vals] =>
      match schema_of c t with
      | Some (fs, low) =>
          match vals_of_obs fs vals with
          | Some vs => Some (mkS i c t (s_covers t vs) fs CkNone low vs)
          | None => None
          end
      | None => None
      end
  | _ => None
  end.

Definition obs_res {A} (f : A -> obs) (r : res A) : obs :=
  match r with Ok a => f a | Lib e => E e | Internal e => E e end.

Definition run (c : obs) : obs :=
  match c with
  | L [I 7; a; b] =>
      match srec_of_obs a, srec_of_obs b with
      | Some a, Some b =>
          L [obs_res (fun d => L [B (fst d); ob (snd d)]) (s_digest_rel a);
             obs_res (fun d => L [B (fst d); ob (snd d)]) (s_digest_rel b);
             obs_res ob (s_eq a b);
             obs_res I (s_cmp a b);
             obs_res (fun x => obs_res (fun y => ob (zlist_eqb x y)) (s_hashkey b)) (s_hashkey a);
             I (scov a);
             (* the uncanonicalized wire form Rdata.to_wire(origin=root) = C02's writer *)
             obs_res B (enc_fields (Some root) (sfs a) (svs a))]
      | _, _ => E SetM.eBadCase
      end
  | _ => SetM.run c
  end.
