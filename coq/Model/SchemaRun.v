(* The model's harness entry for C02: schema types through SchemaM.run_tbl, the hand-modelled
   irregular types through SchemaHand. *)
From DV Require Import Base.Prelude Model.NameM Model.SchemaM Model.SchemaHand.
Open Scope Z_scope.

Fixpoint find_h (c t : Z) (ht : list (Z * Z * hid)) : option hid :=
  match ht with
  | [] => None
  | (c', t', h) :: r => if (c' =? c) && (t' =? t) then Some h else find_h c t r
  end.

(* same resolution order as get_rdata_class / SchemaM.lookup: the class's own module first *)
Definition lookup_h (tbl : list entry) (ht : list (Z * Z * hid)) (c t : Z) : option hid :=
  match find_entry c t tbl with
  | Some _ => find_h c t ht
  | None => match find_entry 255 t tbl with
            | Some _ => find_h 255 t ht
            | None => None
            end
  end.

Definition run_all (tbl : list entry) (ht : list (Z * Z * hid)) (c : obs) : obs :=
  match c with
  | L [I 1; I cl; I ty; L vals; o] =>
      match lookup_h tbl ht cl ty, oname_of_obs o with
      | Some h, Some o =>
          match hand_vals_of_obs h vals with
          | Some vs => obs_of_res B (hand_encode_rdata h o vs)
          | None => E eBadCase
          end
      | Some _, None => E eBadCase
      | None, _ => run_tbl tbl c
      end
  | L [I 2; I cl; I ty; B wire; I cur; I rdlen; o] =>
      match lookup_h tbl ht cl ty, oname_of_obs o with
      | Some h, Some o =>
          match hand_decode_rdata h o wire (Z.to_nat cur) (Z.to_nat rdlen) with
          | Ok vs => L [obs_of_hand_vals h vs; obs_of_res B (hand_encode_rdata h o vs)]
          | Lib e => E e
          | Internal e => E e
          end
      | Some _, None => E eBadCase
      | None, _ => run_tbl tbl c
      end
  | _ => run_tbl tbl c
  end.
