(* C04 model: how the parsers of dnspython treat untrusted input.
     - dns.exception.ExceptionWrapper                      (wrap / wrap_res)
     - dns.rdata.from_wire_parser / from_wire around an ARBITRARY per-type parser
     - dns.message._WireReader.read / _get_question / _get_section / from_wire, with the
       continue_on_error bookkeeping, Truncated, OPT/TSIG placement rules, UPDATE header rules
     - a handful of concrete per-type wire parsers (A, AAAA, NS-like, MX, TXT, SOA, OPT, TSIG,
       generic) so that the reader is executable for the correspondence
     - dns.ttl.from_text (over an arbitrary decimal-digit classifier), dns.grange.from_text and the
       `except Exception: raise SyntaxError` guard zonefile puts around it
     - zonefile.Reader.read's directive test on the first token of a line
   Definitions only.  The tokenizer (Tokenizer.get, Token.unescape, unescape_to_bytes) is the
   shared model Model/TokM.v; name text/wire is Model/NameM.v + Model/ParserM.v. *)
From DV Require Import Base.Prelude Model.NameM Model.ParserM.
From DV Require Model.TokM Model.ZoneTextM Model.UntrustedTextM.
Open Scope Z_scope.

(* ---------- exception codes (Lib) ---------- *)
(* NameM: 1 LabelTooLong 2 NameTooLong 3 EmptyLabel 4 BadEscape 5 BadPointer 6 BadLabelType
          7 FormError 8 NeedAbsoluteNameOrOrigin ...
   TokM : 20 SyntaxError 21 UnexpectedEnd 22 UngetBufferFull 23 BadTTL *)
Definition eSyntax := TokM.eSyntax.            (* 20 *)
Definition eUnexpectedEnd := TokM.eUnexpectedEnd.   (* 21 *)
Definition eBadTTL := TokM.eBadTTL.            (* 23 *)
Definition eShortHeader := 31.     (* dns.message.ShortHeader    (FormError) *)
Definition eTrailingJunk := 32.    (* dns.message.TrailingJunk   (FormError) *)
Definition eBadEDNS := 33.         (* dns.message.BadEDNS        (FormError) *)
Definition eBadTSIG := 34.         (* dns.message.BadTSIG        (FormError) *)
Definition eUnknownTSIGKey := 35.  (* dns.message.UnknownTSIGKey (DNSException) *)
Definition eTruncated := 36.       (* dns.message.Truncated      (DNSException) *)
Definition iValueError := 104.
Definition iAssert := ParserM.iAssertion.

(* isinstance(e, dns.exception.FormError) *)
Definition is_form (e : Z) : bool :=
  (e =? eFormError) || (e =? eNameTooLong) || (e =? eBadPointer) || (e =? eBadLabelType)
  || (e =? eShortHeader) || (e =? eTrailingJunk) || (e =? eBadEDNS) || (e =? eBadTSIG).

(* isinstance(e, dns.exception.SyntaxError) *)
Definition is_syntax (e : Z) : bool :=
  (e =? eSyntax) || (e =? eUnexpectedEnd) || (e =? eBadTTL)
  || (e =? eLabelTooLong) || (e =? eEmptyLabel) || (e =? eBadEscape).

(* ---------- dns.exception.ExceptionWrapper ----------
   __exit__: if an exception is in flight and it is not an instance of exception_class,
   raise exception_class(str(exc_val)); otherwise let it pass.  `fam` is isinstance(_, cls). *)
Definition wrap {A} (cls : Z) (fam : Z -> bool) (m : M A) : M A := fun s =>
  match m s with
  | (Exn (XLib e), s1) => if fam e then (Exn (XLib e), s1) else (Exn (XLib cls), s1)
  | (Exn (XInt _), s1) => (Exn (XLib cls), s1)
  | (Val a, s1) => (Val a, s1)
  end.

Definition wrap_res {A} (cls : Z) (fam : Z -> bool) (r : res A) : res A :=
  match r with
  | Ok a => Ok a
  | Lib e => if fam e then Lib e else Lib cls
  | Internal _ => Lib cls
  end.

(* ---------- concrete per-type wire parsers (cls.from_wire_parser) ---------- *)
Section Decoders.
  Variable wire : list Z.

  (* TXTBase: while parser.remaining() > 0: strings.append(parser.get_counted_bytes());
     the constructor rejects an empty list with ValueError *)
  Fixpoint txt_loop (fuel : nat) (n : nat) : M nat :=
    match fuel with
    | O => raise (XInt iFuel)
    | S f => fun s =>
        if remaining s >? 0 then (dom _ <- get_counted_bytes wire 1; txt_loop f (S n)) s
        else (Val n, s)
    end.

  Definition dec_txt : M unit := fun s =>
    (dom n <- txt_loop (S (Z.to_nat (remaining s))) 0%nat;
     match n with O => raise (XInt iValueError) | _ => ret tt end) s.

  (* bytes.decode("utf8"): strict UTF-8 (no overlong forms, no surrogates, at most U+10FFFF) *)
  Definition cont (b : Z) : bool := (128 <=? b) && (b <=? 191).
  Fixpoint utf8_valid (l : list Z) : bool :=
    match l with
    | [] => true
    | b0 :: r0 =>
        if b0 <? 128 then utf8_valid r0
        else if b0 <? 194 then false
        else if b0 <? 224 then
          match r0 with b1 :: r1 => cont b1 && utf8_valid r1 | _ => false end
        else if b0 <? 240 then
          match r0 with
          | b1 :: b2 :: r2 =>
              (if b0 =? 224 then (160 <=? b1) && (b1 <=? 191)
               else if b0 =? 237 then (128 <=? b1) && (b1 <=? 159)
               else cont b1) && cont b2 && utf8_valid r2
          | _ => false
          end
        else if b0 <? 245 then
          match r0 with
          | b1 :: b2 :: b3 :: r3 =>
              (if b0 =? 240 then (144 <=? b1) && (b1 <=? 191)
               else if b0 =? 244 then (128 <=? b1) && (b1 <=? 143)
               else cont b1) && cont b2 && cont b3 && utf8_valid r3
          | _ => false
          end
        else false
    end.

  (* bytes.rstrip(b"\x00") *)
  Definition rstrip_nul (l : list Z) : list Z :=
    rev ((fix go (r : list Z) : list Z := match r with 0 :: r' => go r' | _ => r end) (rev l)).

  (* dns.edns option classes (cls.from_wire_parser + the constructor's validation); NSID and unknown codes are
     get_remaining *)
  Definition dec_ecs : M unit :=
    dom h <- get_struct wire [2; 1; 1];
    match h with
    | [family; src; scope] =>
        dom _ <- get_bytes wire ((src + 7) / 8);           (* int(math.ceil(src / 8.0)) *)
        if family =? 1 then
          (* dns.ipv4.inet_ntoa needs exactly 4 octets: more than 4 address octets (src > 32) is its
             dns.exception.SyntaxError; then the constructor: scopelen <= 32 (ValueError) *)
          if src >? 32 then raise (XLib eSyntax)
          else if scope <=? 32 then ret tt else raise (XInt iValueError)
        else if family =? 2 then
          if (src <=? 128) && (scope <=? 128) then ret tt else raise (XInt iValueError)
        else raise (XInt iValueError)
    | _ => raise (XInt iIndexError)
    end.

  Definition dec_cookie : M unit :=
    dom _ <- get_bytes wire 8;
    dom server <- get_remaining wire;
    let n := zlen server in
    if (n =? 0) || ((8 <=? n) && (n <=? 32)) then ret tt else raise (XInt iValueError).

  Definition dec_ede : M unit :=
    dom _ <- get_uint16 wire;
    dom text <- get_remaining wire;
    match text with
    | [] => ret tt
    | _ => if utf8_valid (rstrip_nul text) then ret tt else raise (XLib eFormError)   (* _decode_utf8 *)
    end.

  (* EDE-EXTRA-TEXT-LANGUAGE, FILTERING-CONTACT / -ORGANIZATION / -DB: cls(_decode_utf8(get_remaining())) *)
  Definition dec_text_option : M unit :=
    dom text <- get_remaining wire;
    if utf8_valid text then ret tt else raise (XLib eFormError).

  Definition dec_option (otype : Z) : M unit :=
    if otype =? 8 then dec_ecs
    else if otype =? 10 then dec_cookie
    else if otype =? 15 then dec_ede
    else if otype =? 18 then dom _ <- get_name wire None; ret tt
    else if (22 <=? otype) && (otype <=? 25) then dec_text_option
    else dom _ <- get_remaining wire; ret tt.      (* NSID and GenericOption *)

  (* OPT.from_wire_parser: while remaining > 0: (otype, olen) = get_struct("!HH");
     with restrict_to(olen): option_from_wire_parser(otype, parser) *)
  Fixpoint opt_loop (fuel : nat) : M unit :=
    match fuel with
    | O => raise (XInt iFuel)
    | S f => fun s =>
        if remaining s >? 0 then
          (dom h <- get_struct wire [2; 2];
           match h with
           | [otype; olen] => dom _ <- restrict_to olen (dec_option otype); opt_loop f
           | _ => raise (XInt iIndexError)
           end) s
        else (Val tt, s)
    end.

  Definition dec_opt : M unit := fun s => opt_loop (S (Z.to_nat (remaining s))) s.

  (* TSIG.from_wire_parser *)
  Definition dec_tsig : M unit :=
    dom _ <- get_name wire None;
    dom _ <- get_uint48 wire;
    dom _ <- get_uint16 wire;
    dom _ <- get_counted_bytes wire 2;
    dom h <- get_struct wire [2; 2];
    dom _ <- get_counted_bytes wire 2;
    (* the constructor: dns.rcode.Rcode.make(error) raises ValueError above 4095 *)
    match h with
    | [_; error] => if error >? 4095 then raise (XInt iValueError) else ret tt
    | _ => raise (XInt iIndexError)
    end.

  Definition dec_soa (origin : option name) : M unit :=
    dom _ <- get_name wire origin;
    dom _ <- get_name wire origin;
    dom _ <- get_struct wire [4; 4; 4; 4; 4];
    ret tt.

  (* the class behind get_rdata_class(rdclass, rdtype) for the modelled types; everything else
     is GenericRdata (the harness only sends types that are modelled or have no class) *)
  Definition dec_rdata (origin : option name) (rdclass rdtype : Z) : M unit :=
    if (rdtype =? 2) || (rdtype =? 5) || (rdtype =? 12) || (rdtype =? 39) then
      dom _ <- get_name wire origin; ret tt
    else if rdtype =? 15 then
      dom _ <- get_uint16 wire; dom _ <- get_name wire origin; ret tt
    else if rdtype =? 6 then dec_soa origin
    else if rdtype =? 16 then dec_txt
    else if rdtype =? 41 then dec_opt
    else if rdtype =? 250 then dec_tsig
    else if (rdtype =? 1) && (rdclass =? 1) then
      (* A: the constructor's dns.ipv4.inet_ntoa raises dns.exception.SyntaxError *)
      dom b <- get_remaining wire; if zlen b =? 4 then ret tt else raise (XLib eSyntax)
    else if (rdtype =? 28) && (rdclass =? 1) then
      (* AAAA: dns.ipv6.inet_ntoa raises ValueError *)
      dom b <- get_remaining wire; if zlen b =? 16 then ret tt else raise (XInt iValueError)
    else dom _ <- get_remaining wire; ret tt.
End Decoders.

(* ---------- the message reader ---------- *)
Record opts := mkOpts {
  o_orps : bool;            (* one_rr_per_rrset *)
  o_ignore_trailing : bool;
  o_raise_trunc : bool;     (* raise_on_truncation *)
  o_coe : bool;             (* continue_on_error *)
  o_qonly : bool;           (* question_only *)
  o_xfr : bool;
  o_keyring_false : bool    (* keyring=False (no validation) instead of None *)
}.

(* one RR as stored: section, owner, class (after UPDATE rewriting), type, ttl, deleting or 0,
   number of rdatas in its rrset (0 for the empty forms) *)
Record rrec := mkRR { r_sec : Z; r_name : name; r_class : Z; r_type : Z; r_ttl : Z;
                      r_deleting : Z; r_n : Z }.

(* what survives an exception: the message being built and the reader's bookkeeping *)
Record mstate := mkMS {
  ms_have : bool;                 (* reader.message is not None *)
  ms_update : bool;               (* UpdateMessage *)
  ms_flags : Z;
  ms_q : list (name * Z * Z);     (* reversed *)
  ms_rrs : list rrec;             (* reversed *)
  ms_opt : bool;
  ms_tsig : bool;
  ms_errors : list (Z * Z);       (* reversed: (exception code, parser.current) *)
  ms_trace : list (Z * Z * Z * Z * bool)   (* reversed: rdata parses (class,type,start,len,ok) *)
}.

Definition ms0 := mkMS false false 0 [] [] false false [] [].

Definition MM (A : Type) := mstate -> pstate -> (out A * mstate) * pstate.
Definition mret {A} (a : A) : MM A := fun m s => (Val a, m, s).
Definition mraise {A} (x : exn) : MM A := fun m s => (Exn x, m, s).
Definition mmbind {A B} (c : MM A) (k : A -> MM B) : MM B :=
  fun m s => match c m s with
             | (Val a, m1, s1) => k a m1 s1
             | (Exn x, m1, s1) => (Exn x, m1, s1)
             end.
Notation "'dmm' x <- c ; k" := (mmbind c (fun x => k)) (at level 200, x name, c at level 100, k at level 200).
Definition liftP {A} (c : M A) : MM A := fun m s => match c s with (r, s1) => (r, m, s1) end.
Definition upd (f : mstate -> mstate) : MM unit := fun m s => (Val tt, f m, s).
Definition getm : MM mstate := fun m s => (Val m, m, s).
Definition getp : MM pstate := fun m s => (Val s, m, s).
(* try: c  except Exception as e: h e *)
Definition catch {A} (c : MM A) (h : exn -> MM A) : MM A :=
  fun m s => match c m s with
             | (Exn x, m1, s1) => h x m1 s1
             | r => r
             end.

(* `with parser.restrict_to(size): body` where the body also touches the reader's state *)
Definition mrestrict_to {A} (size : Z) (body : MM A) : MM A := fun m s =>
  if size <? 0 then (Exn (XInt iAssert), m, s)
  else if size >? remaining s then (Exn (XLib eFormError), m, s)
  else
    let saved := pend s in
    match body m (set_end s (pcur s + size)) with
    | (Exn x, m1, s1) => (Exn x, m1, set_end s1 saved)
    | (Val a, m1, s1) =>
        if pcur s1 =? pend s1 then (Val a, m1, set_end s1 saved)
        else (Exn (XLib eFormError), m1, set_end s1 saved)
    end.

Definition add_q (q : name * Z * Z) (m : mstate) :=
  mkMS (ms_have m) (ms_update m) (ms_flags m) (q :: ms_q m) (ms_rrs m) (ms_opt m) (ms_tsig m) (ms_errors m) (ms_trace m).
Definition add_rr (r : rrec) (m : mstate) :=
  mkMS (ms_have m) (ms_update m) (ms_flags m) (ms_q m) (r :: ms_rrs m) (ms_opt m) (ms_tsig m) (ms_errors m) (ms_trace m).
Definition set_opt (m : mstate) :=
  mkMS (ms_have m) (ms_update m) (ms_flags m) (ms_q m) (ms_rrs m) true (ms_tsig m) (ms_errors m) (ms_trace m).
Definition set_tsig (m : mstate) :=
  mkMS (ms_have m) (ms_update m) (ms_flags m) (ms_q m) (ms_rrs m) (ms_opt m) true (ms_errors m) (ms_trace m).
Definition add_err (e : Z * Z) (m : mstate) :=
  mkMS (ms_have m) (ms_update m) (ms_flags m) (ms_q m) (ms_rrs m) (ms_opt m) (ms_tsig m) (e :: ms_errors m) (ms_trace m).
Definition add_trace (t : Z * Z * Z * Z * bool) (m : mstate) :=
  mkMS (ms_have m) (ms_update m) (ms_flags m) (ms_q m) (ms_rrs m) (ms_opt m) (ms_tsig m) (ms_errors m) (t :: ms_trace m).
Definition start_msg (update : bool) (flags : Z) (m : mstate) :=
  mkMS true update flags (ms_q m) (ms_rrs m) (ms_opt m) (ms_tsig m) (ms_errors m) (ms_trace m).

Definition code_of (x : exn) : Z := match x with XLib e => e | XInt e => e end.

Definition tSOA := 6. Definition tOPT := 41. Definition tTSIG := 250.
Definition cNONE := 254. Definition cANY := 255.
Definition fTC := 512.

Section Reader.
  Variable wire : list Z.
  (* the per-type parser behind cls.from_wire_parser: ANY function of class, type and parser *)
  Variable rdparse : Z -> Z -> M unit.

  (* dns.rdata.from_wire_parser: the class lookup, then
       with ExceptionWrapper(FormError): return cls.from_wire_parser(...)
     The reader's call is traced (class, type, parser.current, parser.end - parser.current, ok) *)
  Definition rdata_from_wire_parser (rdclass rdtype : Z) : M unit :=
    wrap eFormError is_form (rdparse rdclass rdtype).

  Definition traced_rdata (rdclass rdtype : Z) : MM unit := fun m s =>
    match rdata_from_wire_parser rdclass rdtype s with
    | (Val a, s1) => (Val a, add_trace (rdclass, rdtype, pcur s, remaining s, true) m, s1)
    | (Exn x, s1) => (Exn x, add_trace (rdclass, rdtype, pcur s, remaining s, false) m, s1)
    end.

  (* the zone section of an UPDATE message: classes of its rrsets, oldest first *)
  Definition zone_classes (m : mstate) : list Z := map (fun q => snd q) (rev (ms_q m)).

  (* Message._parse_rr_header / UpdateMessage._parse_rr_header -> (rdclass, deleting, empty) *)
  Definition parse_rr_header (section rdclass rdtype : Z) : MM (Z * Z * bool) :=
    dmm m <- getm;
    if negb (ms_update m) then mret (rdclass, 0, false)
    else if section =? 0 then
      if (rdclass =? cANY) || (rdclass =? cNONE) || negb (rdtype =? tSOA)
         || negb (match ms_q m with [] => true | _ => false end)
      then mraise (XLib eFormError)
      else mret (rdclass, 0, false)
    else
      match zone_classes m with
      | [] => mraise (XLib eFormError)
      | zc :: _ =>
          if (rdclass =? cANY) || (rdclass =? cNONE) then
            mret (zc, rdclass, (rdclass =? cANY) || (section =? 1))
          else mret (rdclass, 0, false)
      end.

  (* Message._parse_special_rr_header (OPT / TSIG placement) *)
  Definition parse_special_rr_header (section count position : Z) (nm : name) (rdclass rdtype : Z)
    : MM (Z * Z * bool) :=
    dmm m <- getm;
    if rdtype =? tOPT then
      if negb (section =? 3) || ms_opt m || negb (name_eqb nm root) then mraise (XLib eBadEDNS)
      else mret (rdclass, 0, false)
    else
      if negb (section =? 3) || negb (rdclass =? cANY) || negb (position =? count - 1)
      then mraise (XLib eBadTSIG)
      else mret (rdclass, 0, false).

  (* _get_question *)
  Fixpoint get_question (n : nat) : MM unit :=
    match n with
    | O => mret tt
    | S n' =>
        dmm qname <- liftP (get_name wire None);
        dmm h <- liftP (get_struct wire [2; 2]);
        match h with
        | [rdtype; rdclass] =>
            dmm hd <- parse_rr_header 0 rdclass rdtype;
            dmm _ <- upd (add_q (qname, rdtype, fst (fst hd)));
            get_question n'
        | _ => mraise (XInt iIndexError)
        end
    end.

  (* the body of the `for i in range(count)` loop of _get_section; returns force_unique *)
  Definition get_rr (o : opts) (section count i : Z) (fu : bool) : MM bool :=
    dmm nm <- liftP (get_name wire None);
    dmm h <- liftP (get_struct wire [2; 2; 4; 2]);
    match h with
    | [rdtype; rdclass; ttl; rdlen] =>
        dmm hd <- (if (rdtype =? tOPT) || (rdtype =? tTSIG)
                   then parse_special_rr_header section count i nm rdclass rdtype
                   else parse_rr_header section rdclass rdtype);
        let '(rdclass', deleting, empty) := hd in
        dmm s0 <- getp;
        let rdata_start := pcur s0 in
        catch
          (dmm have_rd <-
             (if empty then
                if rdlen >? 0 then mraise (XLib eFormError) else mret false
              else dmm _ <- mrestrict_to rdlen (traced_rdata rdclass' rdtype); mret true);
           let fu' := if o_xfr o && (rdtype =? tSOA) then true else fu in
           if rdtype =? tOPT then dmm _ <- upd set_opt; mret fu'
           else if rdtype =? tTSIG then
             if negb (ttl =? 0) then mraise (XLib eBadTSIG)       (* RFC 8945 4.2 *)
             else if negb (o_keyring_false o) then mraise (XLib eUnknownTSIGKey)
             else dmm _ <- upd set_tsig; mret fu'
           else
             let ttl' := if ttl >? 2147483647 then 0 else ttl in
             dmm _ <- upd (add_rr (mkRR section nm rdclass' rdtype (if have_rd then ttl' else 0)
                                        deleting (if have_rd then 1 else 0)));
             mret fu')
          (fun x =>
             if o_coe o then
               dmm s1 <- getp;
               dmm _ <- upd (add_err (code_of x, pcur s1));
               dmm _ <- liftP (seek (rdata_start + rdlen));
               mret fu
             else mraise x)
    | _ => mraise (XInt iIndexError)
    end.

  Fixpoint get_section_loop (o : opts) (section count : Z) (n : nat) (i : Z) (fu : bool) : MM unit :=
    match n with
    | O => mret tt
    | S n' => dmm fu' <- get_rr o section count i fu; get_section_loop o section count n' (i + 1) fu'
    end.

  Definition get_section (o : opts) (orps : bool) (section count : Z) : MM unit :=
    get_section_loop o section count (Z.to_nat count) 0 orps.

  (* _WireReader.read: the body of its try block, and its except clause *)
  Definition read_sections (o : opts) (orps : bool) (qcount ancount aucount adcount : Z) : MM unit :=
    dmm _ <- get_question (Z.to_nat qcount);
    if o_qonly o then mret tt
    else
      dmm _ <- get_section o orps 1 ancount;
      dmm _ <- get_section o orps 2 aucount;
      dmm _ <- get_section o orps 3 adcount;
      dmm s1 <- getp;
      if negb (o_ignore_trailing o) && negb (remaining s1 =? 0)
      then mraise (XLib eTrailingJunk) else mret tt.

  Definition read_handler (coe : bool) (x : exn) : MM unit :=
    if coe then dmm s1 <- getp; upd (add_err (code_of x, pcur s1)) else mraise x.

  Definition read (o : opts) : MM unit :=
    dmm s <- getp;
    if remaining s <? 12 then mraise (XLib eShortHeader)
    else
      dmm h <- liftP (get_struct wire [2; 2; 2; 2; 2; 2]);
      match h with
      | [id; flags; qcount; ancount; aucount; adcount] =>
          let update := Z.land (Z.shiftr flags 11) 15 =? 5 in
          dmm _ <- upd (start_msg update flags);
          let orps := if update then true else o_orps o in
          catch (read_sections o orps qcount ancount aucount adcount) (read_handler (o_coe o))
      | _ => mraise (XInt iIndexError)
      end.

  (* dns.message.from_wire *)
  Definition tc_set (m : mstate) : bool := negb (Z.land (ms_flags m) fTC =? 0).

  Definition message_from_wire (o : opts) : out unit * mstate :=
    match read o ms0 (mkP 0 (zlen wire) 0) with
    | (Exn (XLib e), m, _) =>
        if is_form e && ms_have m && tc_set m && o_raise_trunc o then (Exn (XLib eTruncated), m)
        else (Exn (XLib e), m)
    | (Exn x, m, _) => (Exn x, m)
    | (Val _, m, _) =>
        if tc_set m && o_raise_trunc o then (Exn (XLib eTruncated), m) else (Val tt, m)
    end.
End Reader.

(* dns.rdata.from_wire(rdclass, rdtype, wire, current, rdlen, origin) *)
Definition rdata_from_wire (wire : list Z) (rdparse : Z -> Z -> M unit)
           (rdclass rdtype current rdlen : Z) : out unit * pstate :=
  match parser_init wire current with
  | Exn x => (Exn x, mkP 0 (zlen wire) 0)
  | Val s0 => restrict_to rdlen (rdata_from_wire_parser rdparse rdclass rdtype) s0
  end.

(* dns.edns.option_from_wire(otype, wire, current, olen): the direct option API, NOT under
   ExceptionWrapper (tests/test_edns.py pins ValueError for a malformed ECS option) *)
Definition option_from_wire (wire : list Z) (otype current olen : Z) : out unit * pstate :=
  match parser_init wire current with
  | Exn x => (Exn x, mkP 0 (zlen wire) 0)
  | Val s0 => restrict_to olen (dec_option wire otype) s0
  end.

(* ---------- dns.ttl.from_text ----------
   `dval c` = Some d iff c.isdecimal(), d = int(c).  The theorems hold for every classifier
   whose values are 0..9; `run` instantiates it with ASCII, Arabic-Indic and fullwidth digits. *)
Definition MAX_TTL := 4294967295.
Definition MAX_STR_DIGITS := 4300.   (* sys.int_info.default_max_str_digits *)

Section Ttl.
  Variable dval : Z -> option Z.
  (* str.lower() of one character, restricted to what the unit test needs: c.lower() == 'w' ...
     holds for 'w'/'W' only (no other code point lower-cases to an ASCII letter except U+212A
     KELVIN SIGN -> 'k', which is not a unit) *)
  Definition is_dec (c : Z) : bool := match dval c with Some _ => true | None => false end.

  Fixpoint ttl_loop (s : list Z) (total current : Z) (need_digit : bool) : res Z :=
    match s with
    | [] => if negb (current =? 0) then Lib eBadTTL else Ok total
    | c :: r =>
        match dval c with
        | Some d => ttl_loop r total (current * 10 + d) false
        | None =>
            if need_digit then Lib eBadTTL
            else
              let c := lower c in
              if c =? 119 then ttl_loop r (total + current * 604800) 0 true
              else if c =? 100 then ttl_loop r (total + current * 86400) 0 true
              else if c =? 104 then ttl_loop r (total + current * 3600) 0 true
              else if c =? 109 then ttl_loop r (total + current * 60) 0 true
              else if c =? 115 then ttl_loop r (total + current) 0 true
              else Lib eBadTTL
        end
    end.

  (* int(text) for an all-decimal string *)
  Fixpoint int_of (s : list Z) (acc : Z) : Z :=
    match s with
    | [] => acc
    | c :: r => int_of r (acc * 10 + match dval c with Some d => d | None => 0 end)
    end.

  Definition ttl_from_text (s : list Z) : res Z :=
    do total <-
       (match s with
        | [] => Lib eBadTTL                     (* ''.isdecimal() is False; len(text) == 0 *)
        | _ =>
            if forallb is_dec s then
              (* int(text) raises ValueError beyond the interpreter's digit limit -> BadTTL *)
              if zlen s >? MAX_STR_DIGITS then Lib eBadTTL else Ok (int_of s 0)
            else ttl_loop s 0 0 true
        end);
    if (total <? 0) || (total >? MAX_TTL) then Lib eBadTTL else Ok total.
End Ttl.

Definition dval_run (c : Z) : option Z :=
  if (48 <=? c) && (c <=? 57) then Some (c - 48)
  else if (1632 <=? c) && (c <=? 1641) then Some (c - 1632)       (* ARABIC-INDIC DIGIT *)
  else if (65296 <=? c) && (c <=? 65305) then Some (c - 65296)    (* FULLWIDTH DIGIT *)
  else if (2406 <=? c) && (c <=? 2415) then Some (c - 2406)       (* DEVANAGARI DIGIT *)
  else None.

(* ---------- Token.unescape / Token.unescape_to_bytes over the real digit test ----------
   tokenizer.py tests the characters of a \DDD escape with str.isdecimal() and converts them with
   int(c): `dval c` = Some d iff c.isdecimal(), d = int(c) - ASCII digits and the decimal digits of
   every other script.  (The shared TokM.v fixes the ASCII classifier; unescape_ascii_agrees ties the
   two.)  A character that is a digit for str.isdigit() only (superscripts, circled digits) has
   dval = None: it is an ordinary escaped character. *)
Section Escapes.
  Variable dval : Z -> option Z.

  Fixpoint ue_loop_g (v : list Z) (acc : list Z) : res (list Z) :=
    match v with
    | [] => Ok (rev acc)
    | c :: r =>
        if c =? 92 then
          match r with
          | [] => Lib eUnexpectedEnd
          | c1 :: r1 =>
              match dval c1 with
              | Some d1 =>
                  match r1 with
                  | [] => Lib eUnexpectedEnd
                  | c2 :: r2 =>
                      match r2 with
                      | [] => Lib eUnexpectedEnd
                      | c3 :: r3 =>
                          match dval c2, dval c3 with
                          | Some d2, Some d3 =>
                              let cp := d1 * 100 + d2 * 10 + d3 in
                              if cp >? 255 then Lib eSyntax else ue_loop_g r3 (cp :: acc)
                          | _, _ => Lib eSyntax
                          end
                      end
                  end
              | None => ue_loop_g r1 (c1 :: acc)
              end
          end
        else ue_loop_g r (c :: acc)
    end.

  Fixpoint ub_loop_g (v : list Z) (acc : list Z) : res (list Z) :=
    match v with
    | [] => Ok (rev acc)
    | c :: r =>
        if c =? 92 then
          match r with
          | [] => Lib eUnexpectedEnd
          | c1 :: r1 =>
              match dval c1 with
              | Some d1 =>
                  match r1 with
                  | [] => Lib eUnexpectedEnd
                  | c2 :: r2 =>
                      match r2 with
                      | [] => Lib eUnexpectedEnd
                      | c3 :: r3 =>
                          match dval c2, dval c3 with
                          | Some d2, Some d3 =>
                              let cp := d1 * 100 + d2 * 10 + d3 in
                              if cp >? 255 then Lib eSyntax else ub_loop_g r3 (cp :: acc)
                          | _, _ => Lib eSyntax
                          end
                      end
                  end
              | None =>
                  match TokM.utf8_cp c1 with
                  | Ok b => ub_loop_g r1 (rev b ++ acc)
                  | Lib e => Lib e
                  | Internal e => Internal e
                  end
              end
          end
        else
          match TokM.utf8_cp c with
          | Ok b => ub_loop_g r (rev b ++ acc)
          | Lib e => Lib e
          | Internal e => Internal e
          end
    end.
End Escapes.

Definition dval_ascii (c : Z) : option Z := if TokM.is_decimal c then Some (c - 48) else None.

(* ---------- dns.grange.from_text ----------
   int(cur) of a string of decimal characters: ValueError when it is empty *)
Definition iAssertGr := 105.
Section Grange.
  Variable dval : Z -> option Z.

  Definition py_int_dec (cur : list Z) : res Z :=
    match cur with
    | [] => Internal iValueError
    | _ => Ok (int_of dval (rev cur) 0)
    end.

  (* cur is kept reversed; state 0/1/2 *)
  Fixpoint gr_loop (s : list Z) (start stop : Z) (cur : list Z) (state : Z) : res (Z * Z * list Z * Z) :=
    match s with
    | [] => Ok (start, stop, cur, state)
    | c :: r =>
        if (c =? 45) && (state =? 0) then
          do v <- py_int_dec cur; gr_loop r v stop [] 1
        else if c =? 47 then
          do v <- py_int_dec cur; gr_loop r start v [] 2
        else if is_dec dval c then gr_loop r start stop (c :: cur) state
        else Lib eSyntax
    end.

  Definition grange_from_text (s : list Z) : res (Z * Z * Z) :=
    match s with
    | 45 :: _ => Lib eSyntax
    | _ =>
        do st <- gr_loop s (-1) (-1) [] 0;
        let '(start, stop, cur, state) := st in
        if state =? 0 then Lib eSyntax
        else
          do ss <- (if state =? 1 then do v <- py_int_dec cur; Ok (v, 1)
                    else do v <- py_int_dec cur; Ok (stop, v));
          let '(stop', step) := ss in
          if negb (step >=? 1) then Internal iAssertGr
          else if negb (start >=? 0) then Internal iAssertGr
          else if start >? stop' then Lib eSyntax
          else Ok (start, stop', step)
    end.

  (* zonefile._generate_line:  try: ... dns.grange.from_text(token.value) ...
                               except Exception: raise dns.exception.SyntaxError *)
  Definition generate_range (s : list Z) : res (Z * Z * Z) :=
    match grange_from_text s with
    | Ok v => Ok v
    | Lib _ => Lib eSyntax
    | Internal _ => Lib eSyntax
    end.
End Grange.

(* ---------- zonefile.Reader.read: what is done with the first token of a line ----------
   0 eof, 1 eol, 2 comment, 3 directive, 4 rr line.  `token.value.startswith("$")` (after the fix;
   `token.value[0]` raised IndexError on the empty quoted string) *)
Definition line_kind (t : TokM.token) (directives_allowed : bool) : res Z :=
  if TokM.ttype t =? TokM.tEOF then Ok 0
  else if TokM.ttype t =? TokM.tEOL then Ok 1
  else if TokM.ttype t =? TokM.tCOMMENT then Ok 2
  else
    match TokM.tvalue t with
    | c :: _ => if (c =? 36) && directives_allowed then Ok 3 else Ok 4
    | [] => Ok 4
    end.

(* the snapshot's code before the fix, kept for the refutation witness *)
Definition line_kind_prefix (t : TokM.token) (directives_allowed : bool) : res Z :=
  if TokM.ttype t =? TokM.tEOF then Ok 0
  else if TokM.ttype t =? TokM.tEOL then Ok 1
  else if TokM.ttype t =? TokM.tCOMMENT then Ok 2
  else
    match TokM.tvalue t with
    | c :: _ => if (c =? 36) && directives_allowed then Ok 3 else Ok 4
    | [] => Internal iIndexError
    end.

(* ---------- harness interface ---------- *)
Definition opts_of_bits (b : Z) : opts :=
  mkOpts (Z.testbit b 0) (Z.testbit b 1) (Z.testbit b 2) (Z.testbit b 3) (Z.testbit b 4)
         (Z.testbit b 5) (Z.testbit b 6).

Definition obs_of_q (q : name * Z * Z) : obs :=
  let '(n, t, c) := q in L [obs_of_name n; I t; I c].
Definition obs_of_rr (r : rrec) : obs :=
  L [I (r_sec r); obs_of_name (r_name r); I (r_class r); I (r_type r); I (r_ttl r);
     I (r_deleting r); I (r_n r)].
Definition obs_of_trace (t : Z * Z * Z * Z * bool) : obs :=
  let '(c, ty, st, ln, ok) := t in L [I c; I ty; I st; I ln; ob ok].
Definition obs_of_err (e : Z * Z) : obs := L [E (fst e); I (snd e)].

Definition msg_obs (wire : list Z) (bits : Z) : obs :=
  let o := opts_of_bits bits in
  let '(r, m) := message_from_wire wire (dec_rdata wire None) o in
  let orps := ms_update m || o_orps o in
  L [match r with
     | Exn x => obs_of_exn x
     | Val _ =>
         L [I (ms_flags m);
            L (map obs_of_q (rev (ms_q m)));
            (if orps then L (map obs_of_rr (rev (ms_rrs m))) else N);
            ob (ms_opt m); ob (ms_tsig m);
            (if o_coe o then L (map obs_of_err (rev (ms_errors m))) else N)]
     end;
     L (map obs_of_trace (rev (ms_trace m)))].

Definition eBadCase := 999.

Definition run (c : obs) : obs :=
  match c with
  (* Parser programs *)
  | L [I 30; B wire; I current; L ops] =>
      match ops_of_obs ops with
      | Some p => run_parser wire current p
      | None => E eBadCase
      end
  (* dns.name.from_wire through the Parser model *)
  | L [I 31; B wire; I current] =>
      obs_of_res (fun nc => L [obs_of_name (fst nc); I (snd nc)]) (name_from_wire wire current)
  (* dns.rdata.from_wire for the modelled types *)
  | L [I 32; B wire; I rdclass; I rdtype; I current; I rdlen] =>
      match rdata_from_wire wire (dec_rdata wire None) rdclass rdtype current rdlen with
      | (Val _, s) => N
      | (Exn x, s) => obs_of_exn x
      end
  (* dns.edns.option_from_wire *)
  | L [I 33; B wire; I otype; I current; I olen] =>
      match option_from_wire wire otype current olen with
      | (Val _, s) => N
      | (Exn x, s) => obs_of_exn x
      end
  (* Token.unescape (which = 0) / Token.unescape_to_bytes (which = 1) of a value with escapes *)
  | L [I 34; L t; I which] =>
      match zs_of_obs t with
      | Some v => obs_of_res (fun l => L (map I l)) (if which =? 0 then ue_loop_g dval_run v [] else ub_loop_g dval_run v [])
      | None => E eBadCase
      end
  (* dns.message.from_wire *)
  | L [I 40; B wire; I bits] => msg_obs wire bits
  (* dns.ttl.from_text (text as code points) *)
  | L [I 50; L t] =>
      match zs_of_obs t with
      | Some s => obs_of_res I (ttl_from_text dval_run s)
      | None => E eBadCase
      end
  (* dns.grange.from_text, and the guarded call in _generate_line *)
  | L [I 51; L t; I guarded] =>
      match zs_of_obs t with
      | Some s =>
          obs_of_res (fun v => let '(a, b, c) := v in L [I a; I b; I c])
                     (if guarded =? 1 then generate_range dval_run s else grange_from_text dval_run s)
      | None => E eBadCase
      end
  (* name text (NameM), tokenizer / unescape (TokM): same case encodings as those models *)
  | L (I 60 :: r) => NameM.run (L r)
  | L (I 61 :: r) => TokM.run (L r)
  (* whole zone files / read_rrsets texts: C09's model of the reader *)
  | L (I 62 :: r) => ZoneTextM.run (L r)
  (* dns.message.from_text: Model/UntrustedTextM.v *)
  | L (I 63 :: r) => UntrustedTextM.run (L r)
  (* an oracle probe [entry name; payload] (replay files): the property says "no failure" *)
  | L (B _ :: _) => N
  | _ => E eBadCase
  end.
