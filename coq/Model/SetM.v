(* Model of dns/set.py (Set), dns/rdataset.py (Rdataset, ImmutableRdataset), dns/rrset.py (RRset),
   the value semantics of dns/rdata.py (Rdata.__eq__/__ne__/__hash__/_cmp/__lt__..),
   dns/_immutable_ctx.py (_Immutable.__setattr__/__delattr__, _immutable_init) and
   dns/immutable.py (constify).
   Definitions only; proofs live in Proofs/Set*.v.
   Each function mirrors the control flow of the Python function named in its comment. *)
From DV Require Import Base.Prelude.
From DV Require Model.TokM.   (* dns.ttl.from_text, read-only *)
Open Scope Z_scope.

(* exception codes.  Lib = raised on purpose by the library, Internal = raised by Python
   underneath it (incidental). *)
Definition eValueError := 1.          (* ValueError: Set.remove, "other must be a Set instance",
                                         from_rdata_list([]); also itertools.islice(negative) *)
Definition eIncompatibleTypes := 2.   (* dns.rdataset.IncompatibleTypes *)
Definition eDifferingCovers := 3.     (* dns.rdataset.DifferingCovers *)
Definition eTypeError := 4.           (* TypeError("immutable"), TypeError of _Immutable.__setattr__,
                                         unsupported '<' between records of different type *)
Definition iKeyError := 101.          (* dict.popitem() on an empty dict *)
Definition iStopIteration := 102.     (* next(islice(...)) past the end *)
Definition iAttributeError := 103.    (* immutable.Dict has no pop/popitem/clear; list has no .items *)
Definition eBadCase := 900.           (* harness artefact: ill-formed case (unknown op / register) *)

(* ------------------------------------------------------------------------------------------ *)
(* 1. Records.  A record is abstracted to what Rdata.__eq__/__hash__/_cmp and Rdataset.add
      look at: class, type, covers(), the digestable bytes (to_digestable(), or
      to_digestable(root) when a NeedAbsoluteNameOrOrigin was raised) and the flag saying
      which of the two it was.  rid identifies the Python object (it is not looked at by
      any comparison; it lets the observations tell two equal records apart). *)

Record rdata := mkRd { rid : Z; rcls : Z; rtyp : Z; rcov : Z; rdig : list Z; rrel : bool }.

(* Rdata.__eq__ (other is an Rdata) *)
Definition rd_eqb (a b : rdata) : bool :=
  if negb (rcls a =? rcls b) || negb (rtyp a =? rtyp b) then false
  else if negb (Bool.eqb (rrel a) (rrel b)) then false
  else zlist_eqb (rdig a) (rdig b).

(* Rdata.__ne__ *)
Definition rd_neb (a b : rdata) : bool :=
  if negb (rcls a =? rcls b) || negb (rtyp a =? rtyp b) then true
  else negb (rd_eqb a b).

(* Rdata.__hash__ = hash(self.to_digestable(dns.name.root)): the hashed value *)
Definition rd_hashkey (a : rdata) : list Z := rdig a.

(* Rdata._cmp with _allow_relative_comparisons = True *)
Definition rd_cmp (a b : rdata) : Z :=
  if negb (Bool.eqb (rrel a) (rrel b)) then (if rrel a then -1 else 1)
  else match cmp_bytes (rdig a) (rdig b) with
       | Eq => 0
       | Gt => 1
       | Lt => -1
       end.

Inductive rich := RLt | RLe | RGe | RGt.

(* Rdata.__lt__/__le__/__ge__/__gt__: NotImplemented on both sides => TypeError *)
Definition rd_rich (w : rich) (a b : rdata) : res bool :=
  if negb (rcls a =? rcls b) || negb (rtyp a =? rtyp b) then Internal eTypeError
  else
    let c := rd_cmp a b in
    Ok (match w with
        | RLt => c <? 0
        | RLe => c <=? 0
        | RGe => c >=? 0
        | RGt => c >? 0
        end).

(* ------------------------------------------------------------------------------------------ *)
(* 2. dns.set.Set: the keys of the insertion-ordered dict `items`, oldest first. *)

Section SetAlg.
  Variable A : Type.
  Variable eqb : A -> A -> bool.     (* k == x, for a stored key k and a probe x *)

  (* item in self.items *)
  Definition mem (x : A) (s : list A) : bool := existsb (fun k => eqb k x) s.

  (* Set.add *)
  Definition sadd (x : A) (s : list A) : list A := if mem x s then s else s ++ [x].

  (* del self.items[item] (the key equal to item); no-op when absent (callers check) *)
  Fixpoint sdel (x : A) (s : list A) : list A :=
    match s with
    | [] => []
    | k :: r => if eqb k x then r else k :: sdel x r
    end.

  (* Set.remove *)
  Definition sremove (x : A) (s : list A) : res (list A) :=
    if mem x s then Ok (sdel x s) else Lib eValueError.

  (* Set.discard = self.items.pop(item, None) *)
  Definition sdiscard (x : A) (s : list A) : list A := sdel x s.

  (* Set.pop = self.items.popitem(): newest key *)
  Fixpoint spop (s : list A) : res (A * list A) :=
    match s with
    | [] => Internal iKeyError
    | k :: r =>
        match r with
        | [] => Ok (k, [])
        | _ :: _ => match spop r with
                    | Ok (x, r') => Ok (x, k :: r')
                    | Lib e => Lib e
                    | Internal e => Internal e
                    end
        end
    end.

  (* Set._clone: obj.items = dict(); obj.items.update(self.items) *)
  Definition sclone (s : list A) : list A := s.

  (* Set.update(other): for item in other: self.add(item) *)
  Definition supdate (s : list A) (other : list A) : list A :=
    fold_left (fun acc x => sadd x acc) other s.

  (* Set.__init__(items) *)
  Definition sof_list (l : list A) : list A := supdate [] l.

  (* Set.union_update; `same` is `self is other` *)
  Definition sunion_update (s o : list A) (same : bool) : list A :=
    if same then s else supdate s o.

  (* Set.intersection_update: for item in list(self.items): if item not in other.items: del *)
  Definition sinter_update (s o : list A) (same : bool) : list A :=
    if same then s
    else fold_left (fun acc x => if mem x o then acc else sdel x acc) s s.

  (* Set.difference_update *)
  Definition sdiff_update (s o : list A) (same : bool) : list A :=
    if same then []
    else fold_left (fun acc x => sdiscard x acc) o s.

  (* Set.symmetric_difference_update *)
  Definition ssym_update (s o : list A) (same : bool) : list A :=
    if same then []
    else
      let overlap := sinter_update (sclone s) o false in   (* self.intersection(other) *)
      let s1 := sunion_update s o false in
      sdiff_update s1 overlap false.

  (* copying forms: obj = self._clone(); obj.<x>_update(other); obj is a fresh object, so the
     `obj is other` branch is never taken, also for a.union(a) *)
  Definition sunion (s o : list A) : list A := sunion_update (sclone s) o false.
  Definition sinter (s o : list A) : list A := sinter_update (sclone s) o false.
  Definition sdiff (s o : list A) : list A := sdiff_update (sclone s) o false.
  Definition ssym (s o : list A) : list A := ssym_update (sclone s) o false.

  (* issubset / issuperset / isdisjoint *)
  Definition sissubset (s o : list A) : bool := forallb (fun x => mem x o) s.
  Definition sissuperset (s o : list A) : bool := forallb (fun x => mem x s) o.
  Definition sisdisjoint (s o : list A) : bool := forallb (fun x => negb (mem x s)) o.

  (* Set.__eq__ = (self.items == other.items): dict equality *)
  Definition seq (s o : list A) : bool :=
    Nat.eqb (length s) (length o) && forallb (fun x => mem x o) s.

  (* Set.__getitem__(i), i an int: next(itertools.islice(self.items, i, i + 1)) *)
  Definition sget (s : list A) (i : Z) : res A :=
    if i <? 0 then Internal eValueError
    else match nth_error s (Z.to_nat i) with
         | Some x => Ok x
         | None => Internal iStopIteration
         end.

  (* itertools.islice(it, start, stop, step) on the key list *)
  Fixpoint every (step k : nat) (l : list A) : list A :=
    match l with
    | [] => []
    | x :: r => match k with
                | O => x :: every step (step - 1) r
                | S k' => every step k' r
                end
    end.

  Definition sslice (s : list A) (start stop step : option Z) : res (list A) :=
    let neg o := match o with Some z => z <? 0 | None => false end in
    if neg start || neg stop || match step with Some z => z <? 1 | None => false end
    then Internal eValueError
    else
      let a := match start with Some z => Z.to_nat z | None => O end in
      let l1 := match stop with Some z => firstn (Z.to_nat z) s | None => s end in
      let st := match step with Some z => Z.to_nat z | None => 1%nat end in
      Ok (every st 0 (skipn a l1)).

  (* Set.__delitem__(i): del self.items[self[i]] *)
  Definition sdelitem (s : list A) (i : Z) : res (list A) :=
    match sget s i with
    | Ok x => Ok (sdel x s)
    | Lib e => Lib e
    | Internal e => Internal e
    end.

  (* Set.__delitem__(slice): for elt in list(self[i]): del self.items[elt] *)
  Definition sdelslice (s : list A) (start stop step : option Z) : res (list A) :=
    match sslice s start stop step with
    | Ok l => Ok (fold_left (fun acc x => sdel x acc) l s)
    | Lib e => Lib e
    | Internal e => Internal e
    end.
End SetAlg.

Arguments mem {A}. Arguments sadd {A}. Arguments sdel {A}. Arguments sremove {A}.
Arguments sdiscard {A}. Arguments spop {A}. Arguments sclone {A}. Arguments supdate {A}.
Arguments sof_list {A}. Arguments sunion_update {A}. Arguments sinter_update {A}.
Arguments sdiff_update {A}. Arguments ssym_update {A}. Arguments sunion {A}. Arguments sinter {A}.
Arguments sdiff {A}. Arguments ssym {A}. Arguments sissubset {A}. Arguments sissuperset {A}.
Arguments sisdisjoint {A}. Arguments seq {A}. Arguments sget {A}. Arguments every {A}.
Arguments sslice {A}. Arguments sdelitem {A}. Arguments sdelslice {A}.

(* the in-place / copying / predicate method families (operators are aliases in set.py and
   are modelled as separate entries so that the correspondence exercises each of them) *)
Inductive inplace :=
| IUnion | IInter | IDiff | ISym       (* union_update intersection_update difference_update symmetric_difference_update *)
| IUpdate                              (* update(other) *)
| IOr | IAnd | IAdd | ISub | IXor.     (* |= &= += -= ^= *)

Inductive func :=
| FUnion | FInter | FDiff | FSym       (* union intersection difference symmetric_difference *)
| FOr | FAnd | FAdd | FSub | FXor.     (* | & + - ^ *)

Inductive pred := PSubset | PSuperset | PDisjoint | PEq | PNe.

(* which algorithm a method ends up in *)
Inductive alg := AUnion | AInter | ADiff | ASym.

Definition inplace_alg (w : inplace) : option alg :=
  match w with
  | IUnion | IOr | IAdd => Some AUnion
  | IInter | IAnd => Some AInter
  | IDiff | ISub => Some ADiff
  | ISym | IXor => Some ASym
  | IUpdate => None
  end.

Definition func_alg (w : func) : alg :=
  match w with
  | FUnion | FOr | FAdd => AUnion
  | FInter | FAnd => AInter
  | FDiff | FSub => ADiff
  | FSym | FXor => ASym
  end.

(* ---------- the dns.set.Set machine: registers hold distinct Set objects ---------- *)

Definition sset := list rdata.

Inductive sop :=
| SNew (d : nat) (xs : list rdata)                       (* reg d = Set(xs) *)
| SAdd (r : nat) (x : rdata)
| SRemove (r : nat) (x : rdata)
| SDiscard (r : nat) (x : rdata)
| SPop (r : nat)
| SClear (r : nat)
| SCopy (d r : nat)                                      (* reg d = reg r .copy() *)
| SInpl (w : inplace) (r : nat) (o : option nat)         (* None: other is not a Set (a list) *)
| SFunc (w : func) (d r : nat) (o : option nat)
| SPred (w : pred) (r : nat) (o : option nat)
| SUpdateList (r : nat) (xs : list rdata)                (* reg r .update([...]) *)
| SLen (r : nat)
| SIter (r : nat)
| SContains (r : nat) (x : rdata)
| SGet (r : nat) (i : Z)
| SGetSlice (r : nat) (start stop step : option Z)
| SDelItem (r : nat) (i : Z)
| SDelSlice (r : nat) (start stop step : option Z).

Fixpoint set_nth {A} (l : list A) (n : nat) (v : A) : list A :=
  match l, n with
  | [], _ => []
  | _ :: r, O => v :: r
  | x :: r, S n' => x :: set_nth r n' v
  end.

(* assign register d (d = length appends a new register) *)
Definition assign {A} (st : list A) (d : nat) (v : A) : option (list A) :=
  if Nat.ltb d (length st) then Some (set_nth st d v)
  else if Nat.eqb d (length st) then Some (st ++ [v])
  else None.

Definition obs_ids (s : list rdata) : obs := L (map (fun x => I (rid x)) s).
Definition obs_err {A} (r : res A) : obs :=
  match r with Ok _ => N | Lib e => E e | Internal e => E e end.

Definition salg (a : alg) (s o : sset) (same : bool) : sset :=
  match a with
  | AUnion => sunion_update rd_eqb s o same
  | AInter => sinter_update rd_eqb s o same
  | ADiff => sdiff_update rd_eqb s o same
  | ASym => ssym_update rd_eqb s o same
  end.

Definition spred (w : pred) (s o : sset) : bool :=
  match w with
  | PSubset => sissubset rd_eqb s o
  | PSuperset => sissuperset rd_eqb s o
  | PDisjoint => sisdisjoint rd_eqb s o
  | PEq => seq rd_eqb s o
  | PNe => negb (seq rd_eqb s o)
  end.

Definition bad {S} (st : S) : S * obs := (st, E eBadCase).

Definition sstep (st : list sset) (op : sop) : list sset * obs :=
  match op with
  | SNew d xs =>
      match assign st d (sof_list rd_eqb xs) with Some st' => (st', N) | None => bad st end
  | SAdd r x =>
      match nth_error st r with
      | Some s => (set_nth st r (sadd rd_eqb x s), N)
      | None => bad st end
  | SRemove r x =>
      match nth_error st r with
      | Some s => match sremove rd_eqb x s with
                  | Ok s' => (set_nth st r s', N)
                  | e => (st, obs_err e)
                  end
      | None => bad st end
  | SDiscard r x =>
      match nth_error st r with
      | Some s => (set_nth st r (sdiscard rd_eqb x s), N)
      | None => bad st end
  | SPop r =>
      match nth_error st r with
      | Some s => match spop s with
                  | Ok (x, s') => (set_nth st r s', I (rid x))
                  | e => (st, obs_err e)
                  end
      | None => bad st end
  | SClear r =>
      match nth_error st r with
      | Some _ => (set_nth st r [], N)
      | None => bad st end
  | SCopy d r =>
      match nth_error st r with
      | Some s => match assign st d (sclone s) with Some st' => (st', N) | None => bad st end
      | None => bad st end
  | SInpl w r o =>
      match nth_error st r with
      | Some s =>
          match o with
          | None =>
              (* other is a list: update() accepts any iterable (here: the empty list is not
                 used; see SUpdateList); every other method raises ValueError *)
              match w with
              | IUpdate => bad st
              | _ => (st, E eValueError)
              end
          | Some oi =>
              match nth_error st oi with
              | Some os =>
                  match inplace_alg w with
                  | Some a => (set_nth st r (salg a s os (Nat.eqb r oi)), N)
                  | None => (set_nth st r (supdate rd_eqb s os), N)
                  end
              | None => bad st
              end
          end
      | None => bad st end
  | SFunc w d r o =>
      match nth_error st r with
      | Some s =>
          match o with
          | None => (st, E eValueError)
          | Some oi =>
              match nth_error st oi with
              | Some os =>
                  match assign st d (salg (func_alg w) (sclone s) os false) with
                  | Some st' => (st', N)
                  | None => bad st
                  end
              | None => bad st
              end
          end
      | None => bad st end
  | SPred w r o =>
      match nth_error st r with
      | Some s =>
          match o with
          | None => match w with
                    | PEq | PNe => (st, E iAttributeError)      (* other.items *)
                    | _ => (st, E eValueError)
                    end
          | Some oi =>
              match nth_error st oi with
              | Some os => (st, ob (spred w s os))
              | None => bad st
              end
          end
      | None => bad st end
  | SUpdateList r xs =>
      match nth_error st r with
      | Some s => (set_nth st r (supdate rd_eqb s xs), N)
      | None => bad st end
  | SLen r =>
      match nth_error st r with
      | Some s => (st, I (zlen s))
      | None => bad st end
  | SIter r =>
      match nth_error st r with
      | Some s => (st, obs_ids s)
      | None => bad st end
  | SContains r x =>
      match nth_error st r with
      | Some s => (st, ob (mem rd_eqb x s))
      | None => bad st end
  | SGet r i =>
      match nth_error st r with
      | Some s => match sget s i with
                  | Ok x => (st, I (rid x))
                  | e => (st, obs_err e)
                  end
      | None => bad st end
  | SGetSlice r a b c =>
      match nth_error st r with
      | Some s => match sslice s a b c with
                  | Ok l => (st, obs_ids l)
                  | e => (st, obs_err e)
                  end
      | None => bad st end
  | SDelItem r i =>
      match nth_error st r with
      | Some s => match sdelitem rd_eqb s i with
                  | Ok s' => (set_nth st r s', N)
                  | e => (st, obs_err e)
                  end
      | None => bad st end
  | SDelSlice r a b c =>
      match nth_error st r with
      | Some s => match sdelslice rd_eqb s a b c with
                  | Ok s' => (set_nth st r s', N)
                  | e => (st, obs_err e)
                  end
      | None => bad st end
  end.

Fixpoint sexec (st : list sset) (ops : list sop) : list sset :=
  match ops with
  | [] => st
  | op :: r => sexec (fst (sstep st op)) r
  end.

(* ------------------------------------------------------------------------------------------ *)
(* 3. Rdataset / ImmutableRdataset / RRset *)

Inductive kind := KRds | KImm | KRR.

Definition dname := list (list Z).    (* owner name of an RRset: its labels *)

Record rds := mkRds {
  kd : kind;
  cls : Z; typ : Z; cov : Z; ttl : Z;
  items : list rdata;
  oname : dname;                 (* RRset.name ([] for the other kinds) *)
  deleting : option Z            (* RRset.deleting *)
}.

Definition with_items (s : rds) (l : list rdata) : rds :=
  mkRds (kd s) (cls s) (typ s) (cov s) (ttl s) l (oname s) (deleting s).
Definition with_ttl (s : rds) (t : Z) : rds :=
  mkRds (kd s) (cls s) (typ s) (cov s) t (items s) (oname s) (deleting s).
Definition with_cov (s : rds) (c : Z) : rds :=
  mkRds (kd s) (cls s) (typ s) c (ttl s) (items s) (oname s) (deleting s).

(* dns.rdatatype.is_singleton: SOA NXT DNAME NSEC CNAME *)
Definition is_singleton (t : Z) : bool :=
  (t =? 6) || (t =? 30) || (t =? 39) || (t =? 47) || (t =? 5).
(* self.rdtype == RRSIG or self.rdtype == SIG *)
Definition is_sigtype (t : Z) : bool := (t =? 46) || (t =? 24).

Definition isempty (s : rds) : bool := match items s with [] => true | _ :: _ => false end.

(* Rdataset.update_ttl (ttl an int) *)
Definition update_ttl (self : rds) (t : Z) : rds :=
  if isempty self then with_ttl self t
  else if t <? ttl self then with_ttl self t
  else self.

(* Rdataset.add(rd, ttl) on a mutable rdataset; the state is returned also when it raises,
   because update_ttl happens before the covers check *)
Definition radd (self : rds) (rd : rdata) (ottl : option Z) : rds * res unit :=
  if negb (cls self =? rcls rd) || negb (typ self =? rtyp rd) then (self, Lib eIncompatibleTypes)
  else
    let s1 := match ottl with Some t => update_ttl self t | None => self end in
    let chk : rds * res unit :=
      if is_sigtype (typ s1) then
        if isempty s1 && (cov s1 =? 0) then (with_cov s1 (rcov rd), Ok tt)
        else if negb (cov s1 =? rcov rd) then (s1, Lib eDifferingCovers)
        else (s1, Ok tt)
      else (s1, Ok tt) in
    match chk with
    | (s2, Ok _) =>
        let s3 := if is_singleton (rtyp rd) && negb (isempty s2) then with_items s2 [] else s2 in
        (with_items s3 (sadd rd_eqb rd (items s3)), Ok tt)
    | (s2, Lib e) => (s2, Lib e)
    | (s2, Internal e) => (s2, Internal e)
    end.

(* `for item in <list>: self.add(item)` with self an Rdataset: Set.union_update/Set.update
   call self.add, which dispatches to Rdataset.add(item, None) *)
Fixpoint radd_all (self : rds) (l : list rdata) : rds * res unit :=
  match l with
  | [] => (self, Ok tt)
  | x :: r =>
      match radd self x None with
      | (s', Ok _) => radd_all s' r
      | (s', e) => (s', e)
      end
  end.

(* Rdataset._clone / RRset._clone;  ImmutableRdataset has _clone_class = Rdataset *)
Definition rclone (self : rds) : rds :=
  match kd self with
  | KRds | KRR => self
  | KImm => mkRds KRds (cls self) (typ self) (cov self) (ttl self) (items self) [] None
  end.

(* ImmutableRdataset(rdataset) *)
Definition rimm (s : rds) : rds :=
  mkRds KImm (cls s) (typ s) (cov s) (ttl s) (items s) [] None.

(* the in-place algorithms on a *mutable* rdataset (kinds KRds, KRR); other may be of any kind *)

(* Rdataset.union_update: self.update_ttl(other.ttl); Set.union_update *)
Definition r_union_update (self other : rds) (same : bool) : rds * res unit :=
  let s1 := update_ttl self (if same then ttl self else ttl other) in
  if same then (s1, Ok tt) else radd_all s1 (items other).

(* Rdataset.intersection_update *)
Definition r_inter_update (self other : rds) (same : bool) : rds * res unit :=
  let s1 := update_ttl self (if same then ttl self else ttl other) in
  (with_items s1 (sinter_update rd_eqb (items s1) (items other) same), Ok tt).

(* Rdataset.update: self.update_ttl(other.ttl); Set.update: for item in other: self.add(item).
   When other is self the loop runs over the items present at the start (see design note) *)
Definition r_update (self other : rds) (same : bool) : rds * res unit :=
  let s1 := update_ttl self (if same then ttl self else ttl other) in
  radd_all s1 (if same then items s1 else items other).

(* Set.difference_update (not overridden: no TTL change) *)
Definition r_diff_update (self other : rds) (same : bool) : rds * res unit :=
  (with_items self (sdiff_update rd_eqb (items self) (items other) same), Ok tt).

(* Set.symmetric_difference_update on an Rdataset: overlap = self.intersection(other) is
   a clone on which Rdataset.intersection_update runs; then Rdataset.union_update (may raise),
   then Set.difference_update(overlap) *)
Definition r_sym_update (self other : rds) (same : bool) : rds * res unit :=
  if same then (with_items self [], Ok tt)
  else
    let overlap := fst (r_inter_update (rclone self) other false) in
    match r_union_update self other false with
    | (s1, Ok _) => r_diff_update s1 overlap false
    | (s1, e) => (s1, e)
    end.

Definition ralg (a : alg) (self other : rds) (same : bool) : rds * res unit :=
  match a with
  | AUnion => r_union_update self other same
  | AInter => r_inter_update self other same
  | ADiff => r_diff_update self other same
  | ASym => r_sym_update self other same
  end.

(* in-place methods called on an ImmutableRdataset: the state never changes *)
Definition imm_inplace (w : inplace) (self other : rds) (same : bool) : res unit :=
  match w with
  | IUnion | IInter | IUpdate | IOr | IAnd | IAdd | ISub => Lib eTypeError
  | IDiff =>
      (* Set.difference_update: self.items.clear() / self.discard(item) -> Dict has neither *)
      if same then Internal iAttributeError
      else match items other with [] => Ok tt | _ :: _ => Internal iAttributeError end
  | ISym | IXor =>
      (* Set.symmetric_difference_update: clear() on the alias branch, otherwise
         self.intersection(other) succeeds and self.union_update(other) raises *)
      if same then Internal iAttributeError else Lib eTypeError
  end.

(* r.<w>(o) for an in-place method *)
Definition r_inplace (w : inplace) (self other : rds) (same : bool) : rds * res unit :=
  match kd self with
  | KImm => (self, imm_inplace w self other same)
  | KRds | KRR =>
      match inplace_alg w with
      | Some a => ralg a self other same
      | None => r_update self other same
      end
  end.

(* copying forms.  Set.union etc.: obj = self._clone(); obj.<x>_update(other) (dispatching to
   the Rdataset overrides; obj is never `other`); ImmutableRdataset wraps the result. *)
Definition r_func (w : func) (self other : rds) : res rds :=
  match ralg (func_alg w) (rclone self) other false with
  | (obj, Ok _) => Ok (match kd self with KImm => rimm obj | KRds | KRR => obj end)
  | (_, Lib e) => Lib e
  | (_, Internal e) => Internal e
  end.

(* copy() / __copy__ *)
Definition r_copy (self : rds) : rds :=
  match kd self with KImm => rimm (rclone self) | KRds | KRR => rclone self end.

Fixpoint label_list_eqb (a b : dname) : bool :=
  match a, b with
  | [], [] => true
  | x :: a', y :: b' => zlist_eqb x y && label_list_eqb a' b'
  | _, _ => false
  end.
(* dns.name.Name.__eq__: equal label counts, labels equal ignoring ASCII case *)
Definition name_eqb (a b : dname) : bool := label_list_eqb (map lower_l a) (map lower_l b).

(* Rdataset.__eq__ (other is an Rdataset of some kind) *)
Definition rds_base_eq (a b : rds) : bool :=
  if negb (cls a =? cls b) || negb (typ a =? typ b) || negb (cov a =? cov b) then false
  else seq rd_eqb (items a) (items b).

(* a == b: RRset.__eq__ compares names when both are RRsets, then Rdataset.__eq__ *)
Definition r_eq (a b : rds) : bool :=
  match kd a, kd b with
  | KRR, KRR => if negb (name_eqb (oname a) (oname b)) then false else rds_base_eq a b
  | _, _ => rds_base_eq a b
  end.

Definition r_pred (w : pred) (a b : rds) : bool :=
  match w with
  | PSubset => sissubset rd_eqb (items a) (items b)
  | PSuperset => sissuperset rd_eqb (items a) (items b)
  | PDisjoint => sisdisjoint rd_eqb (items a) (items b)
  | PEq => r_eq a b
  | PNe => negb (r_eq a b)
  end.

(* Rdataset.match *)
Definition r_match (s : rds) (c t v : Z) : bool := (cls s =? c) && (typ s =? t) && (cov s =? v).

Definition oz_eqb (a b : option Z) : bool :=
  match a, b with
  | None, None => true
  | Some x, Some y => x =? y
  | _, _ => false
  end.

(* RRset.full_match *)
Definition r_full_match (s : rds) (n : dname) (c t v : Z) (d : option Z) : bool :=
  if negb (r_match s c t v) then false
  else if negb (name_eqb (oname s) n) || negb (oz_eqb (deleting s) d) then false
  else true.

(* dns.rdataset.from_rdata_list(ttl, rdatas) / dns.rrset.from_rdata_list(name, ttl, rdatas):
   ValueError on an empty list; r = Rdataset(rd0.rdclass, rd0.rdtype) resp. RRset(name, ...);
   r.update_ttl(ttl); r.add(rd) for every rd *)
Definition r_from_list (n : option dname) (t : Z) (xs : list rdata) : res rds :=
  match xs with
  | [] => Lib eValueError
  | rd0 :: _ =>
      let r0 := match n with
                | Some nm => mkRds KRR (rcls rd0) (rtyp rd0) 0 0 [] nm None
                | None => mkRds KRds (rcls rd0) (rtyp rd0) 0 0 [] [] None
                end in
      match radd_all (update_ttl r0 t) xs with
      | (r, Ok _) => Ok r
      | (_, Lib e) => Lib e
      | (_, Internal e) => Internal e
      end
  end.

(* RRset.to_rdataset = dns.rdataset.from_rdata_list(self.ttl, list(self)) *)
Definition r_to_rdataset (s : rds) : res rds := r_from_list None (ttl s) (items s).

Inductive rop :=
| RNew (d : nat) (c t v t0 : Z)                          (* Rdataset(c, t, v, t0) *)
| RNewRR (d : nat) (n : dname) (c t v : Z) (del : option Z)   (* RRset(n, c, t, v, del) *)
| RImm (d r : nat)                                       (* ImmutableRdataset(reg r) *)
| RToRdataset (d r : nat)
| RFromList (d : nat) (n : option dname) (t : Z) (xs : list rdata)   (* from_rdata_list *)
| RAdd (r : nat) (x : rdata) (ottl : option Z)
| RUpdateTtl (r : nat) (t : Z)
| RUpdateTtlText (r : nat) (s : list Z)                  (* update_ttl("1h30m"): dns.ttl.make -> from_text *)
| RAddText (r : nat) (x : rdata) (s : list Z)            (* add(rd, "300") *)
| RRemove (r : nat) (x : rdata)
| RDiscard (r : nat) (x : rdata)
| RPop (r : nat)
| RClear (r : nat)
| RCopy (d r : nat)
| RInpl (w : inplace) (r o : nat)
| RFunc (w : func) (d r o : nat)
| RPred (w : pred) (r o : nat)
| RMatch (r : nat) (c t v : Z)
| RFullMatch (r : nat) (n : dname) (c t v : Z) (del : option Z)
| RLen (r : nat)
| RIter (r : nat)
| RContains (r : nat) (x : rdata)
| RGet (r : nat) (i : Z)
| RDelItem (r : nat) (i : Z).

Definition upd (st : list rds) (r : nat) (sr : rds * res unit) : list rds * obs :=
  (set_nth st r (fst sr), obs_err (snd sr)).

Definition rstep (st : list rds) (op : rop) : list rds * obs :=
  match op with
  | RNew d c t v t0 =>
      match assign st d (mkRds KRds c t v t0 [] [] None) with Some st' => (st', N) | None => bad st end
  | RNewRR d n c t v del =>
      match assign st d (mkRds KRR c t v 0 [] n del) with Some st' => (st', N) | None => bad st end
  | RImm d r =>
      match nth_error st r with
      | Some s => match assign st d (rimm s) with Some st' => (st', N) | None => bad st end
      | None => bad st end
  | RToRdataset d r =>
      match nth_error st r with
      | Some s =>
          match kd s with
          | KRR => match r_to_rdataset s with
                   | Ok x => match assign st d x with Some st' => (st', N) | None => bad st end
                   | e => (st, obs_err e)
                   end
          | KRds | KImm => (st, E iAttributeError)
          end
      | None => bad st end
  | RFromList d n t xs =>
      match r_from_list n t xs with
      | Ok x => match assign st d x with Some st' => (st', N) | None => bad st end
      | e => (st, obs_err e)
      end
  | RAdd r x ottl =>
      match nth_error st r with
      | Some s => match kd s with
                  | KImm => (st, E eTypeError)
                  | KRds | KRR => upd st r (radd s x ottl)
                  end
      | None => bad st end
  | RUpdateTtl r t =>
      match nth_error st r with
      | Some s => match kd s with
                  | KImm => (st, E eTypeError)
                  | KRds | KRR => (set_nth st r (update_ttl s t), N)
                  end
      | None => bad st end
  | RUpdateTtlText r txt =>
      match nth_error st r with
      | Some s => match kd s with
                  | KImm => (st, E eTypeError)
                  | KRds | KRR =>
                      (* ttl = dns.ttl.make(ttl): BadTTL before anything is touched *)
                      match TokM.ttl_from_text txt with
                      | Ok t => (set_nth st r (update_ttl s t), N)
                      | Lib e => (st, E e)
                      | Internal e => (st, E e)
                      end
                  end
      | None => bad st end
  | RAddText r x txt =>
      match nth_error st r with
      | Some s => match kd s with
                  | KImm => (st, E eTypeError)
                  | KRds | KRR =>
                      (* the class/type check comes first, then update_ttl parses the text *)
                      if negb (cls s =? rcls x) || negb (typ s =? rtyp x) then (st, E eIncompatibleTypes)
                      else match TokM.ttl_from_text txt with
                           | Ok t => upd st r (radd s x (Some t))
                           | Lib e => (st, E e)
                           | Internal e => (st, E e)
                           end
                  end
      | None => bad st end
  | RRemove r x =>
      match nth_error st r with
      | Some s => match kd s with
                  | KImm => (st, E eTypeError)       (* del on an immutable.Dict *)
                  | KRds | KRR => match sremove rd_eqb x (items s) with
                                  | Ok l => (set_nth st r (with_items s l), N)
                                  | e => (st, obs_err e)
                                  end
                  end
      | None => bad st end
  | RDiscard r x =>
      match nth_error st r with
      | Some s => match kd s with
                  | KImm => (st, E iAttributeError)  (* Dict has no pop *)
                  | KRds | KRR => (set_nth st r (with_items s (sdiscard rd_eqb x (items s))), N)
                  end
      | None => bad st end
  | RPop r =>
      match nth_error st r with
      | Some s => match kd s with
                  | KImm => (st, E iAttributeError)  (* Dict has no popitem *)
                  | KRds | KRR => match spop (items s) with
                                  | Ok (x, l) => (set_nth st r (with_items s l), I (rid x))
                                  | e => (st, obs_err e)
                                  end
                  end
      | None => bad st end
  | RClear r =>
      match nth_error st r with
      | Some s => match kd s with
                  | KImm => (st, E eTypeError)
                  | KRds | KRR => (set_nth st r (with_items s []), N)
                  end
      | None => bad st end
  | RCopy d r =>
      match nth_error st r with
      | Some s => match assign st d (r_copy s) with Some st' => (st', N) | None => bad st end
      | None => bad st end
  | RInpl w r o =>
      match nth_error st r, nth_error st o with
      | Some s, Some os => upd st r (r_inplace w s os (Nat.eqb r o))
      | _, _ => bad st end
  | RFunc w d r o =>
      match nth_error st r, nth_error st o with
      | Some s, Some os =>
          match r_func w s os with
          | Ok x => match assign st d x with Some st' => (st', N) | None => bad st end
          | e => (st, obs_err e)
          end
      | _, _ => bad st end
  | RPred w r o =>
      match nth_error st r, nth_error st o with
      | Some s, Some os => (st, ob (r_pred w s os))
      | _, _ => bad st end
  | RMatch r c t v =>
      match nth_error st r with
      | Some s => (st, ob (r_match s c t v))
      | None => bad st end
  | RFullMatch r n c t v del =>
      match nth_error st r with
      | Some s => match kd s with
                  | KRR => (st, ob (r_full_match s n c t v del))
                  | KRds | KImm => (st, E iAttributeError)
                  end
      | None => bad st end
  | RLen r =>
      match nth_error st r with
      | Some s => (st, I (zlen (items s)))
      | None => bad st end
  | RIter r =>
      match nth_error st r with
      | Some s => (st, obs_ids (items s))
      | None => bad st end
  | RContains r x =>
      match nth_error st r with
      | Some s => (st, ob (mem rd_eqb x (items s)))
      | None => bad st end
  | RGet r i =>
      match nth_error st r with
      | Some s => match sget (items s) i with
                  | Ok x => (st, I (rid x))
                  | e => (st, obs_err e)
                  end
      | None => bad st end
  | RDelItem r i =>
      match nth_error st r with
      | Some s => match kd s with
                  | KImm => (st, E eTypeError)
                  | KRds | KRR => match sdelitem rd_eqb (items s) i with
                                  | Ok l => (set_nth st r (with_items s l), N)
                                  | e => (st, obs_err e)
                                  end
                  end
      | None => bad st end
  end.

Fixpoint rexec (st : list rds) (ops : list rop) : list rds :=
  match ops with
  | [] => st
  | op :: r => rexec (fst (rstep st op)) r
  end.

(* ------------------------------------------------------------------------------------------ *)
(* 4. dns/_immutable_ctx.py: the context variable _in__init__ and the guard.
      Objects are numbered; the context variable holds None (the default False) or the object
      whose __init__/__setstate__ is running.  A script is what an __init__ body does. *)

Inductive act :=
| ASet (o : nat) (slot : Z) (v : Z)      (* setattr(o, slot, v), caught and logged by the script *)
| ADel (o : nat) (slot : Z)              (* delattr(o, slot), caught and logged *)
| AInit (o : nat) (body : list act)      (* run the wrapped __init__ of o: set ctx, body, finally reset *)
| ARaise.                                (* the body raises (an uncaught exception) *)

Definition store := list (nat * Z * Z).   (* (object, slot, value) triples, newest first *)

Definition st_has (s : store) (o : nat) (k : Z) : bool :=
  existsb (fun e => Nat.eqb (fst (fst e)) o && (snd (fst e) =? k)) s.
Definition st_del (s : store) (o : nat) (k : Z) : store :=
  filter (fun e => negb (Nat.eqb (fst (fst e)) o && (snd (fst e) =? k))) s.
Definition st_set (s : store) (o : nat) (k v : Z) : store := (o, k, v) :: st_del s o k.

Fixpoint st_get (s : store) (o : nat) (k : Z) : option Z :=
  match s with
  | [] => None
  | e :: r => if Nat.eqb (fst (fst e)) o && (snd (fst e) =? k) then Some (snd e) else st_get r o k
  end.

Definition ctx_is (c : option nat) (o : nat) : bool :=
  match c with Some x => Nat.eqb x o | None => false end.

Record gst := mkG { gctx : option nat; gstore : store; glog : list obs }.

(* returns the new state and whether an exception is propagating; structural recursion through
   the nested body lists *)
Fixpoint gact (g : gst) (a : act) {struct a} : gst * bool :=
  match a with
  | ASet o k v =>
      (* _Immutable.__setattr__ *)
      if ctx_is (gctx g) o then (mkG (gctx g) (st_set (gstore g) o k v) (glog g ++ [N]), false)
      else (mkG (gctx g) (gstore g) (glog g ++ [E eTypeError]), false)
  | ADel o k =>
      (* _Immutable.__delattr__ ; object.__delattr__ of a missing attribute: AttributeError *)
      if ctx_is (gctx g) o then
        if st_has (gstore g) o k then (mkG (gctx g) (st_del (gstore g) o k) (glog g ++ [N]), false)
        else (mkG (gctx g) (gstore g) (glog g ++ [E iAttributeError]), false)
      else (mkG (gctx g) (gstore g) (glog g ++ [E eTypeError]), false)
  | AInit o body =>
      (* _immutable_init: previous = _in__init__.set(args[0]); try f() finally reset(previous) *)
      let previous := gctx g in
      let '(g1, exc) :=
        (fix go (g : gst) (l : list act) {struct l} : gst * bool :=
           match l with
           | [] => (g, false)
           | a :: r => let '(g', exc) := gact g a in
                       if exc then (g', true) else go g' r
           end) (mkG (Some o) (gstore g) (glog g)) body in
      (mkG previous (gstore g1) (glog g1), exc)
  | ARaise => (g, true)
  end.

(* the body loop of an __init__ (the inner fix of gact, named for the proofs) *)
Fixpoint gbody (g : gst) (l : list act) : gst * bool :=
  match l with
  | [] => (g, false)
  | a :: r => let '(g', exc) := gact g a in
              if exc then (g', true) else gbody g' r
  end.

(* top level: each action is run on its own; an escaping exception is caught and logged *)
Fixpoint grun (g : gst) (l : list act) : gst :=
  match l with
  | [] => g
  | a :: r =>
      let '(g', exc) := gact g a in
      grun (if exc then mkG (gctx g') (gstore g') (glog g' ++ [E 999]) else g') r
  end.

(* ------------------------------------------------------------------------------------------ *)
(* 5. dns.immutable.constify on a value grammar *)

Inductive pval :=
| VInt (z : Z)
| VBytes (b : list Z)
| VByteArray (b : list Z)
| VStr (b : list Z)
| VNone
| VTuple (l : list pval)
| VList (l : list pval)
| VDict (kv : list (pval * pval))        (* a mutable dict *)
| VFrozen (kv : list (pval * pval))      (* dns.immutable.Dict *)
| VObj (z : Z).                          (* any other object, e.g. a dns.edns.Option: mutable,
                                            hashable by identity, not a container *)

(* hash(o) succeeds *)
Fixpoint hashable (v : pval) : bool :=
  match v with
  | VInt _ | VBytes _ | VStr _ | VNone => true
  | VByteArray _ | VList _ | VDict _ => false
  | VTuple l => forallb hashable l
  | VFrozen _ => true
  | VObj _ => true
  end.

Fixpoint constify (v : pval) : pval :=
  match v with
  | VByteArray b => VBytes b
  | VTuple l => if forallb hashable l then VTuple l else VTuple (map constify l)
  | VList l => VTuple (map constify l)
  | VDict kv => VFrozen (map (fun p => (fst p, constify (snd p))) kv)
  | _ => v
  end.

(* Rdata._as_bytes(value, encode, max_length, empty_ok): the normaliser every binary field goes
   through (str values are ASCII here, so value.encode() keeps the octets) *)
Definition as_bytes (encode : bool) (maxlen : option Z) (empty_ok : bool) (v : pval) : res pval :=
  let r := match v with
           | VStr b => if encode then Some b else None
           | VByteArray b => Some b
           | VBytes b => Some b
           | _ => None
           end in
  match r with
  | None => Lib eValueError                                   (* "not bytes" *)
  | Some b =>
      if match maxlen with Some m => zlen b >? m | None => false end then Lib eValueError
      else if negb empty_ok && (zlen b =? 0) then Lib eValueError
      else Ok (VBytes b)
  end.

(* iter(value) *)
Definition elements (v : pval) : option (list pval) :=
  match v with
  | VTuple l | VList l => Some l
  | VBytes b | VByteArray b => Some (map VInt b)
  | VStr b => Some (map (fun c => VStr [c]) b)
  | VDict kv | VFrozen kv => Some (map fst kv)
  | VInt _ | VNone | VObj _ => None
  end.

Fixpoint map_res {A B} (f : A -> res B) (l : list A) : res (list B) :=
  match l with
  | [] => Ok []
  | x :: r => match f x with
              | Ok y => match map_res f r with
                        | Ok ys => Ok (y :: ys)
                        | Lib e => Lib e
                        | Internal e => Internal e
                        end
              | Lib e => Lib e
              | Internal e => Internal e
              end
  end.

(* Rdata._as_tuple(value, as_value): try (as_value(value),) except: tuple(as_value(v) for v in value) *)
Definition as_tuple (as_value : pval -> res pval) (v : pval) : res pval :=
  match as_value v with
  | Ok r => Ok (VTuple [r])
  | _ =>
      match elements v with
      | None => Internal eTypeError
      | Some l => match map_res as_value l with
                  | Ok rs => Ok (VTuple rs)
                  | Lib e => Lib e
                  | Internal e => Internal e
                  end
      end
  end.

(* ------------------------------------------------------------------------------------------ *)
(* 5b. Rdata.__getstate__ / __setstate__ (copy, deepcopy, pickle) and Rdata.replace.
       An object is its slot values and its instance dictionary; attribute names are numbers. *)

Record pyobj := mkObj { oslots : list (Z * pval); odict : list (Z * pval) }.

Fixpoint alist_get {V} (k : Z) (l : list (Z * V)) : option V :=
  match l with
  | [] => None
  | (k', v) :: r => if k' =? k then Some v else alist_get k r
  end.

(* d[k] = v on an insertion-ordered dict: overwrite in place, else append *)
Fixpoint alist_set {V} (k : Z) (v : V) (l : list (Z * V)) : list (Z * V) :=
  match l with
  | [] => [(k, v)]
  | (k', v') :: r => if k' =? k then (k, v) :: r else (k', v') :: alist_set k v r
  end.

(* getattr(self, name): slot first, then the instance dictionary *)
Definition ogetattr (o : pyobj) (k : Z) : option pval :=
  match alist_get k (oslots o) with
  | Some v => Some v
  | None => alist_get k (odict o)
  end.

(* Rdata.__getstate__ (after the fix recorded in known_findings): every slot of the MRO
   (getattr: AttributeError when a slot is unset), then state.update(self.__dict__) *)
Definition getstate (cs : list Z) (o : pyobj) : res (list (Z * pval)) :=
  do st <- fold_left (fun acc k => do st <- acc;
                                   match alist_get k (oslots o) with
                                   | Some v => Ok (alist_set k v st)
                                   | None => Internal iAttributeError
                                   end) cs (Ok []);
  Ok (fold_left (fun acc kv => alist_set (fst kv) (snd kv) acc) (odict o) st).

(* object.__setattr__(self, name, value): the slot if the class has one of that name, else the
   instance dictionary if the class has one (some class of the MRO without __slots__), else
   AttributeError *)
Definition osetattr (cs : list Z) (has_dict : bool) (o : pyobj) (k : Z) (v : pval) : res pyobj :=
  if existsb (Z.eqb k) cs then Ok (mkObj (alist_set k v (oslots o)) (odict o))
  else if has_dict then Ok (mkObj (oslots o) (alist_set k v (odict o)))
  else Internal iAttributeError.

Definition rdcomment_id := 2.    (* the slot "rdcomment" (0 = rdclass, 1 = rdtype) *)

(* Rdata.__setstate__ on a fresh cls.__new__(cls): every item through object.__setattr__, then
   rdcomment = None if the state had none (pickles of dnspython 2.0) *)
Definition setstate (cs : list Z) (has_dict : bool) (state : list (Z * pval)) : res pyobj :=
  do o <- fold_left (fun acc kv => do o <- acc; osetattr cs has_dict o (fst kv) (snd kv))
                    state (Ok (mkObj [] []));
  match ogetattr o rdcomment_id with
  | Some _ => Ok o
  | None => osetattr cs has_dict o rdcomment_id VNone
  end.

(* Rdata.replace(kwargs...): `params` are the parameter names of the class's __init__ (in
   order), `ctor` is the class constructor (it validates and normalises its arguments) *)
Definition replace (params : list Z) (ctor : list pval -> res pyobj) (cs : list Z) (has_dict : bool)
           (o : pyobj) (kwargs : list (Z * pval)) : res pyobj :=
  (* for key in kwargs: rdcomment is always allowed; unknown names and rdclass/rdtype raise *)
  let bad := existsb (fun kv => negb (fst kv =? rdcomment_id)
                                && (negb (existsb (Z.eqb (fst kv)) params)
                                    || (fst kv =? 0) || (fst kv =? 1))) kwargs in
  if bad then Internal iAttributeError
  else
    do args <- map_res (fun k => match alist_get k kwargs with
                                 | Some v => Ok v
                                 | None => match ogetattr o k with
                                           | Some v => Ok v
                                           | None => Internal iAttributeError
                                           end
                                 end) params;
    do rd <- ctor args;
    (* rdcomment = kwargs.get("rdcomment", self.rdcomment); set (bypassing the guard) if not None *)
    let rc := match alist_get rdcomment_id kwargs with
              | Some v => Some v
              | None => ogetattr o rdcomment_id
              end in
    match rc with
    | Some VNone | None => Ok rd
    | Some v => osetattr cs has_dict rd rdcomment_id v
    end.

(* ------------------------------------------------------------------------------------------ *)
(* 5c. Rdataset.processing_order: Rdata._processing_order (shuffle) and
       dns.rdtypes.util.priority_processing_order (MX, KX, RT, AFSDB, PX, NAPTR, SVCB, HTTPS).
       random.shuffle is a parameter: any function returning a rearrangement of its argument.
       (weighted_processing_order of SRV / URI draws random numbers and is not modelled.) *)

Section Proc.
  Variable A : Type.
  Variable shuffle : list A -> list A.
  Variable prio : A -> Z.                 (* rdata._processing_priority() *)

  (* by_priority[prio].append(rdata) on a defaultdict(list) *)
  Fixpoint tbl_add (k : Z) (x : A) (t : list (Z * list A)) : list (Z * list A) :=
    match t with
    | [] => [(k, [x])]
    | (k', l) :: r => if k' =? k then (k', l ++ [x]) :: r else (k', l) :: tbl_add k x r
    end.

  (* _priority_table *)
  Definition ptable (items : list A) : list (Z * list A) :=
    fold_left (fun t x => tbl_add (prio x) x t) items [].

  Definition grp (t : list (Z * list A)) (k : Z) : list A :=
    match alist_get k t with Some l => l | None => [] end.

  (* sorted(by_priority.keys()) *)
  Fixpoint insert_z (k : Z) (l : list Z) : list Z :=
    match l with
    | [] => [k]
    | x :: r => if k <=? x then k :: l else x :: insert_z k r
    end.
  Definition sort_z (l : list Z) : list Z := fold_right insert_z [] l.

  (* priority_processing_order *)
  Definition priority_order (items : list A) : list A :=
    match items with
    | [_] => items
    | _ => let t := ptable items in
           flat_map (fun k => shuffle (grp t k)) (sort_z (map fst t))
    end.

  (* Rdataset.processing_order: [] when empty, else the order of the members' type *)
  Definition processing_order (by_priority : bool) (items : list A) : list A :=
    match items with
    | [] => []
    | _ => if by_priority then priority_order items else shuffle items
    end.
End Proc.

(* dns.rdtypes.util.weighted_processing_order (SRV, URI): the same grouping by priority, but
   inside a group the records are drawn one by one with probability proportional to their weight.
   random.uniform is a parameter; weights are scaled by 10 so that the 0.1 of weightless records
   is the integer 1 (an abstraction of the float arithmetic, exact for the values the
   correspondence uses). *)
Section Weighted.
  Variable A : Type.
  Variable uniform : Z -> Z.              (* r = random.uniform(0, total), scaled *)
  Variable prio : A -> Z.
  Variable weight : A -> Z.               (* rdata._processing_weight() *)

  Definition sweight (x : A) : Z := if weight x =? 0 then 1 else 10 * weight x.

  (* for n, rdata in enumerate(rdatas): if weight > r: break; r -= weight
     -> the chosen record and the others (the last one when the loop runs out) *)
  Fixpoint wpick (r : Z) (l : list A) : option (A * list A) :=
    match l with
    | [] => None
    | x :: rest =>
        match rest with
        | [] => Some (x, [])
        | _ :: _ =>
            if sweight x >? r then Some (x, rest)
            else match wpick (r - sweight x) rest with
                 | Some (y, rest') => Some (y, x :: rest')
                 | None => None
                 end
        end
    end.

  (* while len(rdatas) > 1: draw one; ordered.append(rdatas[0]).  fuel = len(rdatas) *)
  Fixpoint wextract_loop (fuel : nat) (total : Z) (l : list A) : list A :=
    match l with
    | [] => []
    | [x] => [x]
    | _ :: _ :: _ =>
        match fuel with
        | O => l
        | S f => match wpick (uniform total) l with
                 | Some (x, rest) => x :: wextract_loop f (total - sweight x) rest
                 | None => l
                 end
        end
    end.

  Definition wextract (l : list A) : list A :=
    wextract_loop (length l) (fold_right (fun x acc => sweight x + acc) 0 l) l.

  Definition weighted_order (items : list A) : list A := priority_order A wextract prio items.
End Weighted.

(* ------------------------------------------------------------------------------------------ *)
(* 6. harness interface *)

Definition rd_of_obs (o : obs) : option rdata :=
  match o with
  | L [I i; I c; I t; I v; B d; I r; B _] => Some (mkRd i c t v d (r =? 1))   (* last: the text the harness rebuilds the object from *)
  | _ => None
  end.

Fixpoint opt_map {A B} (f : A -> option B) (l : list A) : option (list B) :=
  match l with
  | [] => Some []
  | x :: r => match f x, opt_map f r with
              | Some y, Some ys => Some (y :: ys)
              | _, _ => None
              end
  end.

Definition nat_of_obs (o : obs) : option nat :=
  match o with I z => if z <? 0 then None else Some (Z.to_nat z) | _ => None end.
Definition onat_of_obs (o : obs) : option (option nat) :=
  match o with N => Some None | I z => if z <? 0 then None else Some (Some (Z.to_nat z)) | _ => None end.
Definition oz_of_obs (o : obs) : option (option Z) :=
  match o with N => Some None | I z => Some (Some z) | _ => None end.
Definition z_of_obs (o : obs) : option Z := match o with I z => Some z | _ => None end.

Definition inplace_of (z : Z) : option inplace :=
  if z =? 1 then Some IUnion else if z =? 2 then Some IInter else if z =? 3 then Some IDiff
  else if z =? 4 then Some ISym else if z =? 5 then Some IUpdate else if z =? 6 then Some IOr
  else if z =? 7 then Some IAnd else if z =? 8 then Some IAdd else if z =? 9 then Some ISub
  else if z =? 10 then Some IXor else None.
Definition func_of (z : Z) : option func :=
  if z =? 1 then Some FUnion else if z =? 2 then Some FInter else if z =? 3 then Some FDiff
  else if z =? 4 then Some FSym else if z =? 6 then Some FOr else if z =? 7 then Some FAnd
  else if z =? 8 then Some FAdd else if z =? 9 then Some FSub else if z =? 10 then Some FXor
  else None.
Definition pred_of (z : Z) : option pred :=
  if z =? 1 then Some PSubset else if z =? 2 then Some PSuperset else if z =? 3 then Some PDisjoint
  else if z =? 4 then Some PEq else if z =? 5 then Some PNe else None.

Section Decode.
  Variable univ : list rdata.
  Definition rec_at (o : obs) : option rdata :=
    match nat_of_obs o with Some n => nth_error univ n | None => None end.
  Definition recs_at (l : list obs) : option (list rdata) := opt_map rec_at l.

  Definition sop_of_obs (o : obs) : option sop :=
    match o with
    | L [I 1; d; L xs] =>
        match nat_of_obs d, recs_at xs with Some d, Some xs => Some (SNew d xs) | _, _ => None end
    | L [I 2; r; x] =>
        match nat_of_obs r, rec_at x with Some r, Some x => Some (SAdd r x) | _, _ => None end
    | L [I 3; r; x] =>
        match nat_of_obs r, rec_at x with Some r, Some x => Some (SRemove r x) | _, _ => None end
    | L [I 4; r; x] =>
        match nat_of_obs r, rec_at x with Some r, Some x => Some (SDiscard r x) | _, _ => None end
    | L [I 5; r] => match nat_of_obs r with Some r => Some (SPop r) | None => None end
    | L [I 6; r] => match nat_of_obs r with Some r => Some (SClear r) | None => None end
    | L [I 7; d; r] =>
        match nat_of_obs d, nat_of_obs r with Some d, Some r => Some (SCopy d r) | _, _ => None end
    | L [I 8; I w; r; o] =>
        match inplace_of w, nat_of_obs r, onat_of_obs o with
        | Some w, Some r, Some o => Some (SInpl w r o) | _, _, _ => None end
    | L [I 9; I w; d; r; o] =>
        match func_of w, nat_of_obs d, nat_of_obs r, onat_of_obs o with
        | Some w, Some d, Some r, Some o => Some (SFunc w d r o) | _, _, _, _ => None end
    | L [I 10; I w; r; o] =>
        match pred_of w, nat_of_obs r, onat_of_obs o with
        | Some w, Some r, Some o => Some (SPred w r o) | _, _, _ => None end
    | L [I 11; r; L xs] =>
        match nat_of_obs r, recs_at xs with Some r, Some xs => Some (SUpdateList r xs) | _, _ => None end
    | L [I 12; r] => match nat_of_obs r with Some r => Some (SLen r) | None => None end
    | L [I 13; r] => match nat_of_obs r with Some r => Some (SIter r) | None => None end
    | L [I 14; r; x] =>
        match nat_of_obs r, rec_at x with Some r, Some x => Some (SContains r x) | _, _ => None end
    | L [I 15; r; I i] => match nat_of_obs r with Some r => Some (SGet r i) | None => None end
    | L [I 16; r; a; b; c] =>
        match nat_of_obs r, oz_of_obs a, oz_of_obs b, oz_of_obs c with
        | Some r, Some a, Some b, Some c => Some (SGetSlice r a b c) | _, _, _, _ => None end
    | L [I 17; r; I i] => match nat_of_obs r with Some r => Some (SDelItem r i) | None => None end
    | L [I 18; r; a; b; c] =>
        match nat_of_obs r, oz_of_obs a, oz_of_obs b, oz_of_obs c with
        | Some r, Some a, Some b, Some c => Some (SDelSlice r a b c) | _, _, _, _ => None end
    | _ => None
    end.

  Definition name_of_obs (o : obs) : option dname :=
    match o with
    | L ls => opt_map (fun x => match x with B b => Some b | _ => None end) ls
    | _ => None
    end.

  Definition rop_of_obs (o : obs) : option rop :=
    match o with
    | L [I 1; d; I c; I t; I v; I t0] =>
        match nat_of_obs d with Some d => Some (RNew d c t v t0) | None => None end
    | L [I 2; d; n; I c; I t; I v; del] =>
        match nat_of_obs d, name_of_obs n, oz_of_obs del with
        | Some d, Some n, Some del => Some (RNewRR d n c t v del) | _, _, _ => None end
    | L [I 3; d; r] =>
        match nat_of_obs d, nat_of_obs r with Some d, Some r => Some (RImm d r) | _, _ => None end
    | L [I 4; d; r] =>
        match nat_of_obs d, nat_of_obs r with Some d, Some r => Some (RToRdataset d r) | _, _ => None end
    | L [I 5; r; x; t] =>
        match nat_of_obs r, rec_at x, oz_of_obs t with
        | Some r, Some x, Some t => Some (RAdd r x t) | _, _, _ => None end
    | L [I 6; r; I t] => match nat_of_obs r with Some r => Some (RUpdateTtl r t) | None => None end
    | L [I 7; r; x] =>
        match nat_of_obs r, rec_at x with Some r, Some x => Some (RRemove r x) | _, _ => None end
    | L [I 8; r; x] =>
        match nat_of_obs r, rec_at x with Some r, Some x => Some (RDiscard r x) | _, _ => None end
    | L [I 9; r] => match nat_of_obs r with Some r => Some (RPop r) | None => None end
    | L [I 10; r] => match nat_of_obs r with Some r => Some (RClear r) | None => None end
    | L [I 11; d; r] =>
        match nat_of_obs d, nat_of_obs r with Some d, Some r => Some (RCopy d r) | _, _ => None end
    | L [I 12; I w; r; o] =>
        match inplace_of w, nat_of_obs r, nat_of_obs o with
        | Some w, Some r, Some o => Some (RInpl w r o) | _, _, _ => None end
    | L [I 13; I w; d; r; o] =>
        match func_of w, nat_of_obs d, nat_of_obs r, nat_of_obs o with
        | Some w, Some d, Some r, Some o => Some (RFunc w d r o) | _, _, _, _ => None end
    | L [I 14; I w; r; o] =>
        match pred_of w, nat_of_obs r, nat_of_obs o with
        | Some w, Some r, Some o => Some (RPred w r o) | _, _, _ => None end
    | L [I 15; r; I c; I t; I v] =>
        match nat_of_obs r with Some r => Some (RMatch r c t v) | None => None end
    | L [I 16; r; n; I c; I t; I v; del] =>
        match nat_of_obs r, name_of_obs n, oz_of_obs del with
        | Some r, Some n, Some del => Some (RFullMatch r n c t v del) | _, _, _ => None end
    | L [I 17; r] => match nat_of_obs r with Some r => Some (RLen r) | None => None end
    | L [I 18; r] => match nat_of_obs r with Some r => Some (RIter r) | None => None end
    | L [I 19; r; x] =>
        match nat_of_obs r, rec_at x with Some r, Some x => Some (RContains r x) | _, _ => None end
    | L [I 20; r; I i] => match nat_of_obs r with Some r => Some (RGet r i) | None => None end
    | L [I 21; r; I i] => match nat_of_obs r with Some r => Some (RDelItem r i) | None => None end
    | L [I 23; r; B txt] => match nat_of_obs r with Some r => Some (RUpdateTtlText r txt) | None => None end
    | L [I 24; r; x; B txt] =>
        match nat_of_obs r, rec_at x with Some r, Some x => Some (RAddText r x txt) | _, _ => None end
    | L [I 22; d; n; I t; L xs] =>
        match nat_of_obs d, (match n with N => Some None
                                     | _ => match name_of_obs n with Some nm => Some (Some nm) | None => None end
                             end), recs_at xs with
        | Some d, Some n, Some xs => Some (RFromList d n t xs) | _, _, _ => None end
    | _ => None
    end.
End Decode.

Definition obs_sstate (st : list sset) : obs := L (map obs_ids st).

Definition kind_code (k : kind) : Z := match k with KRds => 0 | KImm => 1 | KRR => 2 end.
Definition obs_rds (s : rds) : obs :=
  L [I (kind_code (kd s)); I (cls s); I (typ s); I (cov s); I (ttl s); obs_ids (items s);
     L (map B (oname s)); match deleting s with Some z => I z | None => N end].
Definition obs_rstate (st : list rds) : obs := L (map obs_rds st).

(* fold the ops, one observation [outcome; whole state] per step *)
Fixpoint strace (st : list sset) (ops : list sop) : list obs :=
  match ops with
  | [] => []
  | op :: r => let '(st', out) := sstep st op in L [out; obs_sstate st'] :: strace st' r
  end.

Fixpoint rtrace (st : list rds) (ops : list rop) : list obs :=
  match ops with
  | [] => []
  | op :: r => let '(st', out) := rstep st op in L [out; obs_rstate st'] :: rtrace st' r
  end.

Definition obs_rbool (r : res bool) : obs :=
  match r with Ok b => ob b | Lib e => E e | Internal e => E e end.

(* act / pval decoders: structural recursion over obs *)
Fixpoint act_of_obs (o : obs) : option act :=
  match o with
  | L [I 1; I ob; I k; I v] => if ob <? 0 then None else Some (ASet (Z.to_nat ob) k v)
  | L [I 2; I ob; I k] => if ob <? 0 then None else Some (ADel (Z.to_nat ob) k)
  | L [I 3; I ob; L body] =>
      if ob <? 0 then None
      else match (fix go (l : list obs) : option (list act) :=
                    match l with
                    | [] => Some []
                    | x :: r => match act_of_obs x, go r with
                                | Some a, Some l' => Some (a :: l')
                                | _, _ => None
                                end
                    end) body with
           | Some b => Some (AInit (Z.to_nat ob) b)
           | None => None
           end
  | L [I 4] => Some ARaise
  | _ => None
  end.

Fixpoint pval_of_obs (o : obs) : option pval :=
  match o with
  | L [I 1; I z] => Some (VInt z)
  | L [I 2; B b] => Some (VBytes b)
  | L [I 3; B b] => Some (VByteArray b)
  | L [I 4; B b] => Some (VStr b)
  | L [I 5] => Some VNone
  | L [I 6; L l] =>
      match (fix go (l : list obs) : option (list pval) :=
               match l with
               | [] => Some []
               | x :: r => match pval_of_obs x, go r with
                           | Some a, Some l' => Some (a :: l') | _, _ => None end
               end) l with Some l' => Some (VTuple l') | None => None end
  | L [I 7; L l] =>
      match (fix go (l : list obs) : option (list pval) :=
               match l with
               | [] => Some []
               | x :: r => match pval_of_obs x, go r with
                           | Some a, Some l' => Some (a :: l') | _, _ => None end
               end) l with Some l' => Some (VList l') | None => None end
  | L [I 8; L l] =>
      match (fix go (l : list obs) : option (list (pval * pval)) :=
               match l with
               | [] => Some []
               | L [k; v] :: r => match pval_of_obs k, pval_of_obs v, go r with
                                  | Some a, Some b, Some l' => Some ((a, b) :: l') | _, _, _ => None end
               | _ => None
               end) l with Some l' => Some (VDict l') | None => None end
  | L [I 9; L l] =>
      match (fix go (l : list obs) : option (list (pval * pval)) :=
               match l with
               | [] => Some []
               | L [k; v] :: r => match pval_of_obs k, pval_of_obs v, go r with
                                  | Some a, Some b, Some l' => Some ((a, b) :: l') | _, _, _ => None end
               | _ => None
               end) l with Some l' => Some (VFrozen l') | None => None end
  | L [I 10; I z] => Some (VObj z)
  | _ => None
  end.

Fixpoint obs_of_pval (v : pval) : obs :=
  match v with
  | VInt z => L [I 1; I z]
  | VBytes b => L [I 2; B b]
  | VByteArray b => L [I 3; B b]
  | VStr b => L [I 4; B b]
  | VNone => L [I 5]
  | VTuple l => L [I 6; L (map obs_of_pval l)]
  | VList l => L [I 7; L (map obs_of_pval l)]
  | VDict kv => L [I 8; L (map (fun p => L [obs_of_pval (fst p); obs_of_pval (snd p)]) kv)]
  | VFrozen kv => L [I 9; L (map (fun p => L [obs_of_pval (fst p); obs_of_pval (snd p)]) kv)]
  | VObj z => L [I 10; I z]
  end.

Definition alist_of_obs (l : list obs) : option (list (Z * pval)) :=
  opt_map (fun o => match o with
                    | L [I k; v] => match pval_of_obs v with Some x => Some (k, x) | None => None end
                    | _ => None
                    end) l.
Definition obs_of_alist (l : list (Z * pval)) : obs :=
  L (map (fun kv => L [I (fst kv); obs_of_pval (snd kv)]) l).

(* slot values in the order of the class's slot list (N for an unset slot), then the dictionary *)
Definition obs_of_obj (cs : list Z) (o : pyobj) : obs :=
  L [L (map (fun k => match alist_get k (oslots o) with Some v => obs_of_pval v | None => N end) cs);
     obs_of_alist (odict o)].

(* a constructor that stores its arguments as they are under the parameter names (rdclass and
   rdtype first) and sets rdcomment = None, as Rdata.__init__ and the typed __init__s do for
   arguments that are already of the right type *)
Definition ctor_plain (params : list Z) (args : list pval) : res pyobj :=
  if Nat.eqb (length params) (length args)
  then Ok (mkObj (alist_set rdcomment_id VNone (combine params args)) [])
  else Internal eTypeError.

Definition obs_store (s : store) : obs :=
  L (map (fun e => L [I (Z.of_nat (fst (fst e))); I (snd (fst e)); I (snd e)]) s).

Definition run (c : obs) : obs :=
  match c with
  | L [I 1; L us; L ops] =>                                  (* dns.set.Set machine *)
      match opt_map rd_of_obs us with
      | Some univ =>
          match opt_map (sop_of_obs univ) ops with
          | Some ops => L (strace [] ops)
          | None => E eBadCase
          end
      | None => E eBadCase
      end
  | L [I 2; L us; L ops] =>                                  (* Rdataset machine *)
      match opt_map rd_of_obs us with
      | Some univ =>
          match opt_map (rop_of_obs univ) ops with
          | Some ops => L (rtrace [] ops)
          | None => E eBadCase
          end
      | None => E eBadCase
      end
  | L [I 3; a; b] =>                                         (* record comparisons *)
      match rd_of_obs a, rd_of_obs b with
      | Some a, Some b =>
          L [ob (rd_eqb a b); ob (rd_neb a b); ob (zlist_eqb (rd_hashkey a) (rd_hashkey b));
             obs_rbool (rd_rich RLt a b); obs_rbool (rd_rich RLe a b);
             obs_rbool (rd_rich RGe a b); obs_rbool (rd_rich RGt a b)]
      | _, _ => E eBadCase
      end
  | L [I 4; L acts] =>                                       (* immutable guard scripts *)
      match opt_map act_of_obs acts with
      | Some l => let g := grun (mkG None [] []) l in
                  L [L (glog g); match gctx g with Some o => I (Z.of_nat o) | None => N end;
                     L (map (fun o => L (map (fun k => match st_get (gstore g) o k with
                                                       | Some v => I v | None => N end)
                                             [0; 1; 2; 3])) [0; 1; 2; 3]%nat)]
      | None => E eBadCase
      end
  | L [I 5; v] =>                                            (* constify *)
      match pval_of_obs v with
      | Some v => obs_of_pval (constify v)
      | None => E eBadCase
      end
  | L [I 8; I _; L cs; I hd; L sl; L dc; L st] =>                 (* __getstate__ of (slots, dict); __setstate__(st) *)
      match opt_map z_of_obs cs, alist_of_obs sl, alist_of_obs dc, alist_of_obs st with
      | Some cs, Some sl, Some dc, Some st =>
          L [match getstate cs (mkObj sl dc) with Ok x => obs_of_alist x | Lib e => E e | Internal e => E e end;
             match setstate cs (hd =? 1) st with
             | Ok o => obs_of_obj cs o
             | Lib e => E e | Internal e => E e
             end]
      | _, _, _, _ => E eBadCase
      end
  | L [I 9; I _; L ps; L cs; I hd; L sl; L dc; L kw; L _] =>           (* replace(kwargs) with a storing constructor *)
      match opt_map z_of_obs ps, opt_map z_of_obs cs, alist_of_obs sl, alist_of_obs dc, alist_of_obs kw with
      | Some ps, Some cs, Some sl, Some dc, Some kw =>
          match replace ps (ctor_plain ps) cs (hd =? 1) (mkObj sl dc) kw with
          | Ok o => obs_of_obj cs o
          | Lib e => E e | Internal e => E e
          end
      | _, _, _, _, _ => E eBadCase
      end
  | L [I 10; I mode; L items] =>                             (* processing_order; shuffle := reverse,
                                                                uniform := 0 (mode 2) or total (mode 3) *)
      match opt_map (fun o => match o with L [I p; I i; I w] => Some (p, i, w) | _ => None end) items with
      | Some l =>
          let pr := fun x : Z * Z * Z => fst (fst x) in
          let wt := fun x : Z * Z * Z => snd x in
          L (map (fun x => I (snd (fst x)))
                 (if mode =? 2 then match l with [] => [] | _ => weighted_order _ (fun _ => 0) pr wt l end
                  else if mode =? 3 then match l with [] => [] | _ => weighted_order _ (fun t => t) pr wt l end
                  else processing_order _ (@rev _) pr (mode =? 1) l))
      | None => E eBadCase
      end
  | L [I 6; v; I enc; ml; I eok; I tup] =>                   (* _as_bytes / _as_tuple(_as_bytes) *)
      match pval_of_obs v, oz_of_obs ml with
      | Some v, Some ml =>
          let f := as_bytes (enc =? 1) ml (eok =? 1) in
          match (if tup =? 1 then as_tuple f v else f v) with
          | Ok r => obs_of_pval r
          | Lib e => E e
          | Internal e => E e
          end
      | _, _ => E eBadCase
      end
  | _ => E eBadCase
  end.
