(* Model of dns.rdata.get_rdata_class (dynamic dispatch with the _rdata_classes cache, the
   class-independent "ANY" modules, the GenericRdata fallback) and dns.rdata.load_all_types.
   Definitions only. *)
From DV Require Import Base.Prelude.
Open Scope Z_scope.

Definition key := (Z * Z)%type.          (* (rdclass, rdtype) *)
Definition cANY := 255.
Definition cIN := 1.
Definition cCH := 3.

(* an implementation class: the module dns/rdtypes/<dir>/<type>.py, or GenericRdata *)
Inductive impl := Typed (dir : Z) (t : Z) | Generic.

Definition impl_eqb (a b : impl) : bool :=
  match a, b with
  | Typed d t, Typed d' t' => (d =? d') && (t =? t')
  | Generic, Generic => true
  | _, _ => false
  end.

Record dstate := mk_dstate { cache : list (key * impl); dyn : bool }.

Definition key_eqb (a b : key) : bool := (fst a =? fst b) && (snd a =? snd b).

Fixpoint cache_get (c : list (key * impl)) (k : key) : option impl :=
  match c with
  | [] => None
  | (k', i) :: r => if key_eqb k k' then Some i else cache_get r k
  end.

(* dict assignment: the newest binding shadows older ones *)
Definition cache_set (c : list (key * impl)) (k : key) (i : impl) := (k, i) :: c.

(* which modules exist: (directory class, type); directories are ANY (255), IN (1), CH (3) *)
Fixpoint has_module (mods : list key) (d t : Z) : bool :=
  match mods with
  | [] => false
  | k :: r => key_eqb (d, t) k || has_module r d t
  end.

(* get_rdata_class(rdclass, rdtype, use_generic) -> (class or None, new state)
     cls = _rdata_classes.get((rdclass, rdtype))
     if not cls:
         cls = _rdata_classes.get((ANY, rdtype))
         if not cls and _dynamic_load_allowed:
             import dns.rdtypes.<CLASS>.<TYPE>      -> cache[(rdclass, rdtype)]
             else import dns.rdtypes.ANY.<TYPE>     -> cache[(ANY, rdtype)], cache[(rdclass, rdtype)]
     if not cls and use_generic:
         cls = GenericRdata; cache[(rdclass, rdtype)] = cls                                  *)
Definition get_class (mods : list key) (use_generic : bool) (st : dstate) (c t : Z)
  : option impl * dstate :=
  match cache_get (cache st) (c, t) with
  | Some i => (Some i, st)
  | None =>
      match cache_get (cache st) (cANY, t) with
      | Some i => (Some i, st)
      | None =>
          let found :=
            if dyn st then
              if has_module mods c t then
                Some (Typed c t, cache_set (cache st) (c, t) (Typed c t))
              else if has_module mods cANY t then
                Some (Typed cANY t,
                      cache_set (cache_set (cache st) (cANY, t) (Typed cANY t)) (c, t) (Typed cANY t))
              else None
            else None in
          match found with
          | Some (i, ca) => (Some i, mk_dstate ca (dyn st))
          | None =>
              if use_generic then
                (Some Generic, mk_dstate (cache_set (cache st) (c, t) Generic) (dyn st))
              else (None, st)
          end
      end
  end.

(* load_all_types(disable_dynamic_load): every member of dns.rdatatype.RdataType in class IN
   (use_generic=False), then (CH, A), then optionally switch dynamic loading off *)
Definition load_all (mods : list key) (all_types : list Z) (disable : bool) (st : dstate) : dstate :=
  let st1 := fold_left (fun s t => snd (get_class mods false s cIN t)) all_types st in
  let st2 := snd (get_class mods false st1 cCH 1) in
  if disable then mk_dstate (cache st2) false else st2.

(* the history-free answer: the class's own module, else the class-independent one, else generic *)
Definition stateless (mods : list key) (c t : Z) : impl :=
  if has_module mods c t then Typed c t
  else if has_module mods cANY t then Typed cANY t
  else Generic.

Inductive step := Query (c t : Z) | LoadAll (disable : bool).

Definition obs_of_impl (i : option impl) : obs :=
  match i with
  | Some (Typed d t) => L [I d; I t]
  | Some Generic => I 0
  | None => N
  end.

(* run a history from the initial state of a fresh interpreter; one observation per Query *)
Fixpoint run_history (mods : list key) (all_types : list Z) (h : list step) (st : dstate) : list obs :=
  match h with
  | [] => []
  | Query c t :: r =>
      let '(i, st') := get_class mods true st c t in
      obs_of_impl i :: run_history mods all_types r st'
  | LoadAll d :: r => run_history mods all_types r (load_all mods all_types d st)
  end.

Definition init_state := mk_dstate [] true.

Fixpoint steps_of_obs (l : list obs) : option (list step) :=
  match l with
  | [] => Some []
  | L [I 0; I c; I t] :: r => match steps_of_obs r with Some s => Some (Query c t :: s) | None => None end
  | L [I 1; I d] :: r => match steps_of_obs r with Some s => Some (LoadAll (d =? 1) :: s) | None => None end
  | _ => None
  end.
