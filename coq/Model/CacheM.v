(* C17 - model of dns/resolver.py  Cache / LRUCache / LRUCacheNode / CacheStatistics.
   Definitions only.

   Clock.  `time.time()` is an explicit input: the world carries `now` (the last value the clock
   returned) and every call comes with a list `ds` of increments; the i-th clock read made by
   the call returns now := now + ds[i] (no increment once the list is exhausted).  Any monotone
   sequence of readings is expressible, including time passing inside a critical section.

   Cache     value-level: the dict is an association list in Python insertion order.
   LRUCache  store-level: LRUCacheNode objects live in a store  id -> node  with explicit
             prev/next ids; node 0 is the sentinel; `unlink`/`link_after` are the four/two
             pointer assignments of the Python methods in the same order (with the aliasing
             re-reads), the dict maps key -> node id.  Dereferencing a missing node is
             Internal 2 (AttributeError), `del d[k]` on a missing key is Internal 1 (KeyError),
             loop fuel exhausted is Internal 3 (never: Proofs/CacheLru.v).
             Nodes dropped by the code (unlinked + removed from the dict) are removed from the
             store, which stands for CPython's reference counting.
   The list-level specification (`alru`) used by the theorems is in this file too. *)
From DV Require Import Base.Prelude.

(* ------------------------------------------------------------------ clock *)
Record clk := mkClk { now : Z; pend : list Z }.

Definition tick (c : clk) : Z * clk :=
  match pend c with
  | [] => (now c, c)
  | d :: q => (now c + d, mkClk (now c + d) q)
  end.

(* ------------------------------------------------------------------ values, calls *)
(* an Answer object: its identity and its absolute expiration time *)
Record ans := mkAns { a_id : Z; a_exp : Z }.

Inductive call :=
| Get (k : Z)
| Put (k : Z) (v : ans)
| Flush (k : option Z)
| SetMax (m : Z)          (* LRUCache only *)
| HitsFor (k : Z)         (* LRUCache only *)
| Hits | Misses | Snapshot | ResetStats.

Inductive ret := RNone | RAns (v : ans) | RInt (z : Z) | RStats (h m : Z).

Definition eKeyError := 1.
Definition eAttributeError := 2.
Definition eFuel := 3.

(* ------------------------------------------------------------------ Python dict (insertion ordered) *)
Fixpoint dget {V} (d : list (Z * V)) (k : Z) : option V :=
  match d with
  | [] => None
  | (k', v) :: r => if k' =? k then Some v else dget r k
  end.

(* d[k] = v : an existing key keeps its position *)
Fixpoint dset {V} (d : list (Z * V)) (k : Z) (v : V) : list (Z * V) :=
  match d with
  | [] => [(k, v)]
  | (k', v') :: r => if k' =? k then (k, v) :: r else (k', v') :: dset r k v
  end.

(* del d[k] : None = KeyError *)
Fixpoint ddel {V} (d : list (Z * V)) (k : Z) : option (list (Z * V)) :=
  match d with
  | [] => None
  | (k', v') :: r =>
      if k' =? k then Some r
      else match ddel r k with Some r' => Some ((k', v') :: r') | None => None end
  end.

Definition dkeys {V} (d : list (Z * V)) : list Z := map fst d.

(* ------------------------------------------------------------------ Cache *)
Record cache := mkCache {
  c_data : list (Z * ans);
  c_interval : Z;
  c_next : Z;            (* next_cleaning *)
  c_hits : Z;
  c_miss : Z }.

Definition expired_at (t : Z) (kv : Z * ans) : bool := a_exp (snd kv) <=? t.

(* Cache.__init__ : next_cleaning = time.time() + cleaning_interval *)
Definition cache_init (interval : Z) (k : clk) : cache * clk :=
  let (t, k1) := tick k in (mkCache [] interval (t + interval) 0 0, k1).

(* Cache._maybe_clean *)
Definition maybe_clean (c : cache) (k : clk) : cache * clk :=
  let (t, k1) := tick k in
  if c_next c <=? t then
    let data := filter (fun kv => negb (expired_at t kv)) (c_data c) in
    let (t2, k2) := tick k1 in
    (mkCache data (c_interval c) (t2 + c_interval c) (c_hits c) (c_miss c), k2)
  else (c, k1).

Definition cache_with_data (c : cache) (d : list (Z * ans)) : cache :=
  mkCache d (c_interval c) (c_next c) (c_hits c) (c_miss c).
Definition cache_miss (c : cache) : cache :=
  mkCache (c_data c) (c_interval c) (c_next c) (c_hits c) (c_miss c + 1).
Definition cache_hit (c : cache) : cache :=
  mkCache (c_data c) (c_interval c) (c_next c) (c_hits c + 1) (c_miss c).

Definition cache_step (cl : call) (c : cache) (k : clk) : res (ret * cache * clk) :=
  match cl with
  | Get key =>
      let (c1, k1) := maybe_clean c k in
      match dget (c_data c1) key with
      | None => Ok (RNone, cache_miss c1, k1)             (* `v is None or ...` short-circuits *)
      | Some v =>
          let (t, k2) := tick k1 in
          if a_exp v <=? t then Ok (RNone, cache_miss c1, k2)
          else Ok (RAns v, cache_hit c1, k2)
      end
  | Put key v =>
      let (c1, k1) := maybe_clean c k in
      Ok (RNone, cache_with_data c1 (dset (c_data c1) key v), k1)
  | Flush (Some key) =>
      match ddel (c_data c) key with               (* `if key in self.data: del ...` *)
      | Some d => Ok (RNone, cache_with_data c d, k)
      | None => Ok (RNone, c, k)
      end
  | Flush None =>
      let (t, k1) := tick k in
      Ok (RNone, mkCache [] (c_interval c) (t + c_interval c) (c_hits c) (c_miss c), k1)
  | Hits => Ok (RInt (c_hits c), c, k)
  | Misses => Ok (RInt (c_miss c), c, k)
  | Snapshot => Ok (RStats (c_hits c) (c_miss c), c, k)
  | ResetStats => Ok (RNone, mkCache (c_data c) (c_interval c) (c_next c) 0 0, k)
  | SetMax _ | HitsFor _ => Internal eAttributeError
  end.

(* ------------------------------------------------------------------ LRUCache, store level *)
Record node := mkNode {
  n_key : option Z;        (* None for the sentinel *)
  n_val : option ans;
  n_hits : Z;
  n_prev : nat;
  n_next : nat }.

Definition store := list (nat * node).

Fixpoint sget (s : store) (i : nat) : option node :=
  match s with
  | [] => None
  | (j, n) :: r => if Nat.eqb j i then Some n else sget r i
  end.

Fixpoint sset (s : store) (i : nat) (n : node) : store :=
  match s with
  | [] => [(i, n)]
  | (j, m) :: r => if Nat.eqb j i then (i, n) :: r else (j, m) :: sset r i n
  end.

Fixpoint sfree (s : store) (i : nat) : store :=
  match s with
  | [] => []
  | (j, m) :: r => if Nat.eqb j i then sfree r i else (j, m) :: sfree r i
  end.

Definition getn (s : store) (i : nat) : res node :=
  match sget s i with Some n => Ok n | None => Internal eAttributeError end.

Definition set_prev (s : store) (i v : nat) : res store :=
  do n <- getn s i; Ok (sset s i (mkNode (n_key n) (n_val n) (n_hits n) v (n_next n))).
Definition set_next (s : store) (i v : nat) : res store :=
  do n <- getn s i; Ok (sset s i (mkNode (n_key n) (n_val n) (n_hits n) (n_prev n) v)).
Definition set_hits (s : store) (i : nat) (h : Z) : res store :=
  do n <- getn s i; Ok (sset s i (mkNode (n_key n) (n_val n) h (n_prev n) (n_next n))).

(* LRUCacheNode.unlink:   self.next.prev = self.prev ;  self.prev.next = self.next *)
Definition unlink (s : store) (i : nat) : res store :=
  do n <- getn s i;
  do s1 <- set_prev s (n_next n) (n_prev n);
  do n' <- getn s1 i;
  set_next s1 (n_prev n') (n_next n').

(* LRUCacheNode.link_after(node):
     self.prev = node ; self.next = node.next ; node.next.prev = self ; node.next = self *)
Definition link_after (s : store) (i after : nat) : res store :=
  do s1 <- set_prev s i after;
  do a <- getn s1 after;
  do s2 <- set_next s1 i (n_next a);
  do a2 <- getn s2 after;
  do s3 <- set_prev s2 (n_next a2) i;
  set_next s3 after i.

Record lru := mkLru {
  l_store : store;
  l_dict : list (Z * nat);
  l_max : Z;
  l_hits : Z;
  l_miss : Z;
  l_fresh : nat }.          (* next unused node id *)

Definition sentinel : nat := 0%nat.

Definition lru_upd (st : lru) (s : store) (d : list (Z * nat)) : lru :=
  mkLru s d (l_max st) (l_hits st) (l_miss st) (l_fresh st).
Definition lru_miss (st : lru) : lru :=
  mkLru (l_store st) (l_dict st) (l_max st) (l_hits st) (l_miss st + 1) (l_fresh st).

(* `del self.data[node.key]` for node i (after it was unlinked); then the node is garbage *)
Definition drop_node (st : lru) (s : store) (i : nat) : res lru :=
  do n <- getn s i;
  match n_key n with
  | None => Internal eKeyError
  | Some key =>
      match ddel (l_dict st) key with
      | None => Internal eKeyError
      | Some d => Ok (lru_upd st (sfree s i) d)
      end
  end.

(* gnode = self.sentinel.prev ; gnode.unlink() ; del self.data[gnode.key] *)
Definition evict_one (st : lru) : res lru :=
  do sen <- getn (l_store st) sentinel;
  let g := n_prev sen in
  do s1 <- unlink (l_store st) g;
  drop_node st s1 g.

(* put:           while len(self.data) >= self.max_size: evict      (strict = false)
   set_max_size:  while len(self.data) >  self.max_size: evict      (strict = true) *)
Fixpoint evict_while (fuel : nat) (strict : bool) (st : lru) : res lru :=
  match fuel with
  | O => Internal eFuel
  | S f =>
      let n := zlen (l_dict st) in
      if (if strict then l_max st <? n else l_max st <=? n)
      then do st' <- evict_one st; evict_while f strict st'
      else Ok st
  end.

Definition evict_fuel (st : lru) : nat := S (length (l_dict st)).

(* set_max_size *)
Definition lru_set_max (st : lru) (m : Z) : res lru :=
  let m' := if m <? 1 then 1 else m in
  let st1 := mkLru (l_store st) (l_dict st) m' (l_hits st) (l_miss st) (l_fresh st) in
  evict_while (evict_fuel st1) true st1.

(* LRUCache.__init__ *)
Definition lru_init (max_size : Z) : res lru :=
  lru_set_max (mkLru [(sentinel, mkNode None None 0 sentinel sentinel)] [] 0 0 0 1%nat) max_size.

(* flush(): gnode = sentinel.next; while gnode != sentinel: next = gnode.next; gnode.unlink(); gnode = next *)
Fixpoint flush_loop (fuel : nat) (s : store) (g : nat) : res store :=
  match fuel with
  | O => Internal eFuel
  | S f =>
      if Nat.eqb g sentinel then Ok s
      else
        do gn <- getn s g;
        do s1 <- unlink s g;
        flush_loop f (sfree s1 g) (n_next gn)
  end.

Definition lru_step (cl : call) (st : lru) (k : clk) : res (ret * lru * clk) :=
  match cl with
  | Get key =>
      match dget (l_dict st) key with
      | None => Ok (RNone, lru_miss st, k)
      | Some i =>
          do s1 <- unlink (l_store st) i;
          do n <- getn s1 i;
          match n_val n with
          | None => Internal eAttributeError
          | Some v =>
              let (t, k1) := tick k in
              if a_exp v <=? t then
                do st1 <- drop_node st s1 i;
                Ok (RNone, lru_miss st1, k1)
              else
                do s2 <- link_after s1 i sentinel;
                do n2 <- getn s2 i;
                do s3 <- set_hits s2 i (n_hits n2 + 1);
                Ok (RAns v, mkLru s3 (l_dict st) (l_max st) (l_hits st + 1) (l_miss st) (l_fresh st), k1)
          end
      end
  | HitsFor key =>
      match dget (l_dict st) key with
      | None => Ok (RInt 0, st, k)
      | Some i =>
          do n <- getn (l_store st) i;
          match n_val n with
          | None => Internal eAttributeError
          | Some v =>
              let (t, k1) := tick k in
              if a_exp v <=? t then Ok (RInt 0, st, k1) else Ok (RInt (n_hits n), st, k1)
          end
      end
  | Put key v =>
      do st1 <- match dget (l_dict st) key with
                | Some i => do s1 <- unlink (l_store st) i; drop_node st s1 i
                | None => Ok st
                end;
      do st2 <- evict_while (evict_fuel st1) false st1;
      let i := l_fresh st2 in
      let s3 := sset (l_store st2) i (mkNode (Some key) (Some v) 0 i i) in
      do s4 <- link_after s3 i sentinel;
      Ok (RNone, mkLru s4 (dset (l_dict st2) key i) (l_max st2) (l_hits st2) (l_miss st2) (S i), k)
  | Flush (Some key) =>
      match dget (l_dict st) key with
      | Some i => do s1 <- unlink (l_store st) i; do st1 <- drop_node st s1 i; Ok (RNone, st1, k)
      | None => Ok (RNone, st, k)
      end
  | Flush None =>
      do sen <- getn (l_store st) sentinel;
      do s1 <- flush_loop (S (length (l_store st))) (l_store st) (n_next sen);
      Ok (RNone, lru_upd st s1 [], k)
  | SetMax m => do st1 <- lru_set_max st m; Ok (RNone, st1, k)
  | Hits => Ok (RInt (l_hits st), st, k)
  | Misses => Ok (RInt (l_miss st), st, k)
  | Snapshot => Ok (RStats (l_hits st) (l_miss st), st, k)
  | ResetStats => Ok (RNone, mkLru (l_store st) (l_dict st) (l_max st) 0 0 (l_fresh st), k)
  end.

(* ------------------------------------------------------------------ LRUCache, list-level specification *)
Record aent := mkEnt { e_key : Z; e_val : ans; e_hits : Z }.

Record alru := mkALru {
  a_list : list aent;        (* most recently used first *)
  a_max : Z;
  a_hits : Z;
  a_miss : Z }.

Fixpoint afind (l : list aent) (k : Z) : option aent :=
  match l with
  | [] => None
  | e :: r => if e_key e =? k then Some e else afind r k
  end.

Fixpoint aremove (l : list aent) (k : Z) : list aent :=
  match l with
  | [] => []
  | e :: r => if e_key e =? k then r else e :: aremove r k
  end.

(* keep at most n entries, dropping from the least recently used end *)
Definition atrim (l : list aent) (n : Z) : list aent := firstn (Z.to_nat n) l.

Definition alru_set_list (a : alru) (l : list aent) : alru := mkALru l (a_max a) (a_hits a) (a_miss a).
Definition alru_miss (a : alru) : alru := mkALru (a_list a) (a_max a) (a_hits a) (a_miss a + 1).

Definition alru_step (cl : call) (a : alru) (k : clk) : ret * alru * clk :=
  match cl with
  | Get key =>
      match afind (a_list a) key with
      | None => (RNone, alru_miss a, k)
      | Some e =>
          let (t, k1) := tick k in
          if a_exp (e_val e) <=? t
          then (RNone, alru_miss (alru_set_list a (aremove (a_list a) key)), k1)
          else (RAns (e_val e),
                mkALru (mkEnt key (e_val e) (e_hits e + 1) :: aremove (a_list a) key)
                       (a_max a) (a_hits a + 1) (a_miss a), k1)
      end
  | HitsFor key =>
      match afind (a_list a) key with
      | None => (RInt 0, a, k)
      | Some e =>
          let (t, k1) := tick k in
          if a_exp (e_val e) <=? t then (RInt 0, a, k1) else (RInt (e_hits e), a, k1)
      end
  | Put key v =>
      (RNone, alru_set_list a (mkEnt key v 0 :: atrim (aremove (a_list a) key) (a_max a - 1)), k)
  | Flush (Some key) => (RNone, alru_set_list a (aremove (a_list a) key), k)
  | Flush None => (RNone, alru_set_list a [], k)
  | SetMax m =>
      let m' := if m <? 1 then 1 else m in
      (RNone, mkALru (atrim (a_list a) m') m' (a_hits a) (a_miss a), k)
  | Hits => (RInt (a_hits a), a, k)
  | Misses => (RInt (a_miss a), a, k)
  | Snapshot => (RStats (a_hits a) (a_miss a), a, k)
  | ResetStats => (RNone, mkALru (a_list a) (a_max a) 0 0, k)
  end.

Definition alru_init (max_size : Z) : alru := mkALru [] (if max_size <? 1 then 1 else max_size) 0 0.

(* ------------------------------------------------------------------ sequential runs *)
(* one item of a sequential history: a call with the clock increments its reads will see,
   or time passing between calls *)
Inductive item := Call (c : call) (ds : list Z) | Adv (d : Z).

Section Run.
  Context {St : Type}.
  Variable step : call -> St -> clk -> res (ret * St * clk).

  (* the world is the object state and the last clock reading *)
  Definition wstep (it : item) (w : St * Z) : res (option ret * (St * Z)) :=
    match it with
    | Adv d => Ok (None, (fst w, snd w + d))
    | Call c ds =>
        match step c (fst w) (mkClk (snd w) ds) with
        | Ok (r, s', k') => Ok (Some r, (s', now k'))
        | Lib e => Lib e
        | Internal e => Internal e
        end
    end.

  Fixpoint wrun (its : list item) (w : St * Z) : res (list (option ret) * (St * Z)) :=
    match its with
    | [] => Ok ([], w)
    | it :: r =>
        do x <- wstep it w;
        do y <- wrun r (snd x);
        Ok (fst x :: fst y, snd y)
    end.
End Run.

Definition lift_alru (cl : call) (a : alru) (k : clk) : res (ret * alru * clk) := Ok (alru_step cl a k).

(* ------------------------------------------------------------------ harness interface *)
Definition eBadCase := 999.

Definition obs_of_ans (v : ans) : obs := L [I (a_id v); I (a_exp v)].
Definition obs_of_ret (r : ret) : obs :=
  match r with
  | RNone => N
  | RAns v => obs_of_ans v
  | RInt z => I z
  | RStats h m => L [I h; I m]
  end.

Definition obs_of_cache (c : cache) (t : Z) : obs :=
  L [L (map (fun kv => L [I (fst kv); obs_of_ans (snd kv)]) (c_data c));
     I (c_next c); I (c_hits c); I (c_miss c); I t].

(* walk the ring from the sentinel; `dir` true = next, false = prev *)
Fixpoint walk (fuel : nat) (s : store) (dir : bool) (i : nat) : option (list nat) :=
  match fuel with
  | O => None
  | S f =>
      if Nat.eqb i sentinel then Some []
      else match sget s i with
           | None => None
           | Some n => match walk f s dir (if dir then n_next n else n_prev n) with
                       | Some r => Some (i :: r)
                       | None => None
                       end
           end
  end.

Definition ring_ids (s : store) (dir : bool) : option (list nat) :=
  match sget s sentinel with
  | None => None
  | Some sen => walk (S (length s)) s dir (if dir then n_next sen else n_prev sen)
  end.

Definition obs_of_node (s : store) (i : nat) : obs :=
  match sget s i with
  | Some (mkNode (Some key) (Some v) h _ _) => L [I key; obs_of_ans v; I h]
  | _ => E eBadCase
  end.

Fixpoint index_of (i : nat) (l : list nat) (p : Z) : Z :=
  match l with
  | [] => -1
  | j :: r => if Nat.eqb j i then p else index_of i r (p + 1)
  end.

(* [forward walk: key, answer, hits per node; backward walk: keys; dict in insertion order:
    key and the position of the node it maps to in the forward walk; max_size; hits; misses; now] *)
Definition obs_of_lru (st : lru) (t : Z) : obs :=
  match ring_ids (l_store st) true, ring_ids (l_store st) false with
  | Some fw, Some bw =>
      L [L (map (obs_of_node (l_store st)) fw);
         L (map (fun i => match sget (l_store st) i with
                          | Some (mkNode (Some key) _ _ _ _) => I key
                          | _ => E eBadCase end) bw);
         L (map (fun kv => L [I (fst kv); I (index_of (snd kv) fw 0)]) (l_dict st));
         I (l_max st); I (l_hits st); I (l_miss st); I t]
  | _, _ => E eBadCase
  end.

Fixpoint zs_of_obs (l : list obs) : option (list Z) :=
  match l with
  | [] => Some []
  | I z :: r => match zs_of_obs r with Some zs => Some (z :: zs) | None => None end
  | _ => None
  end.

Fixpoint zmin_list (l : list Z) : option Z :=
  match l with
  | [] => None
  | x :: r => match zmin_list r with Some m => Some (Z.min x m) | None => Some x end
  end.

(* harness operations.  HPutAns builds the Answer first (Answer.__init__ reads the clock once:
   `mk t` is the answer made at reading t, or the exception its constructor raises), then puts it.
   Codes 2 / 12 describe the answer by the TTLs its lifetime is the minimum of; the message-level
   derivation (QueryMessage.resolve_chaining) is code 13 of Model/CacheAnsM.v. *)
Inductive hop :=
| HCall (c : call) (ds : list Z)
| HPutAns (k : Z) (mk : Z -> res ans) (ds : list Z)
| HAdv (d : Z).

Definition ans_of_ttls (vid : Z) (ttls : list Z) (t : Z) : res ans :=
  match zmin_list ttls with
  | None => Internal eBadCase
  | Some ttl => Ok (mkAns vid (t + ttl))
  end.

Definition hop_of_obs (o : obs) : option hop :=
  match o with
  | L [I 0; I k; L ds] => option_map (HCall (Get k)) (zs_of_obs ds)
  | L [I 1; I k; I vid; I e; L ds] => option_map (HCall (Put k (mkAns vid e))) (zs_of_obs ds)
  | L [I 2; I k; I vid; L ttls; L ds] =>
      match zs_of_obs ttls, zs_of_obs ds with
      | Some t, Some d => Some (HPutAns k (ans_of_ttls vid t) d)
      | _, _ => None
      end
  | L [I 12; I k; I vid; L ttls; L ds] =>          (* negative answer: CNAME TTLs, SOA TTL, SOA minimum *)
      match zs_of_obs ttls, zs_of_obs ds with
      | Some t, Some d => Some (HPutAns k (ans_of_ttls vid t) d)
      | _, _ => None
      end
  | L [I 3; I k; L ds] => option_map (HCall (Flush (Some k))) (zs_of_obs ds)
  | L [I 4; L ds] => option_map (HCall (Flush None)) (zs_of_obs ds)
  | L [I 5; I m; L ds] => option_map (HCall (SetMax m)) (zs_of_obs ds)
  | L [I 6; I k; L ds] => option_map (HCall (HitsFor k)) (zs_of_obs ds)
  | L [I 7; L ds] => option_map (HCall Hits) (zs_of_obs ds)
  | L [I 8; L ds] => option_map (HCall Misses) (zs_of_obs ds)
  | L [I 9; L ds] => option_map (HCall Snapshot) (zs_of_obs ds)
  | L [I 10; L ds] => option_map (HCall ResetStats) (zs_of_obs ds)
  | L [I 11; I d] => Some (HAdv d)
  | _ => None
  end.

Section HRun.
  Context {St : Type}.
  Variable step : call -> St -> clk -> res (ret * St * clk).
  Variable show : St -> Z -> obs.
  Variable decode : obs -> option hop.

  Definition hstep (h : hop) (w : St * Z) : res (ret * (St * Z)) :=
    match h with
    | HAdv d => Ok (RNone, (fst w, snd w + d))
    | HCall c ds =>
        do x <- step c (fst w) (mkClk (snd w) ds);
        let '(r, s', k') := x in Ok (r, (s', now k'))
    | HPutAns key mk ds =>
        let (t, k1) := tick (mkClk (snd w) ds) in
        do a <- mk t;
        do x <- step (Put key a) (fst w) k1;
        let '(r, s', k') := x in Ok (r, (s', now k'))
    end.

  (* one observation per step; the first failing step ends the run with its error code *)
  Fixpoint hrun (ops : list obs) (w : St * Z) : list obs :=
    match ops with
    | [] => []
    | o :: r =>
        match decode o with
        | None => [E eBadCase]
        | Some h =>
            match hstep h w with
            | Ok (rt, w') => L [obs_of_ret rt; show (fst w') (snd w')] :: hrun r w'
            | Lib e => [E e]
            | Internal e => [E e]
            end
        end
    end.
End HRun.

(* case:  L [I 0; I interval; I t0; L ds0; L ops]     Cache(cleaning_interval) created at clock t0
          L [I 1; I max_size; I t0; L ops]            LRUCache(max_size)
   (a trailing element, if any, is harness-only data about the concurrent schedule) *)
Definition run_with (decode : obs -> option hop) (c : obs) : obs :=
  match c with
  | L (I 0 :: I interval :: I t0 :: L ds0 :: L ops :: _) =>
      match zs_of_obs ds0 with
      | None => E eBadCase
      | Some ds =>
          let (c0, k0) := cache_init interval (mkClk t0 ds) in
          L (obs_of_cache c0 (now k0) :: hrun cache_step obs_of_cache decode ops (c0, now k0))
      end
  | L (I 1 :: I max_size :: I t0 :: L ops :: _) =>
      match lru_init max_size with
      | Ok st => L (obs_of_lru st t0 :: hrun lru_step obs_of_lru decode ops (st, t0))
      | Lib e => E e
      | Internal e => E e
      end
  | _ => E eBadCase
  end.

Definition run : obs -> obs := run_with hop_of_obs.
