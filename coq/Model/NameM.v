(* Model of dns/name.py (and the parts of dns/wirebase.py it uses).
   Definitions only; proofs live in Proofs/Name*.v.
   Each function mirrors the control flow of the Python function named in its comment. *)
From DV Require Import Base.Prelude.
Open Scope Z_scope.

Definition label := list Z.
Definition name := list label.

(* exception codes: Lib = library hierarchy, Internal = Python's own *)
Definition eLabelTooLong := 1.   (* dns.name.LabelTooLong  (SyntaxError family) *)
Definition eNameTooLong := 2.    (* dns.name.NameTooLong   (FormError family) *)
Definition eEmptyLabel := 3.     (* dns.name.EmptyLabel    (SyntaxError family) *)
Definition eBadEscape := 4.      (* dns.name.BadEscape     (SyntaxError family) *)
Definition eBadPointer := 5.     (* dns.name.BadPointer    (FormError family) *)
Definition eBadLabelType := 6.   (* dns.name.BadLabelType  (FormError family) *)
Definition eFormError := 7.      (* dns.exception.FormError *)
Definition eNeedAbsolute := 8.   (* NeedAbsoluteNameOrOrigin *)
Definition eAbsConcat := 9.      (* AbsoluteConcatenation *)
Definition eNoParent := 10.      (* NoParent *)
Definition eNeedSubdomain := 11. (* NeedSubdomainOfOrigin *)
Definition eValueError := 12.    (* documented ValueError of split() *)
Definition iStructError := 101.
Definition iIndexError := 102.
Definition iFuel := 199.         (* model artefact: fuel exhausted; proved unreachable *)

(* ---------- _validate_labels / Name.__init__ ---------- *)

Fixpoint vl_loop (ls : name) (total : Z) (i : option nat) (j : nat) : res (Z * option nat) :=
  match ls with
  | [] => Ok (total, i)
  | l :: r =>
      let ll := zlen l in
      if ll >? 63 then Lib eLabelTooLong
      else vl_loop r (total + ll + 1)
             (match i with
              | None => if ll =? 0 then Some j else None
              | Some k => Some k
              end) (S j)
  end.

Definition validate_labels (ls : name) : res unit :=
  match vl_loop ls 0 None 0%nat with
  | Ok (total, i) =>
      if total >? 255 then Lib eNameTooLong
      else match i with
           | Some k => if Nat.eqb k (length ls - 1)%nat then Ok tt else Lib eEmptyLabel
           | None => Ok tt
           end
  | Lib e => Lib e
  | Internal e => Internal e
  end.

Definition mk_name (ls : name) : res name :=
  match validate_labels ls with
  | Ok _ => Ok ls
  | Lib e => Lib e
  | Internal e => Internal e
  end.

(* declarative validity, for theorems *)
Definition wire_length (n : name) : Z := fold_right (fun l acc => zlen l + 1 + acc) 0 n.

Fixpoint is_absolute (n : name) : bool :=
  match n with
  | [] => false
  | [l] => match l with [] => true | _ => false end
  | _ :: r => is_absolute r
  end.

Definition nlen (n : name) : Z := zlen n.

(* ---------- __hash__ ---------- *)
Definition hash_label (h : Z) (l : label) : Z := fold_left (fun h c => h + (h * 8) + c) (lower_l l) h.
Definition name_hash (n : name) : Z := fold_left hash_label n 0.

(* ---------- fullcompare ---------- *)
Definition rNONE := 0. Definition rSUPER := 1. Definition rSUB := 2.
Definition rEQUAL := 3. Definition rCOMMON := 4.

Fixpoint fc_loop (ra rb : list label) (ldiff nl : Z) : Z * Z * Z :=
  match ra, rb with
  | la :: ra', lb :: rb' =>
      match cmp_bytes (lower_l la) (lower_l lb) with
      | Lt => ((if nl >? 0 then rCOMMON else rNONE), -1, nl)
      | Gt => ((if nl >? 0 then rCOMMON else rNONE), 1, nl)
      | Eq => fc_loop ra' rb' ldiff (nl + 1)
      end
  | _, _ =>
      ((if ldiff <? 0 then rSUPER else if ldiff >? 0 then rSUB else rEQUAL), ldiff, nl)
  end.

Definition fullcompare (a b : name) : Z * Z * Z :=
  let sabs := is_absolute a in
  let oabs := is_absolute b in
  if negb (Bool.eqb sabs oabs) then
    if sabs then (rNONE, 1, 0) else (rNONE, -1, 0)
  else fc_loop (rev a) (rev b) (zlen a - zlen b) 0.

Definition order (a b : name) : Z := snd (fst (fullcompare a b)).
Definition reln (a b : name) : Z := fst (fst (fullcompare a b)).
Definition common (a b : name) : Z := snd (fullcompare a b).
Definition name_eqb (a b : name) : bool := order a b =? 0.

(* rich comparisons (name.py:582-616): each tests the sign of fullcompare(other)[1] *)
Definition name_ne (a b : name) : bool := negb (order a b =? 0).
Definition name_lt (a b : name) : bool := order a b <? 0.
Definition name_le (a b : name) : bool := order a b <=? 0.
Definition name_ge (a b : name) : bool := order a b >=? 0.
Definition name_gt (a b : name) : bool := order a b >? 0.

Definition is_subdomain (a b : name) : bool :=
  let r := reln a b in (r =? rSUB) || (r =? rEQUAL).
Definition is_superdomain (a b : name) : bool :=
  let r := reln a b in (r =? rSUPER) || (r =? rEQUAL).

Definition root : name := [[]].
Definition empty : name := [].

(* ---------- concatenate / relativize / derelativize / split / parent ---------- *)
Definition concatenate (a b : name) : res name :=
  if is_absolute a && (0 <? zlen b) then Lib eAbsConcat
  else mk_name (a ++ b).

(* self[:-k] for 0 <= k <= len; Python's self[:-0] is self[:0] = () *)
Definition drop_last {A} (k : nat) (l : list A) : list A := firstn (length l - k) l.
Definition take_last {A} (k : nat) (l : list A) : list A := skipn (length l - k) l.

Definition relativize (n o : name) : res name :=
  if is_subdomain n o then
    (* Name(self.labels[: len(self.labels) - len(origin.labels)]) (after fix 64e88ce; the
       earlier self[: -len(origin)] sliced to the empty tuple for the empty origin) *)
    mk_name (drop_last (length o) n)
  else Ok n.

Definition derelativize (n o : name) : res name :=
  if negb (is_absolute n) then concatenate n o else Ok n.

(* origin truthiness: `if origin:` uses __len__ *)
Definition choose_relativity (n : name) (o : option name) (rel : bool) : res name :=
  match o with
  | Some (x :: o') => if rel then relativize n (x :: o') else derelativize n (x :: o')
  | _ => Ok n
  end.

Definition split (n : name) (depth : Z) : res (name * name) :=
  let l := zlen n in
  if depth =? 0 then Ok (n, empty)
  else if depth =? l then Ok (empty, n)
  else if (depth <? 0) || (depth >? l) then Lib eValueError
  else
    do p <- mk_name (drop_last (Z.to_nat depth) n);
    do s <- mk_name (take_last (Z.to_nat depth) n);
    Ok (p, s).

Definition parent (n : name) : res name :=
  if name_eqb n root || name_eqb n empty then Lib eNoParent
  else mk_name (tl n).

(* ---------- text ---------- *)
(* the octets of _escaped: dquote ( ) . ; backslash @ $ *)
Definition escaped (c : Z) : bool :=
  (c =? 34) || (c =? 40) || (c =? 41) || (c =? 46) || (c =? 59) || (c =? 92) || (c =? 64) || (c =? 36).

Definition esc_octet (c : Z) : list Z :=
  if escaped c then [92; c]
  else if (c >? 32) && (c <? 127) then [c]
  else [92; 48 + c / 100; 48 + (c / 10) mod 10; 48 + c mod 10].

Definition escapify (l : label) : list Z := flat_map esc_octet l.

Fixpoint join_dot (ls : list (list Z)) : list Z :=
  match ls with
  | [] => []
  | [x] => x
  | x :: r => x ++ 46 :: join_dot r
  end.

(* Name.to_text() with the default style *)
Definition to_text (n : name) : list Z :=
  match n with
  | [] => [64]
  | [[]] => [46]
  | _ => join_dot (map escapify n)
  end.

Definition to_text_omit (n : name) : list Z :=
  match n with
  | [] => [64]
  | [[]] => [46]
  | _ => if is_absolute n then join_dot (map escapify (removelast n)) else join_dot (map escapify n)
  end.

Definition is_digit (c : Z) : bool := (48 <=? c) && (c <=? 57).

(* the loop of dns.name.from_text over bytes; labels and label are kept reversed *)
Fixpoint ft_loop (t : list Z) (labels : list label) (lab : list Z)
         (esc : bool) (ed : nat) (total : Z) : res (list label * list Z * bool) :=
  match t with
  | [] => Ok (labels, lab, esc)
  | c :: t' =>
      if esc then
        match ed with
        | O =>
            if is_digit c then ft_loop t' labels lab true 1%nat (c - 48)
            else ft_loop t' labels (c :: lab) false 0%nat total
        | S ed' =>
            if negb (is_digit c) then Lib eBadEscape
            else
              let total' := total * 10 + (c - 48) in
              match ed' with
              | S O =>  (* edigits becomes 3 *)
                  if total' >? 255 then Lib eBadEscape
                  else ft_loop t' labels (total' :: lab) false 0%nat total'
              | _ => ft_loop t' labels lab true (S (S ed')) total'
              end
        end
      else if c =? 46 then
        match lab with
        | [] => Lib eEmptyLabel
        | _ => ft_loop t' (rev lab :: labels) [] false ed total
        end
      else if c =? 92 then ft_loop t' labels lab true 0%nat 0
      else ft_loop t' labels (c :: lab) false ed total
  end.

Definition ends_with_root (ls : name) : bool :=
  match rev ls with
  | [] :: _ => true
  | _ => false
  end.

Definition from_text (text : list Z) (origin : option name) : res name :=
  let text := match text with [64] => [] | _ => text end in
  match text with
  | [46] => mk_name [[]]
  | _ =>
      do labels <-
         (match text with
          | [] => Ok []
          | _ =>
              match ft_loop text [] [] false 0%nat 0 with
              | Ok (labels, lab, esc) =>
                  if esc then Lib eBadEscape
                  else Ok (rev (rev lab :: labels))
              | Lib e => Lib e
              | Internal e => Internal e
              end
          end);
      let labels :=
        if negb (ends_with_root labels) then
          match origin with Some o => labels ++ o | None => labels end
        else labels in
      mk_name labels
  end.

(* ---------- wire: uncompressed ---------- *)
Definition wire_labels (canon : bool) (n : name) : list Z :=
  flat_map (fun l => zlen l :: (if canon then lower_l l else l)) n.

(* Name.to_wire(file=None, origin=..., canonicalize=...) *)
Definition to_wire (n : name) (origin : option name) (canon : bool) : res (list Z) :=
  if is_absolute n then Ok (wire_labels canon n)
  else match origin with
       | Some o => if is_absolute o then
                     (* `if len(out) > 255: raise NameTooLong` (fix 2nd commit for C01) *)
                     if wire_length n + wire_length o >? 255 then Lib eNameTooLong
                     else Ok (wire_labels canon n ++ wire_labels canon o)
                   else Lib eNeedAbsolute
       | None => Lib eNeedAbsolute
       end.

(* ---------- wire: compression ---------- *)
Definition ctable := list (name * Z).

Fixpoint tbl_get (t : ctable) (n : name) : option Z :=
  match t with
  | [] => None
  | (k, v) :: r => if name_eqb k n then Some v else tbl_get r n
  end.

Definition u16 (v : Z) : list Z := [v / 256; v mod 256].

(* the `for label in labels` loop of Name.to_wire with a file and a table;
   `file` is the message so far *)
Fixpoint tw_loop (labels : name) (canon : bool) (file : list Z) (t : ctable) : list Z * ctable :=
  match labels with
  | [] => (file, t)
  | l :: r =>
      match tbl_get t labels with
      | Some pos => (file ++ u16 (49152 + pos), t)
      | None =>
          let t' := if (1 <? zlen labels) && (zlen file <=? 16383)
                    then t ++ [(labels, zlen file)] else t in
          tw_loop r canon (file ++ zlen l :: (if canon then lower_l l else l)) t'
      end
  end.

Definition to_wire_compress (n : name) (origin : option name) (canon : bool)
           (file : list Z) (t : ctable) : res (list Z * ctable) :=
  if is_absolute n then Ok (tw_loop n canon file t)
  else match origin with
       | Some o => if is_absolute o then
                     (* the first iteration builds Name(labels[0:]) and so validates n ++ o *)
                     do nm <- mk_name (n ++ o); Ok (tw_loop nm canon file t)
                   else Lib eNeedAbsolute
       | None => Lib eNeedAbsolute
       end.

(* Name.to_wire(file, compress=None, origin, canonicalize): the file-writing branch without a
   table.  Every iteration still builds Name(labels[i:]), so n ++ origin is validated. *)
Definition to_wire_file (n : name) (origin : option name) (canon : bool) : res (list Z) :=
  if is_absolute n then Ok (wire_labels canon n)
  else match origin with
       | Some o => if is_absolute o then do nm <- mk_name (n ++ o); Ok (wire_labels canon nm)
                   else Lib eNeedAbsolute
       | None => Lib eNeedAbsolute
       end.

(* ---------- wire: decoding (dns.wirebase.Parser + from_wire_parser) ---------- *)
Record pst := { cur : nat; furthest : nat }.

Section Wire.
  Variable wire : list Z.
  Let endp := length wire.

  Definition get_bytes (p : pst) (n : nat) : res (list Z * pst) :=
    if Nat.ltb (endp - cur p) n then Lib eFormError
    else Ok (firstn n (skipn (cur p) wire),
             {| cur := cur p + n; furthest := Nat.max (furthest p) (cur p + n) |}).

  Definition get_u8 (p : pst) : res (Z * pst) :=
    match get_bytes p 1 with
    | Ok ([b], p') => Ok (b, p')
    | Ok _ => Lib eFormError
    | Lib e => Lib e
    | Internal e => Internal e
    end.

  (* while count != 0 loop; acc reversed *)
  Fixpoint fw_go (fuel : nat) (p : pst) (biggest : nat) (acc : list label) : res (list label * pst) :=
    match fuel with
    | O => Internal iFuel
    | S f =>
        match get_u8 p with
        | Lib e => Lib e
        | Internal e => Internal e
        | Ok (count, p1) =>
            if count =? 0 then Ok (rev ([] :: acc), p1)
            else if count <? 64 then
              match get_bytes p1 (Z.to_nat count) with
              | Lib e => Lib e
              | Internal e => Internal e
              | Ok (l, p2) => fw_go f p2 biggest (l :: acc)
              end
            else if 192 <=? count then
              match get_u8 p1 with
              | Lib e => Lib e
              | Internal e => Internal e
              | Ok (lo, p2) =>
                  let c := Z.to_nat ((count - 192) * 256 + lo) in
                  if Nat.leb biggest c then Lib eBadPointer
                  else if Nat.ltb endp c then Lib eFormError
                  else fw_go f {| cur := c; furthest := furthest p2 |} c acc
              end
            else Lib eBadLabelType
        end
    end.

  Definition fw_fuel (start : nat) : nat := S ((S start) * (S endp)).

  (* dns.name.from_wire(message, current) -> (name, consumed) *)
  Definition from_wire (start : nat) : res (name * nat) :=
    if Nat.ltb endp start then Lib eFormError   (* Parser.__init__ -> seek *)
    else
      match fw_go (fw_fuel start) {| cur := start; furthest := start |} start [] with
      | Ok (labels, p) =>
          do n <- mk_name labels; Ok (n, furthest p - start)%nat
      | Lib e => Lib e
      | Internal e => Internal e
      end.
  (* instrumented copy of fw_go: additionally returns the list of followed pointer targets
     (oldest first); Proofs/NameWire.v proves it computes the same result as fw_go *)
  Fixpoint fw_go_tr (fuel : nat) (p : pst) (biggest : nat) (acc : list label) (tr : list nat)
    : res (list label * pst * list nat) :=
    match fuel with
    | O => Internal iFuel
    | S f =>
        match get_u8 p with
        | Lib e => Lib e
        | Internal e => Internal e
        | Ok (count, p1) =>
            if count =? 0 then Ok (rev ([] :: acc), p1, rev tr)
            else if count <? 64 then
              match get_bytes p1 (Z.to_nat count) with
              | Lib e => Lib e
              | Internal e => Internal e
              | Ok (l, p2) => fw_go_tr f p2 biggest (l :: acc) tr
              end
            else if 192 <=? count then
              match get_u8 p1 with
              | Lib e => Lib e
              | Internal e => Internal e
              | Ok (lo, p2) =>
                  let c := Z.to_nat ((count - 192) * 256 + lo) in
                  if Nat.leb biggest c then Lib eBadPointer
                  else if Nat.ltb endp c then Lib eFormError
                  else fw_go_tr f {| cur := c; furthest := furthest p2 |} c acc (c :: tr)
              end
            else Lib eBadLabelType
        end
    end.

  Definition from_wire_tr (start : nat) : res (name * nat * list nat) :=
    if Nat.ltb endp start then Lib eFormError
    else
      match fw_go_tr (fw_fuel start) {| cur := start; furthest := start |} start [] [] with
      | Ok (labels, p, tr) =>
          do n <- mk_name labels; Ok (n, furthest p - start, tr)%nat
      | Lib e => Lib e
      | Internal e => Internal e
      end.
End Wire.

(* ---------- RFC 4471 successor / predecessor ---------- *)
Fixpoint pad_labels (fuel : nat) (needed : Z) (acc : list label) : list label * Z :=
  match fuel with
  | O => (acc, needed)
  | S f => if needed >? 64 then pad_labels f (needed - 64) (acc ++ [repeat 255 63]) else (acc, needed)
  end.

Definition pad_to_max_name (n : name) : res name :=
  let needed := 255 - wire_length n in
  let '(nl, needed') := pad_labels 8 needed [] in
  let nl := if needed' >=? 2 then nl ++ [repeat 255 (Z.to_nat (needed' - 1))] else nl in
  mk_name (rev nl ++ n).

Definition pad_to_max_label (l : label) (suffix : name) : label :=
  let length := zlen l in
  let remaining := 255 - wire_length suffix - length - 1 in
  if remaining <=? 0 then l
  else l ++ repeat 255 (Z.to_nat (Z.min (63 - length) remaining)).

Definition absolute_predecessor (n o : name) (prefix_ok : bool) : res name :=
  if name_eqb n o then pad_to_max_name n
  else
    match n with
    | [] => Internal iIndexError
    | lsl :: suffix =>
        if zlist_eqb lsl [0] then parent n
        else
          match rev lsl with
          | [] => Internal iIndexError
          | least :: rinit =>
              let new_first :=
                if least =? 0 then rev rinit
                else
                  let oct := if least =? 91 then 64 else least - 1 in
                  pad_to_max_label (rev (oct :: rinit)) suffix in
              do nm <- mk_name (new_first :: suffix);
              if prefix_ok then pad_to_max_name nm else Ok nm
          end
    end.

(* increment the last non-0xff octet of a label (given reversed); None if all 0xff *)
Fixpoint inc_rev (r : list Z) : option (list Z) :=
  match r with
  | [] => None
  | x :: r' => if x =? 255 then inc_rev r'
               else Some ((if x =? 64 then 91 else if x =? 90 then 123 else x + 1) :: r')
  end.

Fixpoint succ_loop (fuel : nat) (n o : name) : res name :=
  match fuel with
  | O => Internal iFuel
  | S f =>
      if name_eqb n o then Ok o
      else
        match n with
        | [] => Internal iIndexError
        | lsl :: suffix =>
            let try_extend :=
              if zlen lsl <? 63 then
                match mk_name ((lsl ++ [0]) :: suffix) with
                | Ok nm => Some (Ok nm)
                | Lib e => if e =? eNameTooLong then None else Some (Lib e)
                | Internal e => Some (Internal e)
                end
              else None in
            match try_extend with
            | Some r => r
            | None =>
                match inc_rev (rev lsl) with
                | Some r => mk_name (rev r :: suffix)
                | None => do p <- parent n; succ_loop f p o
                end
            end
        end
  end.

Definition absolute_successor (n o : name) (prefix_ok : bool) : res name :=
  let try_prefix :=
    if prefix_ok then
      match concatenate [[0]] n with
      | Ok nm => Some (Ok nm)
      | Lib e => if e =? eNameTooLong then None else Some (Lib e)
      | Internal e => Some (Internal e)
      end
    else None in
  match try_prefix with
  | Some r => r
  | None => succ_loop (S (length n)) n o
  end.

Definition handle_relativity (f : name -> name -> bool -> res name)
           (n o : name) (prefix_ok : bool) : res name :=
  if negb (is_absolute o) then Lib eNeedAbsolute
  else
    let relative := negb (is_absolute n) in
    do n1 <- (if relative then derelativize n o
              else if negb (is_subdomain n o) then Lib eNeedSubdomain else Ok n);
    do r <- f n1 o prefix_ok;
    if relative then relativize r o else Ok r.

Definition successor := handle_relativity absolute_successor.
Definition predecessor := handle_relativity absolute_predecessor.

(* ---------- dns.tokenizer.Tokenizer.get / get_name: the identifier path ---------- *)
(* A fresh tokenizer (not quoting, multiline 0, nothing ungotten) reading a token that starts
   with a non-delimiter: skip_whitespace, then the `while True` loop of get().  The branches of
   the loop that are only taken while the token is still empty and a delimiter/EOF is read
   (parentheses, quotes, comments, EOL/EOF tokens) are outside this model: iNotModelled. *)
Definition eSyntaxError := 20.     (* dns.exception.SyntaxError *)
Definition eUnexpectedEnd := 21.   (* dns.exception.UnexpectedEnd *)
Definition iNotModelled := 197.

Definition tok_delim (c : Z) : bool :=
  (c =? 32) || (c =? 9) || (c =? 10) || (c =? 59) || (c =? 40) || (c =? 41) || (c =? 34).

Fixpoint tok_skip_ws (i : list Z) : list Z :=
  match i with
  | c :: r => if (c =? 32) || (c =? 9) then tok_skip_ws r else i
  | [] => []
  end.

(* token kept reversed; returns (token.value, remaining input) *)
Fixpoint tok_scan (fuel : nat) (i : list Z) (tok : list Z) : res (list Z * list Z) :=
  match fuel with
  | O => Internal iFuel
  | S f =>
      match i with
      | [] => match tok with [] => Internal iNotModelled | _ => Ok (rev tok, []) end
      | c :: r =>
          if tok_delim c then
            match tok with [] => Internal iNotModelled | _ => Ok (rev tok, i) end   (* _unget_char(c); break *)
          else if c =? 92 then
            match r with
            | [] => Lib eUnexpectedEnd
            | c2 :: r2 => if c2 =? 10 then Lib eUnexpectedEnd else tok_scan f r2 (c2 :: 92 :: tok)
            end
          else tok_scan f r (c :: tok)
      end
  end.

Definition tok_get_identifier (text : list Z) : res (list Z * list Z) :=
  let i := tok_skip_ws text in tok_scan (S (length i)) i [].

(* Tokenizer.get_name(origin) = as_name(get(), origin): from_text then choose_relativity(origin, False) *)
Definition tok_get_name (text : list Z) (origin : option name) : res name :=
  do vr <- tok_get_identifier text;
  do n <- from_text (fst vr) origin;
  choose_relativity n origin false.

(* dns.wire.Parser.get_name(origin): from_wire_parser, then relativize when `if origin:` *)
Definition parser_get_name (wire : list Z) (start : nat) (origin : option name) : res (name * nat) :=
  do nc <- from_wire wire start;
  match origin with
  | Some (x :: o') => do r <- relativize (fst nc) (x :: o'); Ok (r, snd nc)
  | _ => Ok nc
  end.

(* ---------- harness interface ---------- *)
Definition obs_of_name (n : name) : obs := L (map B n).
Definition obs_of_res {A} (f : A -> obs) (r : res A) : obs :=
  match r with Ok a => f a | Lib e => E e | Internal e => E e end.

Fixpoint name_of_obs (l : list obs) : option name :=
  match l with
  | [] => Some []
  | B x :: r => match name_of_obs r with Some n => Some (x :: n) | None => None end
  | _ => None
  end.

Definition oname_of_obs (o : obs) : option (option name) :=
  match o with
  | N => Some None
  | L l => match name_of_obs l with Some n => Some (Some n) | None => None end
  | _ => None
  end.

Definition obs_of_table (t : ctable) : obs :=
  L (map (fun kv => L [obs_of_name (fst kv); I (snd kv)]) t).

(* write a list of names one after the other through one table *)
Fixpoint write_names (ns : list name) (origin : option name) (file : list Z) (t : ctable)
  : res (list Z * ctable) :=
  match ns with
  | [] => Ok (file, t)
  | n :: r => do ft <- to_wire_compress n origin false file t;
              write_names r origin (fst ft) (snd ft)
  end.

Fixpoint names_of_obs (l : list obs) : option (list name) :=
  match l with
  | [] => Some []
  | L x :: r => match name_of_obs x, names_of_obs r with
                | Some n, Some ns => Some (n :: ns)
                | _, _ => None
                end
  | _ => None
  end.

Definition eBadCase := 999.

Definition run (c : obs) : obs :=
  match c with
  | L [I 1; L ls] =>
      match name_of_obs ls with Some n => obs_of_res obs_of_name (mk_name n) | None => E eBadCase end
  | L [I 2; L a; L b] =>
      match name_of_obs a, name_of_obs b with
      | Some a, Some b => let '(r, o, nl) := fullcompare a b in
                          L [I r; I o; I nl; ob (is_subdomain a b); ob (is_superdomain a b)]
      | _, _ => E eBadCase end
  | L [I 3; L a] =>
      match name_of_obs a with Some a => I (name_hash a) | None => E eBadCase end
  | L [I 4; L a] =>
      match name_of_obs a with Some a => L [B (to_text a); B (to_text_omit a)] | None => E eBadCase end
  | L [I 5; B t; o] =>
      match oname_of_obs o with Some o => obs_of_res obs_of_name (from_text t o) | None => E eBadCase end
  | L [I 6; L a; o; I canon] =>
      match name_of_obs a, oname_of_obs o with
      | Some a, Some o => obs_of_res B (to_wire a o (canon =? 1))
      | _, _ => E eBadCase end
  | L [I 7; L ns; o; I pad] =>
      match names_of_obs ns, oname_of_obs o with
      | Some ns, Some o =>
          obs_of_res (fun ft => L [B (skipn (Z.to_nat pad) (fst ft)); obs_of_table (snd ft)])
                     (write_names ns o (repeat 0 (Z.to_nat pad)) [])
      | _, _ => E eBadCase end
  | L [I 8; B w; I off] =>
      obs_of_res (fun nc => L [obs_of_name (fst nc); I (Z.of_nat (snd nc))]) (from_wire w (Z.to_nat off))
  | L [I 9; L a; L b] =>
      match name_of_obs a, name_of_obs b with
      | Some a, Some b => obs_of_res obs_of_name (concatenate a b) | _, _ => E eBadCase end
  | L [I 10; L a; L b] =>
      match name_of_obs a, name_of_obs b with
      | Some a, Some b => obs_of_res obs_of_name (relativize a b) | _, _ => E eBadCase end
  | L [I 11; L a; L b] =>
      match name_of_obs a, name_of_obs b with
      | Some a, Some b => obs_of_res obs_of_name (derelativize a b) | _, _ => E eBadCase end
  | L [I 12; L a; I d] =>
      match name_of_obs a with
      | Some a => obs_of_res (fun ps => L [obs_of_name (fst ps); obs_of_name (snd ps)]) (split a d)
      | None => E eBadCase end
  | L [I 13; L a] =>
      match name_of_obs a with Some a => obs_of_res obs_of_name (parent a) | None => E eBadCase end
  | L [I 14; L a; L o; I p] =>
      match name_of_obs a, name_of_obs o with
      | Some a, Some o => obs_of_res obs_of_name (successor a o (p =? 1)) | _, _ => E eBadCase end
  | L [I 15; L a; L o; I p] =>
      match name_of_obs a, name_of_obs o with
      | Some a, Some o => obs_of_res obs_of_name (predecessor a o (p =? 1)) | _, _ => E eBadCase end
  | L [I 16; L a; o; I rel] =>
      match name_of_obs a, oname_of_obs o with
      | Some a, Some o => obs_of_res obs_of_name (choose_relativity a o (rel =? 1))
      | _, _ => E eBadCase end
  | L [I 25; L a; o; I canon] =>
      match name_of_obs a, oname_of_obs o with
      | Some a, Some o => obs_of_res B (to_wire_file a o (canon =? 1))
      | _, _ => E eBadCase end
  | L [I 24; B w; I off; o] =>
      match oname_of_obs o with
      | Some o => obs_of_res (fun nc => L [obs_of_name (fst nc); I (Z.of_nat (snd nc))])
                             (parser_get_name w (Z.to_nat off) o)
      | None => E eBadCase end
  | L [I 19; L a; L b] =>
      match name_of_obs a, name_of_obs b with
      | Some a, Some b => L [ob (name_eqb a b); ob (name_ne a b); ob (name_lt a b); ob (name_le a b);
                             ob (name_ge a b); ob (name_gt a b); ob (name_hash a =? name_hash b)]
      | _, _ => E eBadCase end
  | L [I 18; B t; o] =>
      match oname_of_obs o with
      | Some o => L [obs_of_res (fun vr => L [B (fst vr); B (snd vr)]) (tok_get_identifier t);
                     obs_of_res obs_of_name (tok_get_name t o)]
      | None => E eBadCase end
  | L [I 17; B w; I off] =>
      obs_of_res (fun r => L [obs_of_name (fst (fst r)); I (Z.of_nat (snd (fst r)));
                              L (map (fun t => I (Z.of_nat t)) (snd r))])
                 (from_wire_tr w (Z.to_nat off))
  | _ => E eBadCase
  end.
