(* Model of the RDATA wire codecs: dns/rdata.py (from_wire, from_wire_parser, Rdata.to_wire,
   GenericRdata, get_rdata_class), dns/wirebase.py (Parser.get_bytes / get_counted_bytes /
   get_remaining / get_uintN / get_struct / restrict_to), dns/wire.py (get_name) and the
   table-like per-type codecs of dns/rdtypes/**: a field language with ONE generic writer
   (`encode`, image of the `_to_wire` idioms) and ONE generic reader (`decode`, image of the
   `from_wire_parser` idioms).  The per-type field lists are NOT in this file: they are
   regenerated from the Python sources on every run by tools/translate_rdtypes.py (writer side
   and reader side separately) and checked by `entry_ok`.
   Definitions only; proofs are in Proofs/Schema*.v. *)
From DV Require Import Base.Prelude Model.NameM.
Open Scope Z_scope.

Definition eValueError := 13.   (* constructor-side validation (ValueError & co) seen by a caller *)

(* ------------------------------------------------------------------ field language *)

(* self-delimiting fields (may appear anywhere, and inside a repeated row) *)
Inductive sfld :=
| FU (w : nat) (maxv : Z)          (* struct "!B/H/I", get_uintN: w octets big endian; the
                                      constructor accepts 0..maxv *)
| FFixed (n : nat)                 (* get_bytes(n) / file.write of a fixed-size conversion *)
| FCounted (w : nat) (lo hi : Z)   (* get_counted_bytes(w); constructor accepts lo..hi octets *)
| FName (rel : bool).              (* get_name(origin) [rel] / get_name() ; name.to_wire(file,..,origin,..) *)

(* fields that run to the end of the RDATA: only legal in last position *)
Inductive fld :=
| FS (s : sfld)
| FRemaining (lo : Z)              (* get_remaining(); at least lo octets *)
| FRemN (n : nat)                  (* get_remaining() handed to a conversion that needs exactly n octets *)
| FOptC8 (hi : Z)                  (* ISDN: optional trailing counted string, b"" <-> absent *)
| FRepeat (min1 asc : bool) (row : list sfld).
                                   (* while parser.remaining() > 0: <row> ; min1: at least one row;
                                      asc: first row element strictly ascending (Bitmap windows) *)

Inductive sval := VI (z : Z) | VB (b : list Z) | VN (n : name).
Inductive val := VS (v : sval) | VL (rows : list (list sval)).

(* record-level constructor checks that are pure integer / octet tests *)
Inductive check :=
| CkNone
| CkDS (tbl : list (Z * Z))        (* dsbase: digest length by digest type; type 0 reserved *)
| CkCAA                            (* tag.isalnum() *)
| CkZONEMD                         (* scheme, hash algorithm != 0; SHA384/SHA512 digest sizes *)
| CkGPOS.                          (* three decimal strings; |latitude| <= 90, |longitude| <= 180 *)

(* ------------------------------------------------------------------ integers *)

Fixpoint be_encode (w : nat) (v : Z) : list Z :=
  match w with
  | O => []
  | S w' => be_encode w' (v / 256) ++ [v mod 256]
  end.

Definition be_decode (bs : list Z) : Z := fold_left (fun a b => a * 256 + b) bs 0.

Fixpoint pow256 (w : nat) : Z := match w with O => 1 | S w' => 256 * pow256 w' end.

(* ------------------------------------------------------------------ parser (dns/wirebase.py) *)

Section Parser.
  Variable wire : list Z.     (* the whole message *)
  Variable origin : option name.

  (* Parser.get_bytes with self.end = endp, self.current = cur *)
  Definition get_bytes (endp cur n : nat) : res (list Z * nat) :=
    if Nat.ltb (endp - cur) n then Lib eFormError
    else Ok (firstn n (skipn cur wire), (cur + n)%nat).

  (* Parser.get_name (dns/wire.py): dns.name.from_wire_parser under restore_furthest, then
     relativize when an origin is given (`if origin:` is len(origin) > 0) *)
  Definition get_name (rel : bool) (endp cur : nat) : res (name * nat) :=
    match NameM.from_wire (firstn endp wire) cur with
    | Ok (n, consumed) =>
        match (if rel then origin else None) with
        | Some (x :: o') => do r <- relativize n (x :: o'); Ok (r, (cur + consumed)%nat)
        | _ => Ok (n, (cur + consumed)%nat)
        end
    | Lib e => Lib e
    | Internal e => Internal e
    end.

  Definition dec_s (f : sfld) (endp cur : nat) : res (sval * nat) :=
    match f with
    | FU w _ => do bc <- get_bytes endp cur w; Ok (VI (be_decode (fst bc)), snd bc)
    | FFixed n => do bc <- get_bytes endp cur n; Ok (VB (fst bc), snd bc)
    | FCounted w _ _ =>
        do lc <- get_bytes endp cur w;
        do bc <- get_bytes endp (snd lc) (Z.to_nat (be_decode (fst lc)));
        Ok (VB (fst bc), snd bc)
    | FName rel => do nc <- get_name rel endp cur; Ok (VN (fst nc), snd nc)
    end.

  Fixpoint dec_row (fs : list sfld) (endp cur : nat) : res (list sval * nat) :=
    match fs with
    | [] => Ok ([], cur)
    | f :: r =>
        do vc <- dec_s f endp cur;
        do rc <- dec_row r endp (snd vc);
        Ok (fst vc :: fst rc, snd rc)
    end.

  (* while parser.remaining() > 0: read one row.  Fuel = octets left (+1): every row of a
     well-formed schema consumes at least one octet (proved: Proofs/SchemaCodec.v) *)
  Fixpoint dec_rows (fuel : nat) (row : list sfld) (endp cur : nat) : res (list (list sval) * nat) :=
    if Nat.leb endp cur then Ok ([], cur)
    else
      match fuel with
      | O => Internal iFuel
      | S fuel' =>
          do rc <- dec_row row endp cur;
          do rest <- dec_rows fuel' row endp (snd rc);
          Ok (fst rc :: fst rest, snd rest)
      end.

  Definition dec_f (f : fld) (endp cur : nat) : res (val * nat) :=
    match f with
    | FS s => do vc <- dec_s s endp cur; Ok (VS (fst vc), snd vc)
    | FRemaining _ | FRemN _ =>
        do bc <- get_bytes endp cur (endp - cur); Ok (VS (VB (fst bc)), snd bc)
    | FOptC8 _ =>
        if Nat.ltb cur endp then
          do vc <- dec_s (FCounted 1 0 255) endp cur; Ok (VS (fst vc), snd vc)
        else Ok (VS (VB []), cur)
    | FRepeat _ _ row =>
        do rc <- dec_rows (S (endp - cur)) row endp cur; Ok (VL (fst rc), snd rc)
    end.

  Fixpoint dec_fields (fs : list fld) (endp cur : nat) : res (list val * nat) :=
    match fs with
    | [] => Ok ([], cur)
    | f :: r =>
        do vc <- dec_f f endp cur;
        do rc <- dec_fields r endp (snd vc);
        Ok (fst vc :: fst rc, snd rc)
    end.
End Parser.

(* ------------------------------------------------------------------ constructor validation *)

Definition len_in (b : list Z) (lo hi : Z) : bool := (lo <=? zlen b) && (zlen b <=? hi).

Definition valid_s (f : sfld) (v : sval) : bool :=
  match f, v with
  | FU _ maxv, VI z => (0 <=? z) && (z <=? maxv)
  | FFixed n, VB b => Nat.eqb (length b) n
  | FCounted _ lo hi, VB b => len_in b lo hi
  | FName _, VN n => match validate_labels n with Ok _ => true | _ => false end
  | _, _ => false
  end.

Fixpoint valid_row (fs : list sfld) (vs : list sval) : bool :=
  match fs, vs with
  | [], [] => true
  | f :: fr, v :: vr => valid_s f v && valid_row fr vr
  | _, _ => false
  end.

(* Bitmap.__init__: window numbers strictly ascending (last_window starts at -1) *)
Fixpoint ascending (last : Z) (rows : list (list sval)) : bool :=
  match rows with
  | [] => true
  | (VI w :: _) :: r => (last <? w) && ascending w r
  | _ => false
  end.

Definition valid_f (f : fld) (v : val) : bool :=
  match f, v with
  | FS s, VS x => valid_s s x
  | FRemaining lo, VS (VB b) => lo <=? zlen b
  | FRemN n, VS (VB b) => Nat.eqb (length b) n
  | FOptC8 hi, VS (VB b) => zlen b <=? hi
  | FRepeat min1 asc row, VL rows =>
      forallb (valid_row row) rows
      && (negb min1 || negb (Nat.eqb (length rows) 0))
      && (negb asc || ascending (-1) rows)
  | _, _ => false
  end.

Fixpoint valid_fields (fs : list fld) (vs : list val) : bool :=
  match fs, vs with
  | [], [] => true
  | f :: fr, v :: vr => valid_f f v && valid_fields fr vr
  | _, _ => false
  end.

Fixpoint assoc (k : Z) (t : list (Z * Z)) : option Z :=
  match t with
  | [] => None
  | (k', v) :: r => if k =? k' then Some v else assoc k r
  end.

Definition is_alnum (c : Z) : bool :=
  ((48 <=? c) && (c <=? 57)) || ((65 <=? c) && (c <=? 90)) || ((97 <=? c) && (c <=? 122)).

(* GPOS: ASCII decimal strings.  _validate_float_string, then float(latitude) in [-90, 90] and
   float(longitude) in [-180, 180].  float() rounds correctly; 90.0 and 180.0 have even mantissas,
   so float(s) > L  iff  s > L + ulp(L)/2 exactly, with ulp(90) = 2^-46 and ulp(180) = 2^-45. *)
Definition is_dig (c : Z) : bool := (48 <=? c) && (c <=? 57).
Definition all_digits (s : list Z) : bool := negb (Nat.eqb (length s) 0) && forallb is_dig s.
Definition dec_value (s : list Z) : Z := fold_left (fun a c => a * 10 + (c - 48)) s 0.

Fixpoint split_dot (s : list Z) : list Z * option (list Z) :=
  match s with
  | [] => ([], None)
  | c :: r => if c =? 46 then ([], Some r)
              else let '(a, b) := split_dot r in (c :: a, b)
  end.

(* -> Some (negative, integer digits, fraction digits) when the string passes _validate_float_string *)
Definition parse_float (s : list Z) : option (bool * list Z * list Z) :=
  match s with
  | [] => None
  | c :: r =>
      let neg := c =? 45 in
      let body := if (c =? 45) || (c =? 43) then r else s in
      if all_digits body then Some (neg, body, [])
      else
        match split_dot body with
        | (lft, Some rgt) =>
            (* exactly one dot: the right part must not contain another one *)
            match split_dot rgt with
            | (_, Some _) => None
            | (_, None) =>
                if Nat.eqb (length lft) 0 && Nat.eqb (length rgt) 0 then None
                else if negb (Nat.eqb (length lft) 0) && negb (all_digits lft) then None
                else if negb (Nat.eqb (length rgt) 0) && negb (all_digits rgt) then None
                else Some (neg, lft, rgt)
            end
        | (_, None) => None
        end
  end.

(* |value| > L + 2^-k  (value = int.frac) *)
Definition mag_exceeds (i f : list Z) (L k : Z) : bool :=
  let n := dec_value (i ++ f) in
  let p := 10 ^ (zlen f) in
  n * 2 ^ k >? (L * 2 ^ k + 1) * p.

Definition gpos_coord_ok (s : list Z) (L k : Z) : bool :=
  match parse_float s with
  | Some (_, i, f) => negb (mag_exceeds i f L k)
  | None => false
  end.

Definition gpos_ok (lat lon alt : list Z) : bool :=
  gpos_coord_ok lat 90 47 && gpos_coord_ok lon 180 46
  && match parse_float alt with Some _ => true | None => false end.


Definition check_ok (ck : check) (vs : list val) : bool :=
  match ck with
  | CkNone => true
  | CkDS tbl =>
      match vs with
      | [_; _; VS (VI dt); VS (VB digest)] =>
          match assoc dt tbl with
          | Some n => zlen digest =? n
          | None => negb (dt =? 0)
          end
      | _ => false
      end
  | CkCAA =>
      match vs with
      | [_; VS (VB tag); _] => negb (Nat.eqb (length tag) 0) && forallb is_alnum tag
      | _ => false
      end
  | CkZONEMD =>
      match vs with
      | [_; VS (VI scheme); VS (VI alg); VS (VB digest)] =>
          negb (scheme =? 0) && negb (alg =? 0)
          && (negb (alg =? 1) || (zlen digest =? 48))
          && (negb (alg =? 2) || (zlen digest =? 64))
      | _ => false
      end
  | CkGPOS =>
      match vs with
      | [VS (VB lat); VS (VB lon); VS (VB alt)] => gpos_ok lat lon alt
      | _ => false
      end
  end.

Definition validate (fs : list fld) (ck : check) (vs : list val) : bool :=
  valid_fields fs vs && check_ok ck vs.

(* ------------------------------------------------------------------ writer *)

Section Writer.
  Variable origin : option name.

  Definition enc_s (f : sfld) (v : sval) : res (list Z) :=
    match f, v with
    | FU w _, VI z =>
        if (0 <=? z) && (z <? pow256 w) then Ok (be_encode w z) else Internal iStructError
    | FFixed _, VB b => Ok b
    | FCounted w _ _, VB b =>
        if zlen b <? pow256 w then Ok (be_encode w (zlen b) ++ b) else Internal iStructError
    | FName _, VN n => NameM.to_wire n origin false
    | _, _ => Internal eBadCase
    end.

  Fixpoint enc_row (fs : list sfld) (vs : list sval) : res (list Z) :=
    match fs, vs with
    | [], [] => Ok []
    | f :: fr, v :: vr => do a <- enc_s f v; do b <- enc_row fr vr; Ok (a ++ b)
    | _, _ => Internal eBadCase
    end.

  Fixpoint enc_rows (row : list sfld) (rows : list (list sval)) : res (list Z) :=
    match rows with
    | [] => Ok []
    | r :: rr => do a <- enc_row row r; do b <- enc_rows row rr; Ok (a ++ b)
    end.

  Definition enc_f (f : fld) (v : val) : res (list Z) :=
    match f, v with
    | FS s, VS x => enc_s s x
    | FRemaining _, VS (VB b) => Ok b
    | FRemN _, VS (VB b) => Ok b
    | FOptC8 _, VS (VB b) =>
        match b with
        | [] => Ok []
        | _ => enc_s (FCounted 1 0 255) (VB b)
        end
    | FRepeat _ _ row, VL rows => enc_rows row rows
    | _, _ => Internal eBadCase
    end.

  Fixpoint enc_fields (fs : list fld) (vs : list val) : res (list Z) :=
    match fs, vs with
    | [], [] => Ok []
    | f :: fr, v :: vr => do a <- enc_f f v; do b <- enc_fields fr vr; Ok (a ++ b)
    | _, _ => Internal eBadCase
    end.
End Writer.

(* ------------------------------------------------------------------ dns.rdata.from_wire / to_wire *)

(* dns.rdata.from_wire(rdclass, rdtype, wire, current, rdlen, origin) for a type whose reader
   is `fs` and whose constructor checks are `ck`:
     Parser(wire, current)         -> FormError when current > len(wire)
     restrict_to(rdlen)            -> FormError when rdlen > remaining
     cls.from_wire_parser          -> reads (dec_fields), then the constructor (validate);
                                      every non-FormError exception is wrapped into FormError
     leaving restrict_to           -> FormError unless current == end *)
Definition decode_rdata (origin : option name) (fs : list fld) (ck : check)
           (wire : list Z) (cur rdlen : nat) : res (list val) :=
  if Nat.ltb (length wire) cur then Lib eFormError
  else if Nat.ltb (length wire - cur) rdlen then Lib eFormError
  else
    let endp := (cur + rdlen)%nat in
    do vc <- dec_fields wire origin fs endp cur;
    if negb (validate fs ck (fst vc)) then Lib eFormError
    else if Nat.eqb (snd vc) endp then Ok (fst vc) else Lib eFormError.

(* constructor followed by Rdata.to_wire(origin=origin) *)
Definition encode_rdata (origin : option name) (fs : list fld) (ck : check) (vs : list val)
  : res (list Z) :=
  if validate fs ck vs then enc_fields origin fs vs else Lib eValueError.

(* ------------------------------------------------------------------ generated table *)

Inductive hand := H_none.   (* hand-modelled irregular codecs: see SchemaHand (later milestones) *)

Inductive codec :=
| CSchema (w r : list (fld * Z)) (ck : check)   (* writer side, reader side; Z = constructor slot *)
| CHand (h : hand).

Record entry := mk_ent { e_class : Z; e_type : Z; e_codec : codec }.
Definition mk_entry (c t : Z) (w r : list (fld * Z)) (ck : check) := mk_ent c t (CSchema w r ck).
Definition mk_hand (c t : Z) (h : hand) := mk_ent c t (CHand h).

(* GenericRdata: RFC 3597 unknown types *)
Definition generic_codec : codec := CSchema [(FRemaining 0, 0)] [(FRemaining 0, 0)] CkNone.

Fixpoint find_entry (c t : Z) (tbl : list entry) : option entry :=
  match tbl with
  | [] => None
  | e :: r => if (e_class e =? c) && (e_type e =? t) then Some e else find_entry c t r
  end.

(* get_rdata_class: exact (class, type) module, else the class-independent (ANY) module,
   else GenericRdata *)
Definition lookup (tbl : list entry) (c t : Z) : codec :=
  match find_entry c t tbl with
  | Some e => e_codec e
  | None => match find_entry 255 t tbl with
            | Some e => e_codec e
            | None => generic_codec
            end
  end.

(* ---- decidable equality of fields, the writer/reader agreement test ---- *)

Definition sfld_eqb (a b : sfld) : bool :=
  match a, b with
  | FU w m, FU w' m' => Nat.eqb w w' && (m =? m')
  | FFixed n, FFixed n' => Nat.eqb n n'
  | FCounted w lo hi, FCounted w' lo' hi' => Nat.eqb w w' && (lo =? lo') && (hi =? hi')
  | FName _, FName _ => true     (* the rel flag is compared separately (origin_ok) *)
  | _, _ => false
  end.

Fixpoint row_eqb (a b : list sfld) : bool :=
  match a, b with
  | [], [] => true
  | x :: a', y :: b' => sfld_eqb x y && row_eqb a' b'
  | _, _ => false
  end.

Definition fld_eqb (a b : fld) : bool :=
  match a, b with
  | FS x, FS y => sfld_eqb x y
  | FRemaining lo, FRemaining lo' => lo =? lo'
  | FRemN n, FRemN n' => Nat.eqb n n'
  | FOptC8 hi, FOptC8 hi' => hi =? hi'
  | FRepeat m a r, FRepeat m' a' r' => Bool.eqb m m' && Bool.eqb a a' && row_eqb r r'
  | _, _ => false
  end.

(* the reader's `get_remaining()` + exact-length conversion in last position reads the same
   octets as the writer's fixed-size field (exact consumption closes the gap) *)
Fixpoint norm_last (fs : list (fld * Z)) : list (fld * Z) :=
  match fs with
  | [] => []
  | [(FRemN n, s)] => [(FS (FFixed n), s)]
  | x :: r => x :: norm_last r
  end.

Fixpoint sides_eqb (a b : list (fld * Z)) : bool :=
  match a, b with
  | [], [] => true
  | (x, s) :: a', (y, t) :: b' => fld_eqb x y && (s =? t) && sides_eqb a' b'
  | _, _ => false
  end.

(* well-formed schema *)
Definition sfld_wf (f : sfld) : bool :=
  match f with
  | FU w maxv => Nat.ltb 0 w && (0 <=? maxv) && (maxv <? pow256 w)
  | FFixed n => Nat.ltb 0 n
  | FCounted w lo hi => Nat.ltb 0 w && (0 <=? lo) && (hi <? pow256 w)
  | FName _ => true
  end.

Definition row_wf (asc : bool) (row : list sfld) : bool :=
  forallb sfld_wf row
  && match row with
     | [] => false
     | FU _ _ :: _ => true
     | _ => negb asc
     end.

Fixpoint schema_wf (fs : list fld) : bool :=
  match fs with
  | [] => true
  | [f] =>
      match f with
      | FS s => sfld_wf s
      | FRemaining lo => 0 <=? lo
      | FRemN n => true
      | FOptC8 hi => (0 <=? hi) && (hi <=? 255)
      | FRepeat _ asc row => row_wf asc row
      end
  | FS s :: r => sfld_wf s && schema_wf r
  | _ :: _ => false
  end.

Definition check_wf (ck : check) (fs : list fld) : bool :=
  match ck, fs with
  | CkNone, _ => true
  | CkDS _, [FS (FU _ _); FS (FU _ _); FS (FU _ _); FRemaining _] => true
  | CkCAA, [FS (FU _ _); FS (FCounted _ _ _); FRemaining _] => true
  | CkZONEMD, [FS (FU _ _); FS (FU _ _); FS (FU _ _); FRemaining _] => true
  | CkGPOS, [FS (FCounted _ _ _); FS (FCounted _ _ _); FS (FCounted _ _ _)] => true
  | _, _ => false
  end.

Definition entry_ok (e : entry) : bool :=
  match e_codec e with
  | CSchema w r ck =>
      sides_eqb w (norm_last r) && schema_wf (map fst w) && schema_wf (map fst r)
      && check_wf ck (map fst w)
  | CHand _ => true
  end.

(* writer and reader agree on which names are origin-relative *)
Definition sfld_rel_eqb (a b : sfld) : bool :=
  match a, b with
  | FName r, FName r' => Bool.eqb r r'
  | _, _ => true
  end.
Definition fld_rel_eqb (a b : fld) : bool :=
  match a, b with
  | FS x, FS y => sfld_rel_eqb x y
  | FRepeat _ _ r, FRepeat _ _ r' =>
      (fix go (a b : list sfld) := match a, b with
                                   | x :: a', y :: b' => sfld_rel_eqb x y && go a' b'
                                   | _, _ => true end) r r'
  | _, _ => true
  end.
Fixpoint rel_eqb (a b : list (fld * Z)) : bool :=
  match a, b with
  | (x, _) :: a', (y, _) :: b' => fld_rel_eqb x y && rel_eqb a' b'
  | _, _ => true
  end.
Definition entry_origin_ok (e : entry) : bool :=
  match e_codec e with
  | CSchema w r _ => rel_eqb w r
  | CHand _ => true
  end.

(* ------------------------------------------------------------------ harness interface *)

Definition obs_of_sval (v : sval) : obs :=
  match v with VI z => I z | VB b => B b | VN n => obs_of_name n end.
Definition obs_of_val (v : val) : obs :=
  match v with
  | VS x => obs_of_sval x
  | VL rows => L (map (fun r => L (map obs_of_sval r)) rows)
  end.

Definition sval_of_obs (f : sfld) (o : obs) : option sval :=
  match f, o with
  | FU _ _, I z => Some (VI z)
  | FFixed _, B b => Some (VB b)
  | FCounted _ _ _, B b => Some (VB b)
  | FName _, L l => match name_of_obs l with Some n => Some (VN n) | None => None end
  | _, _ => None
  end.

Fixpoint row_of_obs (fs : list sfld) (os : list obs) : option (list sval) :=
  match fs, os with
  | [], [] => Some []
  | f :: fr, o :: or =>
      match sval_of_obs f o, row_of_obs fr or with
      | Some v, Some vs => Some (v :: vs)
      | _, _ => None
      end
  | _, _ => None
  end.

Fixpoint rows_of_obs (row : list sfld) (os : list obs) : option (list (list sval)) :=
  match os with
  | [] => Some []
  | L r :: rest =>
      match row_of_obs row r, rows_of_obs row rest with
      | Some v, Some vs => Some (v :: vs)
      | _, _ => None
      end
  | _ => None
  end.

Definition val_of_obs (f : fld) (o : obs) : option val :=
  match f, o with
  | FS s, _ => match sval_of_obs s o with Some v => Some (VS v) | None => None end
  | FRemaining _, B b | FRemN _, B b | FOptC8 _, B b => Some (VS (VB b))
  | FRepeat _ _ row, L l => match rows_of_obs row l with Some r => Some (VL r) | None => None end
  | _, _ => None
  end.

Fixpoint vals_of_obs (fs : list fld) (os : list obs) : option (list val) :=
  match fs, os with
  | [], [] => Some []
  | f :: fr, o :: or =>
      match val_of_obs f o, vals_of_obs fr or with
      | Some v, Some vs => Some (v :: vs)
      | _, _ => None
      end
  | _, _ => None
  end.

Definition eHand := 998.   (* codec not (yet) modelled: the harness keeps such cases out *)

(* op 1: construct the record from field values and encode it:
         L [I 1; I class; I type; L values; origin]  ->  B wire | E code
   op 2: decode octets, then re-encode the decoded record:
         L [I 2; I class; I type; B wire; I current; I rdlen; origin]
           ->  L [L values; B wire'] | E code *)
Definition run_tbl (tbl : list entry) (c : obs) : obs :=
  match c with
  | L [I 1; I cl; I ty; L vals; o] =>
      match oname_of_obs o, lookup tbl cl ty with
      | Some o, CSchema w _ ck =>
          let fs := map fst w in
          match vals_of_obs fs vals with
          | Some vs => obs_of_res B (encode_rdata o fs ck vs)
          | None => E eBadCase
          end
      | Some _, CHand _ => E eHand
      | None, _ => E eBadCase
      end
  | L [I 2; I cl; I ty; B wire; I cur; I rdlen; o] =>
      match oname_of_obs o, lookup tbl cl ty with
      | Some o, CSchema w r ck =>
          match decode_rdata o (map fst r) ck wire (Z.to_nat cur) (Z.to_nat rdlen) with
          | Ok vs => L [L (map obs_of_val vs);
                        obs_of_res B (encode_rdata o (map fst w) ck vs)]
          | Lib e => E e
          | Internal e => E e
          end
      | Some _, CHand _ => E eHand
      | None, _ => E eBadCase
      end
  | _ => E eBadCase
  end.

(* with the empty table every type is an unknown type (GenericRdata) *)
Definition run : obs -> obs := run_tbl [].
