(* Model of dns/tokenizer.py (Token.unescape, Token.unescape_to_bytes, Tokenizer.get and its
   helper methods) and of the text helpers of dns/rdata.py (_escapify, _wordbreak, _hexify,
   _base64ify, _truncate_bitmap, GenericRdata.to_styled_text / from_text).
   Definitions only; proofs live in Proofs/Tok*.v.

   Text (Python str) is a list of code points (Z); octet strings are lists of Z in 0..255.
   Each function mirrors the control flow of the Python function named in its comment.

   Domain remarks (stated once, repeated in meta/C05.design.md):
   - str.isdecimal() / int() are modelled for ASCII; for code points >= 128 the model says
     "not a decimal digit / not white space" (Python also accepts the other Unicode Nd digits
     and Unicode white space; the harness does not generate those).
   - the one-character unget buffer of the tokenizer is modelled by pushing the character back
     on the input list; every _unget_char() in the code directly follows a _get_char(), so the
     buffer can never be full (UngetBufferFull for characters is unreachable). *)
From DV Require Import Base.Prelude.
Open Scope Z_scope.

(* exception codes: Lib = dns.exception hierarchy, Internal = Python's own *)
Definition eSyntax := 20.          (* dns.exception.SyntaxError *)
Definition eUnexpectedEnd := 21.   (* dns.exception.UnexpectedEnd (a SyntaxError) *)
Definition eUngetFull := 22.       (* dns.tokenizer.UngetBufferFull *)
Definition eBadTTL := 23.          (* dns.ttl.BadTTL (a SyntaxError) *)
Definition iUnicodeEncode := 103.  (* UnicodeEncodeError: surrogate code point in .encode() *)
Definition iBinascii := 104.       (* binascii.Error (a ValueError) *)
Definition tFuel := 198.           (* model artefact: fuel exhausted; proved unreachable *)

(* token types *)
Definition tEOF := 0. Definition tEOL := 1. Definition tWS := 2. Definition tIDENT := 3.
Definition tQUOTED := 4. Definition tCOMMENT := 5. Definition tDELIM := 6.

Record token := mkTok { ttype : Z; tvalue : list Z; tesc : bool; tcomment : option (list Z) }.

Definition is_nil {A} (l : list A) : bool := match l with [] => true | _ => false end.

(* ---------- characters ---------- *)
Definition is_decimal (c : Z) : bool := (48 <=? c) && (c <=? 57).

(* c in self.delimiters: _DELIMITERS = space tab newline ; ( ) dquote, _QUOTING_DELIMITERS = dquote *)
Definition is_delim (quoting : bool) (c : Z) : bool :=
  if quoting then c =? 34
  else (c =? 32) || (c =? 9) || (c =? 10) || (c =? 59) || (c =? 40) || (c =? 41) || (c =? 34).

(* str.encode() of one code point (UTF-8; surrogates raise UnicodeEncodeError) *)
Definition utf8_cp (c : Z) : res (list Z) :=
  if c <? 128 then Ok [c]
  else if c <? 2048 then Ok [192 + c / 64; 128 + c mod 64]
  else if (55296 <=? c) && (c <=? 57343) then Internal iUnicodeEncode
  else if c <? 65536 then Ok [224 + c / 4096; 128 + (c / 64) mod 64; 128 + c mod 64]
  else Ok [240 + c / 262144; 128 + (c / 4096) mod 64; 128 + (c / 64) mod 64; 128 + c mod 64].

Fixpoint utf8_encode (s : list Z) : res (list Z) :=
  match s with
  | [] => Ok []
  | c :: r => do a <- utf8_cp c; do b <- utf8_encode r; Ok (a ++ b)
  end.

(* bytes.decode() (UTF-8, strict): the well-formed byte sequences of the Unicode standard,
   table 3-7 (no overlong forms, no surrogates, nothing above U+10FFFF) *)
Definition cont (b : Z) : bool := (128 <=? b) && (b <=? 191).

Fixpoint utf8_decode (s : list Z) : option (list Z) :=
  match s with
  | [] => Some []
  | b0 :: r =>
      if (0 <=? b0) && (b0 <? 128) then
        match utf8_decode r with Some u => Some (b0 :: u) | None => None end
      else if (194 <=? b0) && (b0 <=? 223) then
        match r with
        | b1 :: r1 =>
            if cont b1 then
              match utf8_decode r1 with
              | Some u => Some (((b0 - 192) * 64 + (b1 - 128)) :: u)
              | None => None
              end
            else None
        | _ => None
        end
      else if (224 <=? b0) && (b0 <=? 239) then
        match r with
        | b1 :: b2 :: r2 =>
            if cont b1 && cont b2
               && (if b0 =? 224 then 160 <=? b1 else true)
               && (if b0 =? 237 then b1 <=? 159 else true) then
              match utf8_decode r2 with
              | Some u => Some (((b0 - 224) * 4096 + (b1 - 128) * 64 + (b2 - 128)) :: u)
              | None => None
              end
            else None
        | _ => None
        end
      else if (240 <=? b0) && (b0 <=? 244) then
        match r with
        | b1 :: b2 :: b3 :: r3 =>
            if cont b1 && cont b2 && cont b3
               && (if b0 =? 240 then 144 <=? b1 else true)
               && (if b0 =? 244 then b1 <=? 143 else true) then
              match utf8_decode r3 with
              | Some u => Some (((b0 - 240) * 262144 + (b1 - 128) * 4096 + (b2 - 128) * 64 + (b3 - 128)) :: u)
              | None => None
              end
            else None
        | _ => None
        end
      else None
  end.

(* ---------- Token.unescape_to_bytes (tokenizer.py:135) ---------- *)
Fixpoint ub_loop (v : list Z) (acc : list Z) : res (list Z) :=
  match v with
  | [] => Ok (rev acc)
  | c :: r =>
      if c =? 92 then
        match r with
        | [] => Lib eUnexpectedEnd
        | c1 :: r1 =>
            if is_decimal c1 then
              match r1 with
              | [] => Lib eUnexpectedEnd
              | c2 :: r2 =>
                  match r2 with
                  | [] => Lib eUnexpectedEnd
                  | c3 :: r3 =>
                      if negb (is_decimal c2 && is_decimal c3) then Lib eSyntax
                      else
                        let cp := (c1 - 48) * 100 + (c2 - 48) * 10 + (c3 - 48) in
                        if cp >? 255 then Lib eSyntax
                        else ub_loop r3 (cp :: acc)
                  end
              end
            else
              match utf8_cp c1 with
              | Ok b => ub_loop r1 (rev b ++ acc)
              | Lib e => Lib e
              | Internal e => Internal e
              end
        end
      else
        match utf8_cp c with
        | Ok b => ub_loop r (rev b ++ acc)
        | Lib e => Lib e
        | Internal e => Internal e
        end
  end.

Definition unescape_to_bytes (t : token) : res token :=
  do b <- ub_loop (tvalue t) []; Ok (mkTok (ttype t) b false None).

(* ---------- Token.unescape (tokenizer.py:103): \DDD becomes the code point DDD ---------- *)
Fixpoint ue_loop (v : list Z) (acc : list Z) : res (list Z) :=
  match v with
  | [] => Ok (rev acc)
  | c :: r =>
      if c =? 92 then
        match r with
        | [] => Lib eUnexpectedEnd
        | c1 :: r1 =>
            if is_decimal c1 then
              match r1 with
              | [] => Lib eUnexpectedEnd
              | c2 :: r2 =>
                  match r2 with
                  | [] => Lib eUnexpectedEnd
                  | c3 :: r3 =>
                      if negb (is_decimal c2 && is_decimal c3) then Lib eSyntax
                      else
                        let cp := (c1 - 48) * 100 + (c2 - 48) * 10 + (c3 - 48) in
                        if cp >? 255 then Lib eSyntax
                        else ue_loop r3 (cp :: acc)
                  end
              end
            else ue_loop r1 (c1 :: acc)
        end
      else ue_loop r (c :: acc)
  end.

Definition unescape (t : token) : res token :=
  if negb (tesc t) then Ok t
  else do s <- ue_loop (tvalue t) []; Ok (mkTok (ttype t) s false None).

(* ---------- Tokenizer ---------- *)
Record tstate := mkSt { inp : list Z; multiline : nat; quoting : bool; ungot : option token }.

Definition init (text : list Z) : tstate := mkSt text 0%nat false None.

Definition ml_on (ml : nat) : bool := match ml with O => false | S _ => true end.

(* skip_whitespace: returns (number skipped, remaining input) *)
Fixpoint skip_ws (ml : nat) (i : list Z) : nat * list Z :=
  match i with
  | [] => (0%nat, [])
  | c :: r =>
      if (c =? 32) || (c =? 9) then let '(n, r') := skip_ws ml r in (S n, r')
      else if (c =? 10) && ml_on ml then let '(n, r') := skip_ws ml r in (S n, r')
      else (0%nat, i)
  end.

(* the `while 1` loop of the ';' branch: comment text and the input from the terminator on *)
Fixpoint read_comment (i : list Z) (acc : list Z) : list Z * list Z :=
  match i with
  | [] => (rev acc, [])
  | c :: r => if c =? 10 then (rev acc, i) else read_comment r (c :: acc)
  end.

(* the code after the main loop of get(); tok is kept reversed *)
Definition finish (tok : list Z) (tt : Z) (he : bool) (ml : nat) : res token :=
  if is_nil tok && negb (tt =? tQUOTED) then
    match ml with
    | O => Ok (mkTok tEOF [] he None)
    | S _ => Lib eSyntax
    end
  else Ok (mkTok tt (rev tok) he None).

Definition gl_res := (token * (list Z * nat * bool))%type.

(* the `while True` loop of Tokenizer.get (tokenizer.py:375) *)
Fixpoint get_loop (fuel : nat) (wc : bool) (i : list Z) (ml : nat) (q : bool)
         (tok : list Z) (tt : Z) (he : bool) : res gl_res :=
  match fuel with
  | O => Internal tFuel
  | S f =>
      match i with
      | [] =>
          if q then Lib eUnexpectedEnd
          else if is_nil tok && negb (tt =? tQUOTED) then
            (* token = c (= ""), ttype = DELIMITER, break *)
            do t <- finish [] tDELIM he ml; Ok (t, ([], ml, q))
          else
            do t <- finish tok tt he ml; Ok (t, ([], ml, q))
      | c :: r =>
          if is_delim q c then
            if is_nil tok && negb (tt =? tQUOTED) then
              if c =? 40 then
                get_loop f wc (snd (skip_ws (S ml) r)) (S ml) q tok tt he
              else if c =? 41 then
                match ml with
                | O => Lib eSyntax
                | S ml' => get_loop f wc (snd (skip_ws ml' r)) ml' q tok tt he
                end
              else if c =? 34 then
                if negb q then get_loop f wc r ml true tok tQUOTED he
                else get_loop f wc (snd (skip_ws ml r)) ml false tok tt he
              else if c =? 10 then Ok (mkTok tEOL [10] false None, (r, ml, q))
              else if c =? 59 then
                let '(cm, rest) := read_comment r [] in
                if wc then Ok (mkTok tCOMMENT cm false None, (rest, ml, q))
                else
                  match rest with
                  | [] =>
                      match ml with
                      | O => Ok (mkTok tEOF [] false (Some cm), ([], ml, q))
                      | S _ => Lib eSyntax
                      end
                  | _ :: rest' =>
                      match ml with
                      | S _ => get_loop f wc (snd (skip_ws ml rest')) ml q [] tt he
                      | O => Ok (mkTok tEOL [10] false (Some cm), (rest', ml, q))
                      end
                  end
              else
                (* a delimiter returned as a token (space/tab; not reachable through get) *)
                do t <- finish [c] tDELIM he ml; Ok (t, (r, ml, q))
            else
              (* _unget_char(c); break *)
              do t <- finish tok tt he ml; Ok (t, (i, ml, q))
          else if q && (c =? 10) then Lib eSyntax
          else if c =? 92 then
            match r with
            | [] => Lib eUnexpectedEnd
            | c2 :: r2 =>
                if (c2 =? 10) && negb q then Lib eUnexpectedEnd
                else get_loop f wc r2 ml q (c2 :: 92 :: tok) tt true
            end
          else get_loop f wc r ml q (c :: tok) tt he
      end
  end.

Definition get_fuel (i : list Z) : nat := S (length i).

(* Tokenizer.get(want_leading, want_comment) *)
Definition get_fresh (st : tstate) (wl wc : bool) : res (token * tstate) :=
  let '(skipped, i1) := skip_ws (multiline st) (inp st) in
  if wl && negb (Nat.eqb skipped 0) then
    Ok (mkTok tWS [32] false None, mkSt i1 (multiline st) (quoting st) None)
  else
    match get_loop (get_fuel i1) wc i1 (multiline st) (quoting st) [] tIDENT false with
    | Ok (t, (i2, ml, q)) => Ok (t, mkSt i2 ml q None)
    | Lib e => Lib e
    | Internal e => Internal e
    end.

Definition get (st : tstate) (wl wc : bool) : res (token * tstate) :=
  match ungot st with
  | Some ut =>
      let st' := mkSt (inp st) (multiline st) (quoting st) None in
      if ttype ut =? tWS then (if wl then Ok (ut, st') else get_fresh st' wl wc)
      else if ttype ut =? tCOMMENT then (if wc then Ok (ut, st') else get_fresh st' wl wc)
      else Ok (ut, st')
  | None => get_fresh st wl wc
  end.

Definition get0 (st : tstate) := get st false false.

Definition unget (st : tstate) (t : token) : res tstate :=
  match ungot st with
  | Some _ => Lib eUngetFull
  | None => Ok (mkSt (inp st) (multiline st) (quoting st) (Some t))
  end.

Definition is_eol_or_eof (t : token) : bool := (ttype t =? tEOL) || (ttype t =? tEOF).
Definition is_identifier (t : token) : bool := ttype t =? tIDENT.
Definition is_quoted (t : token) : bool := ttype t =? tQUOTED.

(* ---------- int(text, base) for ASCII text ---------- *)
(* white space accepted by int(): TAB..CR and SPACE (the separators 0x1c..0x1f are str.isspace()
   but are rejected by int()) *)
Definition is_space (c : Z) : bool :=
  ((9 <=? c) && (c <=? 13)) || (c =? 32).

Fixpoint lstrip (s : list Z) : list Z :=
  match s with
  | c :: r => if is_space c then lstrip r else s
  | [] => []
  end.
Definition strip (s : list Z) : list Z := rev (lstrip (rev (lstrip s))).

Definition digit_val (c : Z) : option Z :=
  if (48 <=? c) && (c <=? 57) then Some (c - 48)
  else if (97 <=? c) && (c <=? 122) then Some (c - 87)
  else if (65 <=? c) && (c <=? 90) then Some (c - 55)
  else None.

(* digits with single underscores between them; prev = was the previous char a digit *)
Fixpoint int_digits (base : Z) (s : list Z) (acc : Z) (prev : bool) : option Z :=
  match s with
  | [] => if prev then Some acc else None
  | c :: r =>
      if c =? 95 then (if prev then int_digits base r acc false else None)
      else match digit_val c with
           | Some d => if d <? base then int_digits base r (acc * base + d) true else None
           | None => None
           end
  end.

Definition py_int (base : Z) (s : list Z) : option Z :=
  let s := strip s in
  let '(neg, s) := match s with
                   | c :: r => if c =? 43 then (false, r) else if c =? 45 then (true, r) else (false, s)
                   | [] => (false, s)
                   end in
  (* optional base prefix: 0o / 0O for base 8 (an underscore may follow the prefix) *)
  let '(s, after_prefix) :=
    match s with
    | z :: p :: r =>
        if (z =? 48) && (base =? 8) && ((p =? 111) || (p =? 79)) then (r, true) else (s, false)
    | _ => (s, false)
    end in
  let s := match s with
           | c :: r => if (c =? 95) && after_prefix then r else s
           | [] => s
           end in
  match s with
  | [] => None
  | c :: _ =>
      if c =? 95 then None
      else match int_digits base s 0 false with
           | Some v => Some (if neg then - v else v)
           | None => None
           end
  end.

(* Tokenizer.as_int *)
Definition as_int (t : token) (base : Z) : res Z :=
  if negb (is_identifier t) then Lib eSyntax
  else match py_int base (tvalue t) with
       | Some v => if v <? 0 then Lib eSyntax else Ok v
       | None => Lib eSyntax
       end.

Definition as_uint (maxv : Z) (t : token) (base : Z) : res Z :=
  do v <- as_int t base;
  if (v <? 0) || (v >? maxv) then Lib eSyntax else Ok v.

Definition max8 := 255. Definition max16 := 65535.
Definition max32 := 4294967295. Definition max48 := 281474976710655.

(* Tokenizer.as_string / as_identifier; max_length = 0 means None (`if max_length and ...`) *)
Definition as_string (t : token) (max_length : Z) : res (list Z) :=
  if negb (is_identifier t || is_quoted t) then Lib eSyntax
  else if negb (max_length =? 0) && (zlen (tvalue t) >? max_length) then Lib eSyntax
  else Ok (tvalue t).

Definition as_identifier (t : token) : res (list Z) :=
  if negb (is_identifier t) then Lib eSyntax else Ok (tvalue t).

Definition get_unescaped (st : tstate) : res (token * tstate) :=
  do ts <- get0 st; do t <- unescape (fst ts); Ok (t, snd ts).

Definition get_int (st : tstate) (base : Z) : res (Z * tstate) :=
  do ts <- get_unescaped st; do v <- as_int (fst ts) base; Ok (v, snd ts).
Definition get_uint (maxv : Z) (st : tstate) (base : Z) : res (Z * tstate) :=
  do ts <- get_unescaped st; do v <- as_uint maxv (fst ts) base; Ok (v, snd ts).
Definition get_uint8 st := get_uint max8 st 10.
Definition get_uint16 st := get_uint max16 st 10.
Definition get_uint32 st := get_uint max32 st 10.
Definition get_uint48 st := get_uint max48 st 10.
Definition get_string (st : tstate) (max_length : Z) : res (list Z * tstate) :=
  do ts <- get_unescaped st; do v <- as_string (fst ts) max_length; Ok (v, snd ts).
(* Tokenizer.get_string_as_bytes(max_length): octet-valued character-string (fix ae0ac04) *)
Definition get_string_as_bytes (st : tstate) (max_length : Z) : res (list Z * tstate) :=
  do ts <- get0 st;
  do t <- unescape_to_bytes (fst ts);
  if negb (is_identifier t || is_quoted t) then Lib eSyntax
  else if negb (max_length =? 0) && (zlen (tvalue t) >? max_length) then Lib eSyntax
  else Ok (tvalue t, snd ts).
Definition get_identifier (st : tstate) : res (list Z * tstate) :=
  do ts <- get_unescaped st; do v <- as_identifier (fst ts); Ok (v, snd ts).

(* Tokenizer.get_remaining(max_tokens); max_tokens = 0 means None.  One get() per iteration;
   every iteration that continues has consumed input, fuel = S (length input) + 1 suffices *)
Fixpoint get_remaining_loop (fuel : nat) (st : tstate) (maxt : Z) (acc : list token)
  : res (list token * tstate) :=
  match fuel with
  | O => Internal tFuel
  | S f =>
      do ts <- get0 st;
      let '(t, st1) := ts in
      if is_eol_or_eof t then
        do st2 <- unget st1 t; Ok (rev acc, st2)
      else
        let acc' := t :: acc in
        if negb (maxt =? 0) && (zlen acc' =? maxt) then Ok (rev acc', st1)
        else get_remaining_loop f st1 maxt acc'
  end.

Definition rem_fuel (st : tstate) : nat := S (S (length (inp st))).

Definition get_remaining (st : tstate) (maxt : Z) : res (list token * tstate) :=
  get_remaining_loop (rem_fuel st) st maxt [].

(* Tokenizer.concatenate_remaining_identifiers(allow_empty) *)
Fixpoint cri_loop (fuel : nat) (st : tstate) (acc : list Z) : res (list Z * tstate) :=
  match fuel with
  | O => Internal tFuel
  | S f =>
      do ts <- get_unescaped st;
      let '(t, st1) := ts in
      if is_eol_or_eof t then
        do st2 <- unget st1 t; Ok (acc, st2)
      else if negb (is_identifier t) then Lib eSyntax
      else cri_loop f st1 (acc ++ tvalue t)
  end.

Definition concatenate_remaining_identifiers (st : tstate) (allow_empty : bool)
  : res (list Z * tstate) :=
  do r <- cri_loop (rem_fuel st) st [];
  if negb (allow_empty || negb (is_nil (fst r))) then Lib eSyntax else Ok r.

(* Tokenizer.get_eol_as_token *)
Definition get_eol_as_token (st : tstate) : res (token * tstate) :=
  do ts <- get0 st;
  if negb (is_eol_or_eof (fst ts)) then Lib eSyntax else Ok ts.

(* ---------- dns.ttl.from_text ---------- *)
Definition MAX_TTL := 4294967295.

Definition lower_c (c : Z) : Z := if (65 <=? c) && (c <=? 90) then c + 32 else c.

Fixpoint ttl_loop (s : list Z) (total current : Z) (need_digit : bool) : res Z :=
  match s with
  | [] => if negb (current =? 0) then Lib eBadTTL else Ok total
  | c :: r =>
      if is_decimal c then ttl_loop r total (current * 10 + (c - 48)) false
      else if need_digit then Lib eBadTTL
      else
        let c := lower_c c in
        if c =? 119 then ttl_loop r (total + current * 604800) 0 true
        else if c =? 100 then ttl_loop r (total + current * 86400) 0 true
        else if c =? 104 then ttl_loop r (total + current * 3600) 0 true
        else if c =? 109 then ttl_loop r (total + current * 60) 0 true
        else if c =? 115 then ttl_loop r (total + current) 0 true
        else Lib eBadTTL
  end.

Fixpoint dec_value (s : list Z) (acc : Z) : Z :=
  match s with
  | [] => acc
  | c :: r => dec_value r (acc * 10 + (c - 48))
  end.

Definition ttl_from_text (s : list Z) : res Z :=
  do total <-
     (if negb (is_nil s) && forallb is_decimal s then Ok (dec_value s 0)
      else if is_nil s then Lib eBadTTL
      else ttl_loop s 0 0 true);
  if (total <? 0) || (total >? MAX_TTL) then Lib eBadTTL else Ok total.

(* Tokenizer.get_ttl *)
Definition get_ttl (st : tstate) : res (Z * tstate) :=
  do ts <- get_unescaped st;
  if negb (is_identifier (fst ts)) then Lib eSyntax
  else do v <- ttl_from_text (tvalue (fst ts)); Ok (v, snd ts).

(* ---------- printing integers: f"{n}" and f"{n:o}" for n >= 0 ---------- *)
Fixpoint digits_fuel (fuel : nat) (base n : Z) (acc : list Z) : list Z :=
  match fuel with
  | O => acc
  | S f => if n <? base then (48 + n) :: acc
           else digits_fuel f base (n / base) ((48 + n mod base) :: acc)
  end.

Definition print_base (base n : Z) : list Z :=
  digits_fuel (S (Z.to_nat (Z.log2 n))) base n [].
Definition dec (n : Z) : list Z := print_base 10 n.

(* ---------- dns.rdata._escapify (rdata.py:186) ---------- *)
Definition q_escaped (c : Z) : bool := (c =? 34) || (c =? 92).

Definition esc_octet (c : Z) : list Z :=
  if q_escaped c then [92; c]
  else if (c >=? 32) && (c <? 127) then [c]
  else [92; 48 + c / 100; 48 + (c / 10) mod 10; 48 + c mod 10].

Definition escapify (s : list Z) : list Z := flat_map esc_octet s.

(* "\"" + _escapify(s) + "\"" *)
Definition quote (s : list Z) : list Z := 34 :: escapify s ++ [34].

(* dns.rdata._escapify_unicode (rdata.py:205), on code points *)
Definition esc_cp (c : Z) : list Z :=
  if q_escaped c then [92; c]
  else if c >=? 32 then [c]
  else [92; 48 + c / 100; 48 + (c / 10) mod 10; 48 + c mod 10].

Definition escapify_unicode (u : list Z) : list Z := flat_map esc_cp u.

(* one TXT-like string under a style (txtbase.py to_styled_text): with txt_is_utf8 the octets are
   decoded as UTF-8 and printed as characters when that succeeds, else escaped octet-wise *)
Definition txt_body (utf8 : bool) (s : list Z) : list Z :=
  if utf8 then
    match utf8_decode s with
    | Some u => escapify_unicode u
    | None => escapify s
    end
  else escapify s.

(* ---------- binascii.hexlify / unhexlify ---------- *)
Definition hexdigit (v : Z) : Z := if v <? 10 then 48 + v else 87 + v.
Definition hexlify (d : list Z) : list Z := flat_map (fun b => [hexdigit (b / 16); hexdigit (b mod 16)]) d.

Definition hexval (c : Z) : option Z :=
  match digit_val c with
  | Some v => if v <? 16 then Some v else None
  | None => None
  end.

Fixpoint unhexlify (s : list Z) : res (list Z) :=
  match s with
  | [] => Ok []
  | [_] => Internal iBinascii
  | a :: b :: r =>
      match hexval a, hexval b with
      | Some x, Some y => do t <- unhexlify r; Ok ((x * 16 + y) :: t)
      | _, _ => Internal iBinascii
      end
  end.

(* ---------- base64.b64encode / b64decode (binascii.a2b_base64, non-strict mode) ---------- *)
Definition b64char (v : Z) : Z :=
  if v <? 26 then 65 + v else if v <? 52 then 71 + v else if v <? 62 then v - 4
  else if v =? 62 then 43 else 47.

Definition b64val (c : Z) : option Z :=
  if (65 <=? c) && (c <=? 90) then Some (c - 65)
  else if (97 <=? c) && (c <=? 122) then Some (c - 71)
  else if (48 <=? c) && (c <=? 57) then Some (c + 4)
  else if c =? 43 then Some 62
  else if c =? 47 then Some 63
  else None.

Fixpoint b64encode (d : list Z) : list Z :=
  match d with
  | [] => []
  | [a] => [b64char (a / 4); b64char ((a mod 4) * 16); 61; 61]
  | [a; b] => [b64char (a / 4); b64char ((a mod 4) * 16 + b / 16); b64char ((b mod 16) * 4); 61]
  | a :: b :: c :: r =>
      b64char (a / 4) :: b64char ((a mod 4) * 16 + b / 16)
      :: b64char ((b mod 16) * 4 + c / 64) :: b64char (c mod 64) :: b64encode r
  end.

(* state of the C loop: quad_pos, leftchar, pads *)
Fixpoint b64dec_loop (s : list Z) (qp : nat) (left : Z) (pads : nat) (acc : list Z) : res (list Z) :=
  match s with
  | [] => match qp with O => Ok (rev acc) | _ => Internal iBinascii end
  | c :: r =>
      if c =? 61 then
        if Nat.leb 2 qp then
          if Nat.leb 4 (qp + S pads) then Ok (rev acc)
          else b64dec_loop r qp left (S pads) acc
        else b64dec_loop r qp left pads acc
      else
        match b64val c with
        | None => b64dec_loop r qp left pads acc
        | Some v =>
            match qp with
            | 0%nat => b64dec_loop r 1%nat v 0%nat acc
            | 1%nat => b64dec_loop r 2%nat (v mod 16) 0%nat ((left * 4 + v / 16) :: acc)
            | 2%nat => b64dec_loop r 3%nat (v mod 4) 0%nat ((left * 16 + v / 4) :: acc)
            | _ => b64dec_loop r 0%nat 0 0%nat ((left * 64 + v) :: acc)
            end
        end
  end.

Definition b64decode (s : list Z) : res (list Z) := b64dec_loop s 0%nat 0 0%nat [].

(* ---------- dns.rdata._wordbreak ---------- *)
Fixpoint chunks_fuel (fuel : nat) (n : nat) (d : list Z) : list (list Z) :=
  match fuel with
  | O => []
  | S f => match d with
           | [] => []
           | _ => firstn n d :: chunks_fuel f n (skipn n d)
           end
  end.

Fixpoint join_sep (sep : list Z) (l : list (list Z)) : list Z :=
  match l with
  | [] => []
  | [x] => x
  | x :: r => x ++ sep ++ join_sep sep r
  end.

(* chunksize <= 0 is `not chunksize` (0 / None); negative sizes are outside the model *)
Definition wordbreak (d : list Z) (chunksize : Z) (sep : list Z) : list Z :=
  if chunksize <=? 0 then d
  else join_sep sep (chunks_fuel (length d) (Z.to_nat chunksize) d).

Definition styled_hexify (d : list Z) (chunk : Z) (sep : list Z) : list Z :=
  wordbreak (hexlify d) chunk sep.
Definition styled_base64ify (d : list Z) (chunk : Z) (sep : list Z) : list Z :=
  wordbreak (b64encode d) chunk sep.

(* ---------- dns.rdata._truncate_bitmap ---------- *)
Fixpoint strip_trailing_zeros_rev (r : list Z) : list Z :=
  match r with
  | c :: r' => if c =? 0 then strip_trailing_zeros_rev r' else r
  | [] => []
  end.
Definition truncate_bitmap (w : list Z) : list Z :=
  match strip_trailing_zeros_rev (rev w) with
  | [] => firstn 1 w
  | r => rev r
  end.

(* ---------- GenericRdata text form (RFC 3597) ---------- *)
(* GenericRdata.to_styled_text:  r"\# " + len + " " + hexify(data) *)
Definition generic_to_text (d : list Z) (chunk : Z) (sep : list Z) : list Z :=
  [92; 35; 32] ++ dec (zlen d) ++ [32] ++ styled_hexify d chunk sep.

(* GenericRdata.from_text *)
Definition generic_from_text (st : tstate) : res (list Z * tstate) :=
  do ts <- get0 st;
  let '(t, st1) := ts in
  if negb (is_identifier t) || negb (zlist_eqb (tvalue t) [92; 35]) then Lib eSyntax
  else
    do ls <- get_int st1 10;
    let '(len, st2) := ls in
    do hs <- concatenate_remaining_identifiers st2 true;
    let '(hex, st3) := hs in
    (* hex.encode(): UTF-8 *)
    do hexb <- utf8_encode hex;
    do data <- unhexlify hexb;
    if negb (zlen data =? len) then Lib eSyntax else Ok (data, st3).

(* dns.rdata.from_text for a type without a specific class: ExceptionWrapper(SyntaxError)
   turns every non-DNSException into SyntaxError; then get_eol_as_token *)
(* ExceptionWrapper(SyntaxError).__exit__: every exception that is not an instance of
   dns.exception.SyntaxError is replaced by SyntaxError.  The SyntaxError family among the codes
   used by the models: SyntaxError, UnexpectedEnd, BadTTL, and dns.name LabelTooLong (1),
   EmptyLabel (3), BadEscape (4); FormError, NameTooLong (2), UngetBufferFull, ... are wrapped. *)
Definition in_syntax_family (e : Z) : bool :=
  (e =? eSyntax) || (e =? eUnexpectedEnd) || (e =? eBadTTL) || (e =? 1) || (e =? 3) || (e =? 4).

Definition wrap_syntax {A} (r : res A) : res A :=
  match r with
  | Internal _ => Lib eSyntax
  | Lib e => if in_syntax_family e then Lib e else Lib eSyntax
  | Ok a => Ok a
  end.

Definition rdata_from_text_generic (text : list Z) : res (list Z) :=
  wrap_syntax
    (do ds <- generic_from_text (init text);
     do _ <- get_eol_as_token (snd ds);
     Ok (fst ds)).

(* ---------- TXT-like strings (txtbase.py): to_styled_text / from_text ---------- *)
Fixpoint txt_to_text (strings : list (list Z)) : list Z :=
  match strings with
  | [] => []
  | [s] => quote s
  | s :: r => quote s ++ 32 :: txt_to_text r
  end.

(* the same with RdataStyle.txt_is_utf8 *)
Definition quote_body (b : list Z) : list Z := 34 :: b ++ [34].
Fixpoint txt_join (bodies : list (list Z)) : list Z :=
  match bodies with
  | [] => []
  | [b] => quote_body b
  | b :: r => quote_body b ++ 32 :: txt_join r
  end.
Definition txt_to_text_style (utf8 : bool) (strings : list (list Z)) : list Z :=
  txt_join (map (txt_body utf8) strings).

Fixpoint txt_strings (toks : list token) : res (list (list Z)) :=
  match toks with
  | [] => Ok []
  | t :: r =>
      do t' <- unescape_to_bytes t;
      if negb (is_quoted t' || is_identifier t') then Lib eSyntax
      else if zlen (tvalue t') >? 255 then Lib eSyntax
      else do rest <- txt_strings r; Ok (tvalue t' :: rest)
  end.

Definition txt_from_text (st : tstate) : res (list (list Z) * tstate) :=
  do ts <- get_remaining st 0;
  do strings <- txt_strings (fst ts);
  if is_nil strings then Lib eUnexpectedEnd else Ok (strings, snd ts).

(* TXT wire form (txtbase.py _to_wire / from_wire_parser), needed for the generic syntax of a
   known type: from_wire_parser wraps every non-DNS exception in FormError *)
Definition eFormError := 24.       (* dns.exception.FormError *)

Definition txt_to_wire (strings : list (list Z)) : list Z :=
  flat_map (fun s => zlen s :: s) strings.

Fixpoint txt_wire_loop (fuel : nat) (w : list Z) (acc : list (list Z)) : res (list (list Z)) :=
  match fuel with
  | O => Internal tFuel
  | S f =>
      match w with
      | [] => Ok (rev acc)
      | n :: r =>
          if Nat.ltb (length r) (Z.to_nat n) then Lib eFormError
          else txt_wire_loop f (skipn (Z.to_nat n) r) (firstn (Z.to_nat n) r :: acc)
      end
  end.

Definition txt_from_wire (w : list Z) : res (list (list Z)) :=
  do strings <- txt_wire_loop (S (length w)) w [];
  if is_nil strings then Lib eFormError else Ok strings.

(* dns.rdata.from_text (rdata.py:851) for a type with its own class: peek at the first token;
   `\#` selects the generic syntax (wire extracted, decoded by from_wire, re-encoded and compared);
   every non-DNS exception becomes SyntaxError (ExceptionWrapper); then get_eol_as_token *)
Definition rdata_from_text {V} (ft : tstate -> res (V * tstate))
           (fw : list Z -> res V) (tw : V -> res (list Z)) (text : list Z) : res V :=
  wrap_syntax
    (do ts <- get0 (init text);
     let '(t, st1) := ts in
     do st <- unget st1 t;
     do vs <-
        (if is_identifier t && zlist_eqb (tvalue t) [92; 35] then
           do gs <- generic_from_text st;
           let '(data, st2) := gs in
           do v <- fw data;
           do rw <- tw v;
           if negb (zlist_eqb rw data) then Lib eSyntax else Ok (v, st2)
         else ft st);
     do _ <- get_eol_as_token (snd vs);
     Ok (fst vs)).

Definition rdata_from_text_txt (text : list Z) : res (list (list Z)) :=
  rdata_from_text txt_from_text txt_from_wire (fun ss => Ok (txt_to_wire ss)) text.

(* character-string read with get_string and then str.encode() (HINFO, X25, ISDN, CAA, NAPTR, GPOS) *)
Definition get_string_encoded (st : tstate) (max_length : Z) : res (list Z * tstate) :=
  do vs <- get_string st max_length;
  do b <- utf8_encode (fst vs);
  Ok (b, snd vs).

(* ---------- harness interface ---------- *)
Definition eBadCase := 999.

Definition lt256 (c : Z) : bool := (0 <=? c) && (c <? 256).
Definition obs_of_text (s : list Z) : obs := if forallb lt256 s then B s else L (map I s).

Fixpoint ints_of_obs (l : list obs) : option (list Z) :=
  match l with
  | [] => Some []
  | I z :: r => match ints_of_obs r with Some t => Some (z :: t) | None => None end
  | _ => None
  end.

Definition text_of_obs (o : obs) : option (list Z) :=
  match o with
  | B s => Some s
  | L l => ints_of_obs l
  | _ => None
  end.

Definition obs_of_token (t : token) : obs :=
  L [I (ttype t); obs_of_text (tvalue t); ob (tesc t);
     match tcomment t with Some c => obs_of_text c | None => N end].

Definition obs_of_res {A} (f : A -> obs) (r : res A) : obs :=
  match r with Ok a => f a | Lib e => E e | Internal e => E e end.

(* all tokens up to and including EOF, or up to the first error *)
Fixpoint tokenize_all (fuel : nat) (st : tstate) (wl wc : bool) : list obs :=
  match fuel with
  | O => [E tFuel]
  | S f =>
      match get st wl wc with
      | Ok (t, st1) => obs_of_token t :: (if ttype t =? tEOF then [] else tokenize_all f st1 wl wc)
      | Lib e => [E e]
      | Internal e => [E e]
      end
  end.

(* a script of tokenizer method calls; stops at the first exception *)
Fixpoint script (ops : list obs) (st : tstate) (last : option token) : list obs :=
  match ops with
  | [] => []
  | op :: r =>
      let step {A} (x : res (A * tstate)) (f : A -> obs) (tk : A -> option token) : list obs :=
        match x with
        | Ok (a, st1) => f a :: script r st1 (tk a)
        | Lib e => [E e]
        | Internal e => [E e]
        end in
      let none {A} (_ : A) : option token := None in
      match op with
      | I 0 => step (get st false false) obs_of_token (fun t => Some t)
      | I 1 => step (get st true false) obs_of_token (fun t => Some t)
      | I 2 => step (get st false true) obs_of_token (fun t => Some t)
      | I 3 => step (get_int st 10) I none
      | I 4 => step (get_uint8 st) I none
      | I 5 => step (get_uint16 st) I none
      | I 6 => step (get_uint32 st) I none
      | I 7 => step (get_uint48 st) I none
      | I 8 => step (get_string st 0) obs_of_text none
      | I 9 => step (get_identifier st) obs_of_text none
      | I 10 => step (get_remaining st 0) (fun l => L (map obs_of_token l)) none
      | I 11 => step (concatenate_remaining_identifiers st false) obs_of_text none
      | I 12 => step (concatenate_remaining_identifiers st true) obs_of_text none
      | I 13 => step (get_eol_as_token st) obs_of_token none
      | I 14 => step (get_ttl st) I none
      | I 15 => step (get_uint16 st) I none
      | I 16 =>
          match last with
          | Some t => step (do st1 <- unget st t; Ok (tt, st1)) (fun _ => N) none
          | None => N :: script r st None
          end
      | I 17 => step (get_remaining st 1) (fun l => L (map obs_of_token l)) none
      | I 18 => step (get_string st 255) obs_of_text none
      | I 19 => step (get_uint max16 st 8) I none
      | I 20 => step (get_string_encoded st 0) B none
      | I 21 => step (get_string_as_bytes st 0) B none
      | I 22 => step (get_string_as_bytes st 255) B none
      | _ => [E eBadCase]
      end
  end.

Fixpoint strings_of_obs (l : list obs) : option (list (list Z)) :=
  match l with
  | [] => Some []
  | B s :: r => match strings_of_obs r with Some t => Some (s :: t) | None => None end
  | _ => None
  end.

Definition run (c : obs) : obs :=
  match c with
  | L [I 1; B s] => B (escapify s)
  | L [I 2; t; I wl; I wc] =>
      match text_of_obs t with
      | Some s => L (tokenize_all (S (S (length s))) (init s) (wl =? 1) (wc =? 1))
      | None => E eBadCase
      end
  | L [I 3; t; I he] =>
      match text_of_obs t with
      | Some s => obs_of_res (fun t => obs_of_text (tvalue t)) (unescape (mkTok tIDENT s (he =? 1) None))
      | None => E eBadCase
      end
  | L [I 4; t] =>
      match text_of_obs t with
      | Some s => obs_of_res (fun t => B (tvalue t)) (unescape_to_bytes (mkTok tIDENT s true None))
      | None => E eBadCase
      end
  | L [I 5; t; L ops] =>
      match text_of_obs t with
      | Some s => L (script ops (init s) None)
      | None => E eBadCase
      end
  | L [I 6; L ss] =>
      match strings_of_obs ss with
      | Some strings => B (txt_to_text strings)
      | None => E eBadCase
      end
  | L [I 7; t] =>
      match text_of_obs t with
      | Some s => obs_of_res (fun ss => L (map B ss)) (rdata_from_text_txt s)
      | None => E eBadCase
      end
  | L [I 11; t] =>
      match text_of_obs t with
      | Some u => obs_of_text (escapify_unicode u)
      | None => E eBadCase
      end
  | L [I 12; B s] => match utf8_decode s with Some u => obs_of_text u | None => N end
  | L [I 13; L ss; I utf8] =>
      match strings_of_obs ss with
      | Some strings => obs_of_text (txt_to_text_style (utf8 =? 1) strings)
      | None => E eBadCase
      end
  | L [I 8; t; I base] =>
      match text_of_obs t with
      | Some s => match py_int base s with Some v => I v | None => N end
      | None => E eBadCase
      end
  | L [I 9; t] =>
      match text_of_obs t with
      | Some s => obs_of_res I (ttl_from_text s)
      | None => E eBadCase
      end
  | L [I 10; I base; I n] => B (print_base base n)
  | L [I 20; B d; I chunk; B sep] => B (styled_hexify d chunk sep)
  | L [I 21; B d; I chunk; B sep] => B (styled_base64ify d chunk sep)
  | L [I 22; B s] => obs_of_res B (unhexlify s)
  | L [I 23; B s] => obs_of_res B (b64decode s)
  | L [I 24; B w] => B (truncate_bitmap w)
  | L [I 30; B d; I chunk; B sep] => B (generic_to_text d chunk sep)
  | L [I 31; t] =>
      match text_of_obs t with
      | Some s => obs_of_res B (rdata_from_text_generic s)
      | None => E eBadCase
      end
  | _ => E eBadCase
  end.
