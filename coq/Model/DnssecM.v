(* Model of the key-free DNSSEC computations of dnspython (property C15).
   Definitions only; proofs live in Proofs/Dnssec*.v.
   Each function mirrors the control flow of the Python function named in its comment:
     dns/rdtypes/dnskeybase.py  DNSKEYBase.key_id
     dns/rdata.py               Rdata.to_digestable -> per type _to_wire(canonicalize=True)
                                (the per-type facts come from the table that
                                 tools/translate_canon.py regenerates from dns/rdtypes/** on every run)
     dns/dnssec.py              _make_rrsig_signature_data, make_ds, nsec3_hash,
                                sign_zone -> _sign_zone_nsec / _txn_add_nsec
     dns/rdtypes/util.py        Bitmap.from_rdtypes, Bitmap.__init__
     dns/zone.py                Zone._compute_digest (ZONEMD, SIMPLE scheme)
   Hash functions are never computed here: the model produces the exact octet string that is
   hashed (make_ds, ZONEMD) or takes the hash function as a parameter (nsec3_hash). *)
From DV Require Import Base.Prelude Model.NameM.
Open Scope Z_scope.

Definition bytes := list Z.

(* exception codes (shared numbering with NameM for the dns.name exceptions) *)
Definition eValidationFailure := 20.     (* dns.exception.ValidationFailure *)
Definition eUnsupportedAlgorithm := 21.  (* dns.exception.UnsupportedAlgorithm *)
Definition eNoSOA := 24.                 (* dns.zone.NoSOA *)
Definition eUnsupportedDigest := 25.     (* dns.zone.UnsupportedDigestHashAlgorithm / ...Scheme *)
Definition iBadTable := 150.             (* model artefact: rdata has more names than the generated table says *)
Definition iCompress := 151.             (* model artefact: table says a canonical name may be compressed *)

(* ---------- struct.pack ---------- *)
Definition u8 (v : Z) : bytes := [v].
Definition u32 (v : Z) : bytes := [v / 16777216; (v / 65536) mod 256; (v / 256) mod 256; v mod 256].

Definition in_range (v lim : Z) : bool := (0 <=? v) && (v <? lim).
(* Rdata._as_uintN: ValueError when out of range *)
Definition as_uint (lim v : Z) : res Z := if in_range v lim then Ok v else Lib eValueError.

(* struct.pack("!H", n) for a length computed at run time *)
Definition pack_len16 (n : Z) : res bytes := if in_range n 65536 then Ok (u16 n) else Internal iStructError.

Fixpoint map_res {A B} (f : A -> res B) (l : list A) : res (list B) :=
  match l with
  | [] => Ok []
  | x :: r => do y <- f x; do ys <- map_res f r; Ok (y :: ys)
  end.

(* ---------- sorted() ---------- *)
(* Python's sorted() is a stable sort; it is modelled as stable insertion sort with the
   element's own `<` (insert after the elements that are not greater). *)
Section Sort.
  Context {A : Type} (lt : A -> A -> bool).
  Fixpoint ins_sorted (x : A) (l : list A) : list A :=
    match l with
    | [] => [x]
    | y :: r => if lt x y then x :: l else y :: ins_sorted x r
    end.
  Definition py_sorted (l : list A) : list A := fold_left (fun acc x => ins_sorted x acc) l [].
End Sort.

Definition bytes_lt (a b : bytes) : bool := match cmp_bytes a b with Lt => true | _ => false end.
Definition name_lt (a b : name) : bool := order a b <? 0.      (* Name.__lt__ *)
Definition sort_bytes := py_sorted bytes_lt.
Definition sort_names := py_sorted name_lt.
Definition sort_ints := py_sorted Z.ltb.

(* ---------- DNSKEYBase.key_id ---------- *)
Definition dnskey_wire (flags protocol alg : Z) (key : bytes) : bytes :=
  u16 flags ++ [protocol; alg] ++ key.

(* wire[i], i >= 0 *)
Definition idx (w : bytes) (i : nat) : res Z :=
  match nth_error w i with Some x => Ok x | None => Internal iIndexError end.
(* wire[-k], k >= 1 *)
Definition idx_end (w : bytes) (k : nat) : res Z :=
  if Nat.ltb (length w) k then Internal iIndexError else idx w (length w - k)%nat.

(* for i in range(n): total += (wire[2*i] << 8) + wire[2*i+1] *)
Fixpoint kid_loop (n i : nat) (w : bytes) (total : Z) : res Z :=
  match n with
  | O => Ok total
  | S n' =>
      do a <- idx w (2 * i)%nat;
      do b <- idx w (2 * i + 1)%nat;
      kid_loop n' (S i) w (total + (Z.shiftl a 8 + b))
  end.

Definition key_id_wire (alg : Z) (w : bytes) : res Z :=
  if alg =? 1 then
    do a <- idx_end w 3; do b <- idx_end w 2; Ok (Z.shiftl a 8 + b)
  else
    do total <- kid_loop (Nat.div (length w) 2) 0%nat w 0;
    do total <- (if negb (Nat.eqb (Nat.modulo (length w) 2) 0)
                 then do l <- idx w (length w - 1)%nat; Ok (total + Z.shiftl l 8)
                 else Ok total);
    let total := total + Z.land (Z.shiftr total 16) 65535 in
    Ok (Z.land total 65535).

(* DNSKEY(flags, protocol, algorithm, key).key_id(); the constructor validates the ranges *)
Definition key_id (flags protocol alg : Z) (key : bytes) : res Z :=
  do f <- as_uint 65536 flags;
  do p <- as_uint 256 protocol;
  do a <- as_uint 256 alg;
  key_id_wire a (dnskey_wire f p a key).

(* ---------- Rdata.to_digestable ---------- *)
(* An rdata value is the sequence of things its _to_wire writes: raw octets and names. *)
Inductive field := FRaw (b : bytes) | FName (n : name).

(* one `<name>.to_wire(file, <compress>, origin, <canonicalize>)` call site of a type's
   _to_wire, as extracted from the source:
     c_none  : on the to_digestable path the compress argument is None
     c_canon : the canonicalize flag of to_digestable reaches the call *)
Record ncall := { c_none : bool; c_canon : bool }.
(* e_class: 255 = dns/rdtypes/ANY (every class), otherwise the class directory (IN = 1, CH = 3);
   e_calls: the straight-line name writes in order; e_loop: a name write inside a for loop (HIP) *)
Record entry := { e_class : Z; e_type : Z; e_calls : list ncall; e_loop : option ncall }.

(* dns.rdata.get_rdata_class: class-specific module first, then ANY *)
Fixpoint find_entry (tbl : list entry) (cls ty : Z) : option entry :=
  match tbl with
  | [] => None
  | e :: r => if (e_class e =? cls) && (e_type e =? ty) then Some e else find_entry r cls ty
  end.
Definition lookup (tbl : list entry) (cls ty : Z) : option entry :=
  match find_entry tbl cls ty with
  | Some e => Some e
  | None => find_entry tbl 255 ty
  end.

Fixpoint dig_fields (calls : list ncall) (loop : option ncall) (fs : list field)
         (origin : option name) : res bytes :=
  match fs with
  | [] => Ok []
  | FRaw b :: r => do rest <- dig_fields calls loop r origin; Ok (b ++ rest)
  | FName n :: r =>
      match (match calls with
             | c :: cs => Some (c, cs)
             | [] => match loop with Some c => Some (c, []) | None => None end
             end) with
      | None => Internal iBadTable
      | Some (c, cs) =>
          if negb (c_none c) then Internal iCompress
          else
            do w <- to_wire n origin (c_canon c);
            do rest <- dig_fields cs loop r origin;
            Ok (w ++ rest)
      end
  end.

Definition digestable (tbl : list entry) (cls ty : Z) (fs : list field) (origin : option name)
  : res bytes :=
  match lookup tbl cls ty with
  | Some e => dig_fields (e_calls e) (e_loop e) fs origin
  | None => dig_fields [] None fs origin      (* types without embedded names *)
  end.

(* ---------- _make_rrsig_signature_data ---------- *)
Record rrsig := {
  r_covered : Z; r_alg : Z; r_labels : Z; r_ottl : Z; r_exp : Z; r_inc : Z; r_tag : Z;
  r_signer : name; r_sig : bytes }.

(* struct.pack("!HBBIIIH", ...) *)
Definition rrsig_header (r : rrsig) : bytes :=
  u16 (r_covered r) ++ [r_alg r; r_labels r] ++ u32 (r_ottl r) ++ u32 (r_exp r) ++ u32 (r_inc r)
  ++ u16 (r_tag r).

(* RRSIG._to_wire through Rdata.to_wire(origin=...) *)
Definition rrsig_to_wire (r : rrsig) (origin : option name) (canon : bool) : res bytes :=
  do s <- to_wire (r_signer r) origin canon;
  Ok (rrsig_header r ++ s ++ r_sig r).

Definition is_wild (n : name) : bool :=
  match n with l :: _ => zlist_eqb l [42] | [] => false end.

(* signer / owner:  if not n.is_absolute(): (origin is None -> ValidationFailure) n.derelativize(origin) *)
Definition absolutize (n : name) (origin : option name) : res name :=
  if is_absolute n then Ok n
  else match origin with
       | None => Lib eValidationFailure
       | Some o => derelativize n o
       end.

Definition rr_frame (rrnamebuf rrfixed rd : bytes) : res bytes :=
  do l <- pack_len16 (zlen rd); Ok (rrnamebuf ++ rrfixed ++ l ++ rd).

Definition make_rrsig_data (tbl : list entry) (r : rrsig) (rrname : name) (rdclass rdtype : Z)
           (rdatas : list (list field)) (origin : option name) : res bytes :=
  do signer <- absolutize (r_signer r) origin;
  do wire <- rrsig_to_wire r origin false;
  let data := firstn 18 wire in
  do sd <- to_wire signer None true;
  do rrname <- absolutize rrname origin;
  let name_len := zlen rrname in
  if is_wild rrname && negb (r_labels r =? name_len - 2) then Lib eValidationFailure
  else if name_len - 1 <? r_labels r then Lib eValidationFailure
  else
    do rrname <- (if r_labels r <? name_len - 1
                  then do ps <- split rrname (r_labels r + 1);
                       (* dns.name.from_text("*", suffix) *)
                       from_text [42] (Some (snd ps))
                  else Ok rrname);
    do rrnamebuf <- to_wire rrname None true;
    let rrfixed := u16 rdtype ++ u16 rdclass ++ u32 (r_ottl r) in
    do rds <- map_res (fun fs => digestable tbl rdclass rdtype fs origin) rdatas;
    do frames <- map_res (rr_frame rrnamebuf rrfixed) (sort_bytes rds);
    Ok (data ++ sd ++ concat frames).

(* the RRSIG constructor's range checks (rrsigbase.__init__) *)
Definition mk_rrsig (covered alg labels ottl exp inc tag : Z) (signer : name) (sig : bytes) : res rrsig :=
  do c <- as_uint 65536 covered; do a <- as_uint 256 alg; do l <- as_uint 256 labels;
  do t <- as_uint 4294967296 ottl; do e <- as_uint 4294967296 exp; do i <- as_uint 4294967296 inc;
  do k <- as_uint 65536 tag;
  Ok {| r_covered := c; r_alg := a; r_labels := l; r_ottl := t; r_exp := e; r_inc := i; r_tag := k;
        r_signer := signer; r_sig := sig |}.

(* ---------- make_ds ---------- *)
(* Name.canonicalize(): Name([x.lower() for x in labels]) *)
Definition canonicalize (n : name) : res name := mk_name (map lower_l n).

(* returns the octets fed to the hash, and the three fixed fields of the DS rdata *)
Definition make_ds (owner : name) (flags protocol alg : Z) (key : bytes) (dtype : Z)
  : res (bytes * Z * Z * Z) :=
  do f <- as_uint 65536 flags;
  do p <- as_uint 256 protocol;
  do a <- as_uint 256 alg;
  if negb ((dtype =? 1) || (dtype =? 2) || (dtype =? 4)) then Lib eUnsupportedAlgorithm
  else
    do c <- canonicalize owner;
    do wire <- to_wire c None false;
    let kwire := dnskey_wire f p a key in
    do tag <- key_id_wire a kwire;
    Ok (wire ++ kwire, tag, a, dtype).

(* make_ds with the owner given as text:  if isinstance(name, str): name = dns.name.from_text(name, origin)
   (after the digest-type test; the key was constructed by the caller) *)
Definition make_ds_text (text : bytes) (origin : option name) (flags protocol alg : Z) (key : bytes) (dtype : Z)
  : res (bytes * Z * Z * Z) :=
  do f <- as_uint 65536 flags;
  do p <- as_uint 256 protocol;
  do a <- as_uint 256 alg;
  if negb ((dtype =? 1) || (dtype =? 2) || (dtype =? 4)) then Lib eUnsupportedAlgorithm
  else
    do owner <- from_text text origin;
    make_ds owner f p a key dtype.

(* ---------- nsec3_hash ---------- *)
(* base64.b32encode: RFC 4648 alphabet, '=' padding *)
Definition b32_std (v : Z) : Z := if v <? 26 then 65 + v else 24 + v.
(* RFC 4648 section 7 "extended hex" alphabet *)
Definition b32_hex (v : Z) : Z := if v <? 10 then 48 + v else 55 + v.

Definition quintets (a b c d e : Z) : list Z :=
  let n := (((a * 256 + b) * 256 + c) * 256 + d) * 256 + e in
  [ (n / 34359738368) mod 32; (n / 1073741824) mod 32; (n / 33554432) mod 32; (n / 1048576) mod 32;
    (n / 32768) mod 32; (n / 1024) mod 32; (n / 32) mod 32; n mod 32 ].

Section B32.
  Variable alpha : Z -> Z.
  Definition enc (k : nat) (q : list Z) : list Z := map alpha (firstn k q) ++ repeat 61 (8 - k)%nat.
  Fixpoint b32encode (l : bytes) : list Z :=
    match l with
    | a :: b :: c :: d :: e :: r => enc 8 (quintets a b c d e) ++ b32encode r
    | [a; b; c; d] => enc 7 (quintets a b c d 0)
    | [a; b; c] => enc 5 (quintets a b c 0 0)
    | [a; b] => enc 4 (quintets a b 0 0 0)
    | [a] => enc 2 (quintets a 0 0 0 0)
    | [] => []
    end.
End B32.

(* str.translate(b32_conversion): "ABCDEFGHIJKLMNOPQRSTUVWXYZ234567" -> "0123456789ABCDEFGHIJKLMNOPQRSTUV" *)
Definition b32_translate (c : Z) : Z :=
  if (65 <=? c) && (c <=? 74) then c - 17          (* A..J -> 0..9 *)
  else if (75 <=? c) && (c <=? 90) then c - 10     (* K..Z -> A..P *)
  else if (50 <=? c) && (c <=? 55) then c + 31     (* 2..7 -> Q..V *)
  else c.

Section Nsec3.
  Variable H : bytes -> bytes.      (* hashlib.sha1(x).digest() *)
  Fixpoint n3_iter (n : nat) (digest salt : bytes) : bytes :=   (* for _ in range(n) *)
    match n with
    | O => digest
    | S n' => n3_iter n' (H (digest ++ salt)) salt
    end.
  Definition nsec3_hash (domain : name) (salt : bytes) (iterations alg : Z) : res bytes :=
    if negb (alg =? 1) then Lib eValueError
    else
      do c <- canonicalize domain;
      do w <- to_wire c None false;
      let digest := H (w ++ salt) in
      let digest := n3_iter (Z.to_nat iterations) digest salt in
      Ok (map b32_translate (b32encode b32_std digest)).
End Nsec3.

(* ---------- Bitmap.from_rdtypes ---------- *)
Fixpoint set_nth (i : nat) (v : Z) (l : list Z) : list Z :=
  match l, i with
  | [], _ => []
  | _ :: r, O => v :: r
  | x :: r, S i' => x :: set_nth i' v r
  end.

Record bst := { b_window : Z; b_octets : Z; b_prior : Z; b_bitmap : list Z; b_windows : list (Z * bytes) }.

Definition bm_flush (s : bst) : list (Z * bytes) :=
  if negb (b_octets s =? 0)
  then b_windows s ++ [(b_window s, firstn (Z.to_nat (b_octets s)) (b_bitmap s))]
  else b_windows s.

Definition bm_step (s : bst) (rdtype : Z) : bst :=
  if rdtype =? b_prior s then s
  else
    let new_window := rdtype / 256 in
    let '(window, bitmap, windows) :=
      if negb (new_window =? b_window s)
      then (new_window, repeat 0 32%nat, bm_flush s)
      else (b_window s, b_bitmap s, b_windows s) in
    let offset := rdtype mod 256 in
    let byte := offset / 8 in
    let bit := offset mod 8 in
    {| b_window := window; b_octets := byte + 1; b_prior := rdtype;
       b_bitmap := set_nth (Z.to_nat byte)
                     (Z.lor (nth (Z.to_nat byte) bitmap 0) (Z.shiftr 128 bit)) bitmap;
       b_windows := windows |}.

Definition bm_init : bst :=
  {| b_window := 0; b_octets := 0; b_prior := 0; b_bitmap := repeat 0 32%nat; b_windows := [] |}.

(* Bitmap.__init__ validation of what from_rdtypes built *)
Fixpoint bm_check (last : Z) (ws : list (Z * bytes)) : bool :=
  match ws with
  | [] => true
  | (w, bm) :: r =>
      negb (w <=? last) && negb (w >? 256) && negb ((zlen bm =? 0) || (zlen bm >? 32)) && bm_check w r
  end.

Definition from_rdtypes (rdtypes : list Z) : res (list (Z * bytes)) :=
  let s := fold_left bm_step (sort_ints rdtypes) bm_init in
  let ws := bm_flush s in
  if bm_check (-1) ws then Ok ws else Lib eValueError.

(* ---------- sign_zone -> _sign_zone_nsec ---------- *)
Definition tNS := 2. Definition tSOA := 6. Definition tDS := 43. Definition tRRSIG := 46.
Definition tNSEC := 47. Definition tZONEMD := 63.

(* a node: owner name as stored in the zone, rdataset types in node.rdatasets order *)
Definition znode := (name * list Z)%type.

(* one call of rrset_signer(txn, rrset): owner, type, and for the NSEC rrsets the rdata *)
Inductive scall :=
| SignRR (owner : name) (ty : Z)
| SignNSEC (owner next : name) (windows : list (Z * bytes)).

Fixpoint get_node (nodes : list znode) (n : name) : option (list Z) :=
  match nodes with
  | [] => None
  | (k, ts) :: r => if name_eqb k n then Some ts else get_node r n
  end.

(* truthiness of a Name / of None *)
Definition truthy (n : option name) : bool := match n with Some (_ :: _) => true | _ => false end.
Definition has_type (ts : list Z) (t : Z) : bool := existsb (Z.eqb t) ts.

(* _txn_add_nsec *)
Definition add_nsec (nodes : list znode) (n next : name) (at_deleg : bool) : res (list scall) :=
  match get_node nodes n with
  | Some (t :: ts) =>
      match next with
      | [] => Ok []
      | _ =>
          let types := t :: ts in
          let types := if at_deleg then filter (fun x => (x =? tNS) || (x =? tDS)) types else types in
          do ws <- from_rdtypes (types ++ [tRRSIG; tNSEC]);
          Ok [SignNSEC n next ws]
      end
  | _ => Ok []
  end.

Record sst := { s_deleg : option name; s_last : option name; s_last_deleg : bool; s_calls : list scall }.

Definition sign_rrsets (n : name) (ts : list Z) (deleg : option name) : list scall :=
  flat_map (fun t => if t =? tRRSIG then []
                     else if truthy deleg && negb (t =? tDS) then []
                     else [SignRR n t]) ts.

Definition sz_step (nodes : list znode) (origin : name) (s : sst) (n : name) : res sst :=
  if (match s_deleg s with
      | Some (x :: d) => is_subdomain n (x :: d)
      | _ => false
      end)
  then Ok s
  else
    let ts := match get_node nodes n with Some ts => ts | None => [] end in
    let deleg := if has_type ts tNS && negb (name_eqb n origin) then Some n else None in
    let c1 := sign_rrsets n ts deleg in
    do c2 <- (match s_last s with
              | Some l => add_nsec nodes l n (s_last_deleg s)
              | None => Ok []
              end);
    Ok {| s_deleg := deleg; s_last := Some n; s_last_deleg := truthy deleg;
          s_calls := s_calls s ++ c1 ++ c2 |}.

Fixpoint sz_loop (nodes : list znode) (origin : name) (s : sst) (ns : list name) : res sst :=
  match ns with
  | [] => Ok s
  | n :: r => do s' <- sz_step nodes origin s n; sz_loop nodes origin s' r
  end.

(* rrsig_ttl = zone.get_soa(txn).minimum : the apex (empty name in a relativized zone) must hold an SOA *)
Definition has_soa (origin : name) (relativize : bool) (nodes : list znode) : bool :=
  match get_node nodes (if relativize then [] else origin) with
  | Some ts => has_type ts tSOA
  | None => false
  end.

Definition sign_zone_nsec (origin : name) (relativize : bool) (nodes : list znode) : res (list scall) :=
  if negb (has_soa origin relativize nodes) then Lib eNoSOA else
  do s <- sz_loop nodes origin
            {| s_deleg := None; s_last := None; s_last_deleg := false; s_calls := [] |}
            (sort_names (map fst nodes));
  match s_last s with
  | Some l => do c <- add_nsec nodes l origin (s_last_deleg s); Ok (s_calls s ++ c)
  | None => Ok (s_calls s)
  end.

(* ---------- Zone._compute_digest ---------- *)
Record zrds := { z_type : Z; z_covers : Z; z_class : Z; z_ttl : Z; z_rdatas : list (list field) }.

Definition rds_key_lt (a b : zrds) : bool :=
  (z_type a <? z_type b) || ((z_type a =? z_type b) && (z_covers a <? z_covers b)).

Definition zd_rdataset (tbl : list entry) (origin : name) (rrnamebuf : bytes) (rds : zrds) : res bytes :=
  let rrfixed := u16 (z_type rds) ++ u16 (z_class rds) ++ u32 (z_ttl rds) in
  do rdatas <- map_res (fun fs => digestable tbl (z_class rds) (z_type rds) fs (Some origin)) (z_rdatas rds);
  do frames <- map_res (rr_frame rrnamebuf rrfixed) (sort_bytes rdatas);
  Ok (concat frames).

Definition zd_node (tbl : list entry) (origin origin_name : name) (nd : name * list zrds) : res bytes :=
  let '(n, rdss) := nd in
  do rrnamebuf <- to_wire n (Some origin) true;
  do parts <- map_res (fun rds =>
                 if name_eqb n origin_name && ((z_type rds =? tZONEMD) || (z_covers rds =? tZONEMD))
                 then Ok [] else zd_rdataset tbl origin rrnamebuf rds)
              (py_sorted rds_key_lt rdss);
  Ok (concat parts).

(* hash_algorithm in {1 (SHA384), 2 (SHA512)}, scheme 1 (SIMPLE); returns everything fed to the hasher *)
Definition compute_digest_input (tbl : list entry) (origin : name) (relativize : bool)
           (nodes : list (name * list zrds)) (halg scheme : Z) : res bytes :=
  if negb ((halg =? 1) || (halg =? 2)) then Lib eUnsupportedDigest
  else if negb (scheme =? 1) then Lib eUnsupportedDigest
  else
    let origin_name := if relativize then [] else origin in
    do parts <- map_res (zd_node tbl origin origin_name)
                        (py_sorted (fun a b => name_lt (fst a) (fst b)) nodes);
    Ok (concat parts).

(* ---------- harness interface ---------- *)
Definition obs_res {A} (f : A -> obs) (r : res A) : obs := obs_of_res f r.

Fixpoint fields_of_obs (l : list obs) : option (list field) :=
  match l with
  | [] => Some []
  | B b :: r => match fields_of_obs r with Some fs => Some (FRaw b :: fs) | None => None end
  | L n :: r => match name_of_obs n, fields_of_obs r with
                | Some n, Some fs => Some (FName n :: fs)
                | _, _ => None
                end
  | _ => None
  end.

(* an rdata in a case is  L [L fields; constructor-arguments]  (the arguments are for Python only) *)
Fixpoint rdatas_of_obs (l : list obs) : option (list (list field)) :=
  match l with
  | [] => Some []
  | L (L fs :: _) :: r => match fields_of_obs fs, rdatas_of_obs r with
                          | Some f, Some rs => Some (f :: rs)
                          | _, _ => None
                          end
  | _ => None
  end.

Fixpoint ints_of_obs (l : list obs) : option (list Z) :=
  match l with
  | [] => Some []
  | I z :: r => match ints_of_obs r with Some zs => Some (z :: zs) | None => None end
  | _ => None
  end.

Fixpoint htable_of_obs (l : list obs) : option (list (bytes * bytes)) :=
  match l with
  | [] => Some []
  | L [B k; B v] :: r => match htable_of_obs r with Some t => Some ((k, v) :: t) | None => None end
  | _ => None
  end.

(* a hash function given by its graph on the points the harness computed with hashlib *)
Fixpoint H_of_table (t : list (bytes * bytes)) (x : bytes) : bytes :=
  match t with
  | [] => []
  | (k, v) :: r => if zlist_eqb k x then v else H_of_table r x
  end.

Fixpoint znodes_of_obs (l : list obs) : option (list znode) :=
  match l with
  | [] => Some []
  | L [L n; L ts] :: r =>
      match name_of_obs n, ints_of_obs ts, znodes_of_obs r with
      | Some n, Some ts, Some ns => Some ((n, ts) :: ns)
      | _, _, _ => None
      end
  | _ => None
  end.

Fixpoint rdss_of_obs (l : list obs) : option (list zrds) :=
  match l with
  | [] => Some []
  | L [I ty; I cov; I cls; I ttl; L rds] :: r =>
      match rdatas_of_obs rds, rdss_of_obs r with
      | Some rds, Some rs =>
          Some ({| z_type := ty; z_covers := cov; z_class := cls; z_ttl := ttl; z_rdatas := rds |} :: rs)
      | _, _ => None
      end
  | _ => None
  end.

Fixpoint zdnodes_of_obs (l : list obs) : option (list (name * list zrds)) :=
  match l with
  | [] => Some []
  | L [L n; L rdss] :: r =>
      match name_of_obs n, rdss_of_obs rdss, zdnodes_of_obs r with
      | Some n, Some rdss, Some ns => Some ((n, rdss) :: ns)
      | _, _, _ => None
      end
  | _ => None
  end.

Definition obs_of_windows (ws : list (Z * bytes)) : obs := L (map (fun wb => L [I (fst wb); B (snd wb)]) ws).

Definition obs_of_scall (c : scall) : obs :=
  match c with
  | SignRR n t => L [obs_of_name n; I t; N]
  | SignNSEC n nx ws => L [obs_of_name n; I tNSEC; L [obs_of_name nx; obs_of_windows ws]]
  end.

Definition run_with (tbl : list entry) (c : obs) : obs :=
  match c with
  | L [I 1; I flags; I protocol; I alg; B key; _] =>
      obs_res I (key_id flags protocol alg key)
  | L [I 2; I cls; I ty; L fs; o; _] =>
      match fields_of_obs fs, oname_of_obs o with
      | Some fs, Some o => obs_res B (digestable tbl cls ty fs o)
      | _, _ => E eBadCase end
  | L [I 3; L [I cov; I alg; I labels; I ottl; I exp; I inc; I tag; L signer; B sig];
       L rrname; I rdclass; I rdtype; L rdatas; o] =>
      match name_of_obs signer, name_of_obs rrname, rdatas_of_obs rdatas, oname_of_obs o with
      | Some signer, Some rrname, Some rdatas, Some o =>
          obs_res B (do r <- mk_rrsig cov alg labels ottl exp inc tag signer sig;
                     make_rrsig_data tbl r rrname rdclass rdtype rdatas o)
      | _, _, _, _ => E eBadCase end
  | L [I 11; B text; o; I flags; I protocol; I alg; B key; I dtype; _] =>
      match oname_of_obs o with
      | Some o =>
          obs_res (fun x => let '(inp, tag, a, d) := x in L [B inp; I tag; I a; I d; I 1])
                  (make_ds_text text o flags protocol alg key dtype)
      | None => E eBadCase end
  | L [I 4; L owner; I flags; I protocol; I alg; B key; I dtype; _] =>
      match name_of_obs owner with
      | Some owner =>
          obs_res (fun x => let '(inp, tag, a, d) := x in L [B inp; I tag; I a; I d; I 1])
                  (make_ds owner flags protocol alg key dtype)
      | None => E eBadCase end
  | L [I 5; L domain; B salt; I iterations; I alg; L tbl] =>
      match name_of_obs domain, htable_of_obs tbl with
      | Some domain, Some t => obs_res B (nsec3_hash (H_of_table t) domain salt iterations alg)
      | _, _ => E eBadCase end
  | L [I 6; L ts] =>
      match ints_of_obs ts with
      | Some ts => obs_res obs_of_windows (from_rdtypes ts)
      | None => E eBadCase end
  | L [I 7; L origin; I rel; L nodes; I halg; I scheme] =>
      match name_of_obs origin, zdnodes_of_obs nodes with
      | Some origin, Some nodes =>
          obs_res (fun inp => L [B inp; I 1]) (compute_digest_input tbl origin (rel =? 1) nodes halg scheme)
      | _, _ => E eBadCase end
  | L [I 8; L origin; I rel; L nodes] =>
      match name_of_obs origin, znodes_of_obs nodes with
      | Some origin, Some nodes =>
          obs_res (fun cs => L (map obs_of_scall cs)) (sign_zone_nsec origin (rel =? 1) nodes)
      | _, _ => E eBadCase end
  | _ => E eBadCase
  end.

(* RFC 4034 section 6.2 item 3, minus HINFO (no names) and minus NSEC (RFC 6840 section 5.1) *)
Definition rfc4034_downcase_types : list Z :=
  [2 (*NS*); 3 (*MD*); 4 (*MF*); 5 (*CNAME*); 6 (*SOA*); 7 (*MB*); 8 (*MG*); 9 (*MR*); 12 (*PTR*);
   14 (*MINFO*); 15 (*MX*); 17 (*RP*); 18 (*AFSDB*); 21 (*RT*); 24 (*SIG*); 26 (*PX*); 30 (*NXT*);
   35 (*NAPTR*); 36 (*KX*); 33 (*SRV*); 39 (*DNAME*); 38 (*A6*); 46 (*RRSIG*)].
Definition rfc_downcased (ty : Z) : bool := existsb (Z.eqb ty) rfc4034_downcase_types.

Definition call_ok (ty : Z) (c : ncall) : bool := c_none c && Bool.eqb (c_canon c) (rfc_downcased ty).
Definition flag_ok (e : entry) : bool :=
  forallb (call_ok (e_type e)) (e_calls e) &&
  match e_loop e with Some c => call_ok (e_type e) c | None => true end.

(* the table as of the design snapshot, only used by `run` when no generated table is supplied
   (the harness always supplies the table generated from the current source) *)
Definition run : obs -> obs := run_with [].
