(* Text side of the regular record types: a field language for the per-type
   to_styled_text / from_text pairs of dns/rdtypes/** that are built only from
   tok.get_uintN / get_ttl / get_name / get_string_as_bytes / concatenate_remaining_identifiers
   (+ unhexlify / b64decode) / TXT strings, printed with f"{int}", Name.to_styled_text,
   '"' + _escapify + '"', _styled_hexify, _styled_base64ify, joined by single blanks.
   Definitions only; proofs in Proofs/RdText*.v. *)
From DV Require Import Base.Prelude Model.NameM Model.TokM.
Open Scope Z_scope.

Definition iValueError := 105.     (* ValueError from an rdata constructor check *)
Definition iNotModelled := 997.    (* model artefact: wire codec of the generic-syntax branch *)

Inductive tfield :=
| FDec (maxv : Z)                          (* get_uint8/16/32/48 *)
| FTtl                                     (* get_ttl *)
| FQStr (tokmax ctormax : Z) (nonempty : bool)
                                           (* get_string_as_bytes(max_length=tokmax); constructor
                                              _as_bytes(.., ctormax); 0 = no limit *)
| FName                                    (* get_name(origin, relativize, relativize_to) *)
| FHexRest                                 (* concatenate_remaining_identifiers + unhexlify *)
| FB64Rest (styled_chunks : bool)          (* ... + b64decode; false: base64_chunk_size forced to 0 *)
| FTxtRest.                                (* TXT-like strings *)

Inductive tval :=
| VInt (z : Z)
| VBytes (b : list Z)
| VName (n : name)
| VStrs (l : list (list Z)).

Record style := mkStyle {
  s_origin : option name; s_relativize : bool;
  s_hex_chunk : Z; s_hex_sep : list Z; s_b64_chunk : Z; s_b64_sep : list Z }.

Record pctx := mkPctx { p_origin : option name; p_relativize : bool; p_relativize_to : option name }.

(* ---------- printing ---------- *)
(* Name.to_styled_text(style) with idna_codec None, omit_final_dot False *)
Definition name_to_styled_text (st : style) (n : name) : res (list Z) :=
  do n1 <- choose_relativity n (s_origin st) (s_relativize st);
  Ok (NameM.to_text n1).

Definition print_field (st : style) (f : tfield) (v : tval) : res (list Z) :=
  match f, v with
  | FDec _, VInt z => Ok (dec z)
  | FTtl, VInt z => Ok (dec z)
  | FQStr _ _ _, VBytes b => Ok (quote b)
  | FName, VName n => name_to_styled_text st n
  | FHexRest, VBytes b => Ok (styled_hexify b (s_hex_chunk st) (s_hex_sep st))
  | FB64Rest c, VBytes b => Ok (styled_base64ify b (if c then s_b64_chunk st else 0) (s_b64_sep st))
  | FTxtRest, VStrs l => Ok (txt_to_text l)
  | _, _ => Internal eBadCase
  end.

Fixpoint print_fields (st : style) (fs : list tfield) (vs : list tval) : res (list Z) :=
  match fs, vs with
  | [], [] => Ok []
  | [f], [v] => print_field st f v
  | f :: fs', v :: vs' =>
      do a <- print_field st f v; do b <- print_fields st fs' vs'; Ok (a ++ 32 :: b)
  | _, _ => Internal eBadCase
  end.

(* ---------- parsing ---------- *)
(* `relativize_to or origin`: an empty Name is falsy *)
Definition relto_or_origin (c : pctx) : option name :=
  match p_relativize_to c with
  | Some (x :: r) => Some (x :: r)
  | _ => p_origin c
  end.

(* Tokenizer.as_name for ASCII text (non-ASCII text goes through the IDNA codec: not modelled) *)
Definition as_name (c : pctx) (t : token) : res name :=
  if negb (is_identifier t) then Lib eSyntax
  else
    do n <- NameM.from_text (tvalue t) (p_origin c);
    choose_relativity n (relto_or_origin c) (p_relativize c).

Definition get_name (c : pctx) (st : tstate) : res (name * tstate) :=
  do ts <- get0 st; do n <- as_name c (fst ts); Ok (n, snd ts).

Definition rest_bytes (decode : list Z -> res (list Z)) (st : tstate) : res (tval * tstate) :=
  do hs <- concatenate_remaining_identifiers st false;
  do b <- utf8_encode (fst hs);
  do d <- decode b;
  Ok (VBytes d, snd hs).

Definition parse_field (c : pctx) (f : tfield) (st : tstate) : res (tval * tstate) :=
  match f with
  | FDec maxv => do vs <- get_uint maxv st 10; Ok (VInt (fst vs), snd vs)
  | FTtl => do vs <- get_ttl st; Ok (VInt (fst vs), snd vs)
  | FQStr tokmax ctormax nonempty =>
      do bs <- get_string_as_bytes st tokmax;
      if negb (ctormax =? 0) && (zlen (fst bs) >? ctormax) then Internal iValueError
      else if nonempty && is_nil (fst bs) then Lib eSyntax
      else Ok (VBytes (fst bs), snd bs)
  | FName => do ns <- get_name c st; Ok (VName (fst ns), snd ns)
  | FHexRest => rest_bytes unhexlify st
  | FB64Rest _ => rest_bytes b64decode st
  | FTxtRest => do ss <- txt_from_text st; Ok (VStrs (fst ss), snd ss)
  end.

Fixpoint parse_fields (c : pctx) (fs : list tfield) (st : tstate) : res (list tval * tstate) :=
  match fs with
  | [] => Ok ([], st)
  | f :: fs' =>
      do vs <- parse_field c f st;
      do rs <- parse_fields c fs' (snd vs);
      Ok (fst vs :: fst rs, snd rs)
  end.

(* dns.rdata.from_text for a schema type; fw/tw = wire codec for the generic-syntax branch *)
Definition record_from_text_gen (fw : list Z -> res (list tval)) (tw : list tval -> res (list Z))
           (c : pctx) (fs : list tfield) (text : list Z) : res (list tval) :=
  rdata_from_text (parse_fields c fs) fw tw text.

Definition record_from_text (c : pctx) (fs : list tfield) (text : list Z) : res (list tval) :=
  record_from_text_gen (fun _ => Internal iNotModelled) (fun _ => Internal iNotModelled) c fs text.

Definition record_to_text (st : style) (fs : list tfield) (vs : list tval) : res (list Z) :=
  print_fields st fs vs.

(* ---------- the regular types ---------- *)
Definition u8 := FDec 255. Definition u16 := FDec 65535. Definition u32 := FDec 4294967295.
Definition cstr := FQStr 0 255 false.

Definition schema_of (rdtype : Z) : option (list tfield) :=
  if (rdtype =? 2) || (rdtype =? 5) || (rdtype =? 12) || (rdtype =? 39) || (rdtype =? 23)
  then Some [FName]                                        (* NS CNAME PTR DNAME NSAP-PTR *)
  else if (rdtype =? 15) || (rdtype =? 18) || (rdtype =? 21) || (rdtype =? 36) || (rdtype =? 107)
  then Some [u16; FName]                                   (* MX AFSDB RT KX LP *)
  else if rdtype =? 6 then Some [FName; FName; u32; FTtl; FTtl; FTtl; FTtl]        (* SOA *)
  else if rdtype =? 17 then Some [FName; FName]                                    (* RP *)
  else if rdtype =? 26 then Some [u16; FName; FName]                               (* PX *)
  else if rdtype =? 33 then Some [u16; u16; u16; FName]                            (* SRV *)
  else if rdtype =? 13 then Some [FQStr 255 255 false; FQStr 255 255 false]        (* HINFO *)
  else if rdtype =? 19 then Some [cstr]                                            (* X25 *)
  else if rdtype =? 35 then Some [u16; u16; cstr; cstr; cstr; FName]               (* NAPTR *)
  else if rdtype =? 256 then Some [u16; u16; FQStr 0 0 true]                       (* URI *)
  else if (rdtype =? 52) || (rdtype =? 53) then Some [u8; u8; u8; FHexRest]        (* TLSA SMIMEA *)
  else if rdtype =? 44 then Some [u8; u8; FHexRest]                                (* SSHFP *)
  else if rdtype =? 49 then Some [FB64Rest true]                                   (* DHCID *)
  else if rdtype =? 61 then Some [FB64Rest false]                                  (* OPENPGPKEY *)
  else if (rdtype =? 16) || (rdtype =? 99) || (rdtype =? 258) || (rdtype =? 56)
          || (rdtype =? 261) || (rdtype =? 262)
  then Some [FTxtRest]                                     (* TXT SPF AVC NINFO RESINFO WALLET *)
  else None.

(* ---------- harness interface ---------- *)
Definition obs_of_val (v : tval) : obs :=
  match v with
  | VInt z => I z
  | VBytes b => B b
  | VName n => obs_of_name n
  | VStrs l => L (map B l)
  end.

Fixpoint vals_of_obs (fs : list tfield) (os : list obs) : option (list tval) :=
  match fs, os with
  | [], [] => Some []
  | f :: fs', o :: os' =>
      match vals_of_obs fs' os' with
      | None => None
      | Some r =>
          match f, o with
          | FDec _, I z => Some (VInt z :: r)
          | FTtl, I z => Some (VInt z :: r)
          | FQStr _ _ _, B b => Some (VBytes b :: r)
          | FHexRest, B b => Some (VBytes b :: r)
          | FB64Rest _, B b => Some (VBytes b :: r)
          | FName, L l => match name_of_obs l with Some n => Some (VName n :: r) | None => None end
          | FTxtRest, L l => match strings_of_obs l with Some s => Some (VStrs s :: r) | None => None end
          | _, _ => None
          end
      end
  | _, _ => None
  end.

Definition style_of_obs (o : obs) : option style :=
  match o with
  | L [org; I rel; I hc; B hs; I bc; B bs] =>
      match oname_of_obs org with
      | Some og => Some (mkStyle og (rel =? 1) hc hs bc bs)
      | None => None
      end
  | _ => None
  end.

Definition pctx_of_obs (o : obs) : option pctx :=
  match o with
  | L [org; I rel; relto] =>
      match oname_of_obs org, oname_of_obs relto with
      | Some og, Some rt => Some (mkPctx og (rel =? 1) rt)
      | _, _ => None
      end
  | _ => None
  end.

Definition run (c : obs) : obs :=
  match c with
  | L [I 40; I rdtype; L vals; sty] =>
      match schema_of rdtype, style_of_obs sty with
      | Some fs, Some st =>
          match vals_of_obs fs vals with
          | Some vs => TokM.obs_of_res obs_of_text (record_to_text st fs vs)
          | None => E eBadCase
          end
      | _, _ => E eBadCase
      end
  | L [I 41; I rdtype; t; ctx] =>
      match schema_of rdtype, pctx_of_obs ctx, text_of_obs t with
      | Some fs, Some pc, Some s =>
          TokM.obs_of_res (fun vs => L (map obs_of_val vs)) (record_from_text pc fs s)
      | _, _, _ => E eBadCase
      end
  | _ => TokM.run c
  end.
