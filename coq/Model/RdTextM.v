(* Text side of the regular record types: a field language for the per-type
   to_styled_text / from_text pairs of dns/rdtypes/** that are built only from
   tok.get_uintN / get_ttl / get_name / get_string_as_bytes / concatenate_remaining_identifiers
   (+ unhexlify / b64decode) / TXT strings, printed with f"{int}", Name.to_styled_text,
   '"' + _escapify + '"', _styled_hexify, _styled_base64ify, joined by single blanks.
   Definitions only; proofs in Proofs/RdText*.v. *)
From DV Require Import Base.Prelude Model.NameM Model.TokM.
From DV Require Model.SchemaM.   (* read-only: the GPOS coordinate checks modelled for C02 (gpos_ok) *)
Open Scope Z_scope.

Definition iValueError := 105.     (* ValueError from an rdata constructor check *)
Definition iNotModelled := 997.    (* model artefact: wire codec of the generic-syntax branch *)

Inductive enum_kind := KType | KScheme | KCtype | KAlgMn | KAlgNum | KRcode.

Inductive tfield :=
| FDec (maxv : Z)                          (* get_uint8/16/32/48 *)
| FTtl                                     (* get_ttl *)
| FQStr (tokmax ctormax : Z) (nonempty : bool)
                                           (* get_string_as_bytes(max_length=tokmax); constructor
                                              _as_bytes(.., ctormax); 0 = no limit *)
| FName                                    (* get_name(origin, relativize, relativize_to) *)
| FHexRest                                 (* concatenate_remaining_identifiers + unhexlify *)
| FB64Rest (styled_chunks : bool)          (* ... + b64decode; false: base64_chunk_size forced to 0 *)
| FTxtRest                                 (* TXT-like strings *)
| FAddr (v6 : bool)                        (* get_identifier + _as_ipv4_address / _as_ipv6_address *)
| FHexTok                                  (* one token: hex, or "-" for the empty string (NSEC3PARAM salt) *)
| FAlg                                     (* get_string + dns.dnssectypes.Algorithm.make; printed as a number *)
| FTag                                     (* CAA tag: get_string().encode(), alphanumeric *)
| FBitmap                                  (* rest of line: type mnemonics, Bitmap.from_text *)
| FB32                                     (* NSEC3 next hashed owner: base32hex, lower case, no padding *)
| FEnum (k : enum_kind)                    (* get_string + a mnemonic-or-number conversion *)
| FNsap                                    (* NSAP: "0x" + hex, dots ignored on input *)
| FIntC (maxv : Z)                         (* tok.get_int(); the range is checked by the constructor *)
| FSigTime                                 (* RRSIG/SIG times: YYYYMMDDHHMMSS *)
| FEui (n : nat)                           (* EUI48 / EUI64: n octets as hex pairs joined by "-" *)
| FFmtHex                                  (* NID nodeid / L64 locator64: xxxx:xxxx:xxxx:xxxx, kept as text *)
| FOct16                                   (* CH A address: f"{address:o}" / get_uint16(base=8) *)
| FQOpt                                    (* ISDN subaddress: optional last character-string (get_remaining(max_tokens=1)) *)
| FHexStr                                  (* HIP hit: one token, get_string + unhexlify *)
| FB64Tok (maxlen : Z)                     (* HIP / TKEY key: one token, get_string + b64decode, printed unbroken *)
| FNamesRest                               (* HIP rendezvous servers: the remaining tokens as names *)
| FNameNoRel                               (* TKEY algorithm: tok.get_name(relativize=False), no origin *)
| FB64RestOpt                              (* TKEY other data: concatenate_remaining_identifiers(True) + b64decode,
                                              printed unbroken and only when not empty *)
| FGw (ipsec : bool)                       (* dns.rdtypes.util.Gateway: IPSECKEY "gateway_type algorithm gateway",
                                              AMTRELAY "relay_type relay" (type <= 127); the form of the last token
                                              depends on the type *)
| FB64RestE                                (* IPSECKEY key: concatenate_remaining_identifiers(True) + b64decode, styled
                                              chunks, may be empty (the blank before it is still printed) *)
| FMac                                     (* TSIG: "mac_len mac"; base64.b64decode(tok.get_string()), length compared *)
| FOther                                   (* TSIG: "other_len [other]"; the data token is read only when other_len > 0 *)
| FGposStr                                 (* GPOS latitude / longitude / altitude: get_string, kept as the octets of the text *)
| FAddr4S                                  (* WKS address: get_string + _as_ipv4_address *)
| FWksProto                                (* WKS protocol: a number (names go to socket.getprotobyname: not modelled) *)
| FWksPorts                                (* WKS: the remaining tokens are port numbers (names: getservbyname, not modelled);
                                              the value is the bitmap *)
| FLocRec                                  (* the whole LOC record (optional minutes / seconds, float altitude and sizes) *)
| FSvcbRec                                 (* the whole SVCB / HTTPS record: priority, target, parameters *)
| FAplRest                                 (* APL: the remaining tokens as [!]family:address/prefix items *)
| FKeyRec.                                 (* the whole KEY record: flags (number or LegacyFlag mnemonics joined by "|"),
                                              protocol (number or mnemonic), algorithm, and the key unless the flags say NOKEY *)

(* IEEE-754 binary64 values (see the arithmetic further down) *)
Record dbl := mkD { dneg : bool; dm : Z; de : Z }.
Inductive fval := FFin (d : dbl) | FInf (neg : bool).

(* SVCB / HTTPS parameter values (dns/rdtypes/svcbbase.py) *)
Inductive pval :=
| PNone                              (* key without value (value None) *)
| PKeys (l : list Z)                 (* mandatory *)
| PStrs (l : list (list Z))          (* alpn, docpath *)
| PPort (z : Z)
| PAddrs (v6 : bool) (l : list (list Z))   (* ipv4hint / ipv6hint, as octets *)
| PEch (b : list Z)
| PGen (b : list Z).                 (* any other key *)


Inductive gwval := GwNone | GwText (t : list Z) | GwName (n : name).

Inductive tval :=
| VInt (z : Z)
| VBytes (b : list Z)
| VName (n : name)
| VStrs (l : list (list Z))
| VWindows (ws : list (Z * list Z))
| VNames (l : list name)
| VGw (g a : Z) (gw : gwval)
| VApl (items : list (Z * bool * list Z * Z))   (* family, negation, address, prefix; the address is 4 / 16 octets for
                                                  families 1 / 2 and the hex text of the octets for any other family *)
| VLoc (lat lon : Z * Z * Z * Z * Z) (alt : Z) (size hp vp : dbl)
    (* degrees, minutes, seconds, milliseconds, sign; altitude in whole cm; the three sizes as the floats kept by the record *)
| VSvcb (prio : Z) (target : name) (params : list (Z * pval))    (* parameters in key order *)
| VKey (flags proto alg : Z) (algtext : list Z) (key : list Z).
   (* algtext: the algorithm token between the token phase and the constructor ([] afterwards) *)

Record style := mkStyle {
  s_origin : option name; s_relativize : bool;
  s_hex_chunk : Z; s_hex_sep : list Z; s_b64_chunk : Z; s_b64_sep : list Z; s_txt_utf8 : bool }.

Record pctx := mkPctx { p_origin : option name; p_relativize : bool; p_relativize_to : option name }.

(* ---------- address text codecs: dns/ipv4.py, dns/ipv6.py ---------- *)
(* bytes.split(sep) for a one-octet separator *)
Fixpoint split_on (sep : Z) (s : list Z) (cur : list Z) : list (list Z) :=
  match s with
  | [] => [rev cur]
  | c :: r => if c =? sep then rev cur :: split_on sep r [] else split_on sep r (c :: cur)
  end.

(* dns.ipv4.inet_ntoa *)
Definition ipv4_ntoa (a : list Z) : res (list Z) :=
  match a with
  | [a0; a1; a2; a3] => Ok (dec a0 ++ 46 :: dec a1 ++ 46 :: dec a2 ++ 46 :: dec a3)
  | _ => Lib eSyntax
  end.

(* part.isdigit() and not (len(part) > 1 and part[0] == "0") *)
Definition ipv4_part_ok (p : list Z) : bool :=
  negb (is_nil p) && forallb is_decimal p
  && negb ((1 <? zlen p) && match p with c :: _ => c =? 48 | [] => false end).

(* dns.ipv4.inet_aton on the octets of the text *)
Definition ipv4_aton_b (b : list Z) : res (list Z) :=
  let parts := split_on 46 b [] in
  if negb (Nat.eqb (length parts) 4) then Lib eSyntax
  else if negb (forallb ipv4_part_ok parts) then Lib eSyntax
  else
    let vals := map (fun p => dec_value p 0) parts in
    if forallb (fun v => v <=? 255) vals then Ok vals else Lib eSyntax.

Definition ipv4_aton (t : list Z) : res (list Z) := do b <- utf8_encode t; ipv4_aton_b b.

(* dns.ipv6.inet_ntoa: 8 chunks of 4 hex digits, leading zeros stripped by the regex 0+([0-9a-f]+) *)
Fixpoint strip0 (s : list Z) : list Z :=
  match s with
  | c :: (_ :: _) as t => if c =? 48 then strip0 t else s
  | _ => s
  end.

Fixpoint pairs16 (a : list Z) : list Z :=
  match a with
  | hi :: lo :: r => (hi * 256 + lo) :: pairs16 r
  | _ => []
  end.

Definition hex4 (v : Z) : list Z :=
  [hexdigit (v / 4096); hexdigit ((v / 256) mod 16); hexdigit ((v / 16) mod 16); hexdigit (v mod 16)].

Definition is_zero_chunk (c : list Z) : bool := zlist_eqb c [48].

(* the loop `for i in range(8)` that finds the longest run of "0" chunks;
   state: best_start, best_len, start, last_was_zero *)
Fixpoint zrun_loop (cs : list (list Z)) (i : Z) (bs bl st : Z) (lz : bool) : Z * Z * Z * bool :=
  match cs with
  | [] => (bs, bl, st, lz)
  | c :: r =>
      if negb (is_zero_chunk c) then
        if lz then
          let cur := i - st in
          if cur >? bl then zrun_loop r (i + 1) st cur st false
          else zrun_loop r (i + 1) bs bl st false
        else zrun_loop r (i + 1) bs bl st lz
      else if negb lz then zrun_loop r (i + 1) bs bl i true
      else zrun_loop r (i + 1) bs bl st lz
  end.

Definition zrun (cs : list (list Z)) : Z * Z :=
  let '(bs, bl, st, lz) := zrun_loop cs 0 0 0 (-1) false in
  if lz then
    let cur := 8 - st in
    if cur >? bl then (st, cur) else (bs, bl)
  else (bs, bl).

Fixpoint join_colon (l : list (list Z)) : list Z :=
  match l with
  | [] => []
  | [x] => x
  | x :: r => x ++ 58 :: join_colon r
  end.

Definition ipv6_ntoa (a : list Z) : res (list Z) :=
  if negb (Nat.eqb (length a) 16) then Internal iValueError
  else
    let chunks := map (fun v => strip0 (hex4 v)) (pairs16 a) in
    let '(bs, bl) := zrun chunks in
    if bl >? 1 then
      if (bs =? 0) && ((bl =? 6) || ((bl =? 5) && zlist_eqb (nth 5 chunks []) [102; 102; 102; 102])) then
        do v4 <- ipv4_ntoa (skipn 12 a);
        Ok ((if bl =? 6 then [58; 58] else [58; 58; 102; 102; 102; 102; 58]) ++ v4)
      else
        Ok (join_colon (firstn (Z.to_nat bs) chunks) ++ [58; 58]
            ++ join_colon (skipn (Z.to_nat (bs + bl)) chunks))
    else Ok (join_colon chunks).

(* dns.ipv6.inet_aton (ignore_scope=False) on the octets of the text; texts containing a newline
   are outside the model (`.` and `$` of the regular expressions treat them specially) *)
Definition starts_with (p s : list Z) : bool := zlist_eqb (firstn (length p) s) p.
Definition ends_with (p s : list Z) : bool := starts_with (rev p) (rev s).

(* \d+\.\d+\.\d+\.\d+ *)
Definition is_dotted_quad (s : list Z) : bool :=
  let parts := split_on 46 s [] in
  Nat.eqb (length parts) 4 && forallb (fun p => negb (is_nil p) && forallb is_decimal p) parts.

(* the text before the last ':' and the text after it *)
Definition split_last_colon (s : list Z) : option (list Z * list Z) :=
  match split_on 58 (rev s) [] with
  | last_rev :: ((_ :: _) as rest) =>
      Some (rev (join_colon rest), rev last_rev)
  | _ => None
  end.

Definition hex2 (v : Z) : list Z := [hexdigit (v / 16); hexdigit (v mod 16)].

Definition pad4 (c : list Z) : list Z := repeat 48 (4 - length c) ++ c.

Fixpoint canon_chunks (chunks : list (list Z)) (l : nat) (seen_empty : bool) : res (list Z * bool) :=
  match chunks with
  | [] => Ok ([], seen_empty)
  | c :: r =>
      match c with
      | [] =>
          if seen_empty then Lib eSyntax
          else do rs <- canon_chunks r l true;
               Ok (concat (repeat [48; 48; 48; 48] (8 - l + 1)) ++ fst rs, snd rs)
      | _ =>
          if Nat.ltb 4 (length c) then Lib eSyntax
          else do rs <- canon_chunks r l seen_empty; Ok (pad4 c ++ fst rs, snd rs)
      end
  end.

Definition ipv6_aton_b (b : list Z) : res (list Z) :=
  if is_nil b then Lib eSyntax
  else if ends_with [58] b && negb (ends_with [58; 58] b) then Lib eSyntax
  else if starts_with [58] b && negb (starts_with [58; 58] b) then Lib eSyntax
  else
    let b := if zlist_eqb b [58; 58] then [48; 58; 58] else b in
    (* the dotted-quad ending *)
    do b <-
       (match split_last_colon b with
        | Some (pre, quad) =>
            if is_dotted_quad quad then
              do v <- ipv4_aton_b quad;
              match v with
              | [v0; v1; v2; v3] => Ok (pre ++ 58 :: hex2 v0 ++ hex2 v1 ++ 58 :: hex2 v2 ++ hex2 v3)
              | _ => Lib eSyntax
              end
            else Ok b
        | None => Ok b
        end);
    let b := if starts_with [58; 58] b then tl b
             else if ends_with [58; 58] b then removelast b else b in
    let chunks := split_on 58 b [] in
    let l := length chunks in
    if Nat.ltb 8 l then Lib eSyntax
    else
      do cs <- canon_chunks chunks l false;
      if Nat.ltb l 8 && negb (snd cs) then Lib eSyntax
      else match unhexlify (fst cs) with
           | Ok d => Ok d
           | _ => Lib eSyntax
           end.

Definition ipv6_aton (t : list Z) : res (list Z) := do b <- utf8_encode t; ipv6_aton_b b.


(* dns.dnssectypes.Algorithm: mnemonics (dns.enum.IntEnum.from_text: upper-cased name, else a decimal
   number within 0..255) *)
Definition alg_table : list (list Z * Z) :=
  [([82;83;65;77;68;53], 1); ([68;72], 2); ([68;83;65], 3); ([69;67;67], 4); ([82;83;65;83;72;65;49], 5);
   ([68;83;65;78;83;69;67;51;83;72;65;49], 6); ([82;83;65;83;72;65;49;78;83;69;67;51;83;72;65;49], 7);
   ([82;83;65;83;72;65;50;53;54], 8); ([82;83;65;83;72;65;53;49;50], 10); ([69;67;67;71;79;83;84], 12);
   ([69;67;68;83;65;80;50;53;54;83;72;65;50;53;54], 13); ([69;67;68;83;65;80;51;56;52;83;72;65;51;56;52], 14);
   ([69;68;50;53;53;49;57], 15); ([69;68;52;52;56], 16); ([73;78;68;73;82;69;67;84], 252);
   ([80;82;73;86;65;84;69;68;78;83], 253); ([80;82;73;86;65;84;69;79;73;68], 254)].

Fixpoint assoc_text (k : list Z) (t : list (list Z * Z)) : option Z :=
  match t with
  | [] => None
  | (n, v) :: r => if zlist_eqb k n then Some v else assoc_text k r
  end.

Definition upper_c (c : Z) : Z := if (97 <=? c) && (c <=? 122) then c - 32 else c.

Definition alg_from_text (t : list Z) : res Z :=
  let u := map upper_c t in
  match assoc_text u alg_table with
  | Some v => Ok v
  | None =>
      if negb (is_nil u) && forallb is_decimal u then
        let v := dec_value u 0 in
        if v >? 255 then Internal iValueError else Ok v
      else Internal iValueError
  end.

(* bytes.isalnum() *)
Definition is_alnum (c : Z) : bool :=
  ((48 <=? c) && (c <=? 57)) || ((65 <=? c) && (c <=? 90)) || ((97 <=? c) && (c <=? 122)).

(* ---------- dns/rdatatype.py: type mnemonics (dns.enum.IntEnum.to_text / from_text) ---------- *)
(* dns.rdatatype.RdataType members in definition order (aliases included), names as in the enum *)
Definition rdtype_names : list (list Z * Z) :=
  [([84; 89; 80; 69; 48], 0);
   ([78; 79; 78; 69], 0);
   ([65], 1);
   ([78; 83], 2);
   ([77; 68], 3);
   ([77; 70], 4);
   ([67; 78; 65; 77; 69], 5);
   ([83; 79; 65], 6);
   ([77; 66], 7);
   ([77; 71], 8);
   ([77; 82], 9);
   ([78; 85; 76; 76], 10);
   ([87; 75; 83], 11);
   ([80; 84; 82], 12);
   ([72; 73; 78; 70; 79], 13);
   ([77; 73; 78; 70; 79], 14);
   ([77; 88], 15);
   ([84; 88; 84], 16);
   ([82; 80], 17);
   ([65; 70; 83; 68; 66], 18);
   ([88; 50; 53], 19);
   ([73; 83; 68; 78], 20);
   ([82; 84], 21);
   ([78; 83; 65; 80], 22);
   ([78; 83; 65; 80; 95; 80; 84; 82], 23);
   ([83; 73; 71], 24);
   ([75; 69; 89], 25);
   ([80; 88], 26);
   ([71; 80; 79; 83], 27);
   ([65; 65; 65; 65], 28);
   ([76; 79; 67], 29);
   ([78; 88; 84], 30);
   ([83; 82; 86], 33);
   ([78; 65; 80; 84; 82], 35);
   ([75; 88], 36);
   ([67; 69; 82; 84], 37);
   ([65; 54], 38);
   ([68; 78; 65; 77; 69], 39);
   ([79; 80; 84], 41);
   ([65; 80; 76], 42);
   ([68; 83], 43);
   ([83; 83; 72; 70; 80], 44);
   ([73; 80; 83; 69; 67; 75; 69; 89], 45);
   ([82; 82; 83; 73; 71], 46);
   ([78; 83; 69; 67], 47);
   ([68; 78; 83; 75; 69; 89], 48);
   ([68; 72; 67; 73; 68], 49);
   ([78; 83; 69; 67; 51], 50);
   ([78; 83; 69; 67; 51; 80; 65; 82; 65; 77], 51);
   ([84; 76; 83; 65], 52);
   ([83; 77; 73; 77; 69; 65], 53);
   ([72; 73; 80], 55);
   ([78; 73; 78; 70; 79], 56);
   ([67; 68; 83], 59);
   ([67; 68; 78; 83; 75; 69; 89], 60);
   ([79; 80; 69; 78; 80; 71; 80; 75; 69; 89], 61);
   ([67; 83; 89; 78; 67], 62);
   ([90; 79; 78; 69; 77; 68], 63);
   ([83; 86; 67; 66], 64);
   ([72; 84; 84; 80; 83], 65);
   ([68; 83; 89; 78; 67], 66);
   ([72; 72; 73; 84], 67);
   ([66; 82; 73; 68], 68);
   ([83; 80; 70], 99);
   ([85; 78; 83; 80; 69; 67], 103);
   ([78; 73; 68], 104);
   ([76; 51; 50], 105);
   ([76; 54; 52], 106);
   ([76; 80], 107);
   ([69; 85; 73; 52; 56], 108);
   ([69; 85; 73; 54; 52], 109);
   ([78; 88; 78; 65; 77; 69], 128);
   ([84; 75; 69; 89], 249);
   ([84; 83; 73; 71], 250);
   ([73; 88; 70; 82], 251);
   ([65; 88; 70; 82], 252);
   ([77; 65; 73; 76; 66], 253);
   ([77; 65; 73; 76; 65], 254);
   ([65; 78; 89], 255);
   ([85; 82; 73], 256);
   ([67; 65; 65], 257);
   ([65; 86; 67], 258);
   ([65; 77; 84; 82; 69; 76; 65; 89], 260);
   ([82; 69; 83; 73; 78; 70; 79], 261);
   ([87; 65; 76; 76; 69; 84], 262);
   ([84; 65], 32768);
   ([68; 76; 86], 32769)].

Definition eUnknownRdatatype := 25.   (* dns.rdatatype.UnknownRdatatype (a DNSException, not a SyntaxError) *)

Fixpoint assoc_value (v : Z) (t : list (list Z * Z)) : option (list Z) :=
  match t with
  | [] => None
  | (n, x) :: r => if x =? v then Some n else assoc_value v r
  end.

Definition replace_char (a b : Z) (s : list Z) : list Z := map (fun c => if c =? a then b else c) s.

(* RdataType.to_text(value): the member name ('_' printed as '-') or TYPEnnn *)
Definition rdtype_to_text (v : Z) : res (list Z) :=
  if (v <? 0) || (v >? 65535) then Internal iValueError
  else match assoc_value v rdtype_names with
       | Some n => Ok (replace_char 95 45 n)
       | None => Ok ([84; 89; 80; 69] ++ dec v)
       end.

(* RdataType.from_text(text) for ASCII text *)
Definition rdtype_from_text (t : list Z) : res Z :=
  let u := map upper_c t in
  match assoc_text u rdtype_names with
  | Some v => Ok v
  | None =>
      match (if existsb (Z.eqb 45) u then assoc_text (replace_char 45 95 u) rdtype_names else None) with
      | Some v => Ok v
      | None =>
          if starts_with [84; 89; 80; 69] u && negb (is_nil (skipn 4 u)) && forallb is_decimal (skipn 4 u) then
            let v := dec_value (skipn 4 u) 0 in
            if v >? 65535 then Internal iValueError else Ok v
          else Lib eUnknownRdatatype
      end
  end.

(* ---------- dns/rdtypes/util.py Bitmap (NSEC / NSEC3 / CSYNC type bitmaps) ---------- *)
Definition bwindow := (Z * list Z)%type.

(* Bitmap.to_text: the types whose bits are set, in the order they are printed;
   byte & (0x80 >> j)  is bit 7-j of the octet *)
Definition bit_set (byte j : Z) : bool := Z.testbit byte (7 - j).

Definition byte_types (base byte : Z) : list Z :=
  flat_map (fun j => if bit_set byte j then [base + j] else []) [0; 1; 2; 3; 4; 5; 6; 7].

Fixpoint window_types (window i : Z) (bitmap : list Z) : list Z :=
  match bitmap with
  | [] => []
  | b :: r => byte_types (window * 256 + i * 8) b ++ window_types window (i + 1) r
  end.

Definition bitmap_types (ws : list bwindow) : list Z :=
  flat_map (fun w => window_types (fst w) 0 (snd w)) ws.

(* sorted(rdtypes) *)
Fixpoint insert_sorted (x : Z) (l : list Z) : list Z :=
  match l with
  | [] => [x]
  | y :: r => if x <=? y then x :: l else y :: insert_sorted x r
  end.
Definition sort_z (l : list Z) : list Z := fold_right insert_sorted [] l.

Fixpoint set_nth (i : nat) (f : Z -> Z) (l : list Z) : list Z :=
  match l, i with
  | [], _ => []
  | x :: r, O => f x :: r
  | x :: r, S k => x :: set_nth k f r
  end.

(* the loop of Bitmap.from_rdtypes; state: window, octets, prior_rdtype, bitmap (32 octets), windows *)
Fixpoint frt_loop (ts : list Z) (window octets prior : Z) (bitmap : list Z) (acc : list bwindow)
  : Z * Z * list Z * list bwindow :=
  match ts with
  | [] => (window, octets, bitmap, acc)
  | t :: r =>
      if t =? prior then frt_loop r window octets prior bitmap acc
      else
        let nw := t / 256 in
        let acc1 := if negb (nw =? window) && negb (octets =? 0)
                    then acc ++ [(window, firstn (Z.to_nat octets) bitmap)] else acc in
        let bitmap1 := if negb (nw =? window) then repeat 0 32 else bitmap in
        let offset := t mod 256 in
        let byte := offset / 8 in
        let bit := offset mod 8 in
        frt_loop r nw (byte + 1) t
                 (set_nth (Z.to_nat byte) (fun x => Z.lor x (Z.shiftr 128 bit)) bitmap1) acc1
  end.

Definition from_rdtypes (ts : list Z) : list bwindow :=
  let '(window, octets, bitmap, acc) := frt_loop (sort_z ts) 0 0 0 (repeat 0 32) [] in
  if negb (octets =? 0) then acc ++ [(window, firstn (Z.to_nat octets) bitmap)] else acc.

(* Bitmap.to_text: for every window a blank followed by the blank-separated mnemonics *)
Fixpoint join_sp (l : list (list Z)) : list Z :=
  match l with
  | [] => []
  | [x] => x
  | x :: r => x ++ 32 :: join_sp r
  end.

Fixpoint map_res {A B} (f : A -> res B) (l : list A) : res (list B) :=
  match l with
  | [] => Ok []
  | x :: r => do y <- f x; do ys <- map_res f r; Ok (y :: ys)
  end.

Fixpoint bitmap_to_text (ws : list bwindow) : res (list Z) :=
  match ws with
  | [] => Ok []
  | w :: r =>
      do names <- map_res rdtype_to_text (window_types (fst w) 0 (snd w));
      do t <- bitmap_to_text r;
      Ok (32 :: join_sp names ++ t)
  end.

(* Bitmap.from_text *)
Definition bitmap_token_type (t : token) : res Z :=
  do u <- unescape t;
  do v <- rdtype_from_text (tvalue u);
  if v =? 0 then Lib eSyntax else Ok v.

(* ---------- base32hex as used by NSEC3 (base64.b32encode/b32decode + the translation tables) ---------- *)
(* 5 octets -> 8 five-bit values; the last group is zero-filled and cut to ceil(8k/5) characters *)
Definition b32_group (b0 b1 b2 b3 b4 : Z) : list Z :=
  [b0 / 8; (b0 mod 8) * 4 + b1 / 64; (b1 / 2) mod 32; (b1 mod 2) * 16 + b2 / 16;
   (b2 mod 16) * 2 + b3 / 128; (b3 / 4) mod 32; (b3 mod 4) * 8 + b4 / 32; b4 mod 32].

Fixpoint b32_values (d : list Z) : list Z :=
  match d with
  | [] => []
  | [b0] => firstn 2 (b32_group b0 0 0 0 0)
  | [b0; b1] => firstn 4 (b32_group b0 b1 0 0 0)
  | [b0; b1; b2] => firstn 5 (b32_group b0 b1 b2 0 0)
  | [b0; b1; b2; b3] => firstn 7 (b32_group b0 b1 b2 b3 0)
  | b0 :: b1 :: b2 :: b3 :: b4 :: r => b32_group b0 b1 b2 b3 b4 ++ b32_values r
  end.

(* NSEC3._next_text: b32encode, translate to the hex alphabet, lower(), rstrip("=") *)
Definition b32hex_encode (d : list Z) : list Z := map hexdigit (b32_values d).

(* value of a character after .upper().translate(b32_hex_to_normal) in the standard base32 alphabet:
   0-9 and A-V are the base32hex digits; W-Z are not translated and are letters of the standard alphabet *)
Definition b32hex_val (c : Z) : option Z :=
  let c := upper_c c in
  if (48 <=? c) && (c <=? 57) then Some (c - 48)
  else if (65 <=? c) && (c <=? 86) then Some (c - 55)
  else if (87 <=? c) && (c <=? 90) then Some (c - 65)
  else None.

Fixpoint opt_map {A B} (f : A -> option B) (l : list A) : option (list B) :=
  match l with
  | [] => Some []
  | x :: r => match f x, opt_map f r with Some y, Some ys => Some (y :: ys) | _, _ => None end
  end.

Definition b32_bytes (v0 v1 v2 v3 v4 v5 v6 v7 : Z) : list Z :=
  [v0 * 8 + v1 / 4; (v1 mod 4) * 64 + v2 * 2 + v3 / 16; (v3 mod 16) * 16 + v4 / 2;
   (v4 mod 2) * 128 + v5 * 4 + v6 / 8; (v6 mod 8) * 32 + v7].

(* full groups of 8 values, then the partial group: 2, 4, 5 or 7 values give 1, 2, 3 or 4 octets *)
Fixpoint b32_decode_values (vs : list Z) : res (list Z) :=
  match vs with
  | [] => Ok []
  | v0 :: v1 :: v2 :: v3 :: v4 :: v5 :: v6 :: v7 :: r =>
      do t <- b32_decode_values r; Ok (b32_bytes v0 v1 v2 v3 v4 v5 v6 v7 ++ t)
  | [v0; v1] => Ok (firstn 1 (b32_bytes v0 v1 0 0 0 0 0 0))
  | [v0; v1; v2; v3] => Ok (firstn 2 (b32_bytes v0 v1 v2 v3 0 0 0 0))
  | [v0; v1; v2; v3; v4] => Ok (firstn 3 (b32_bytes v0 v1 v2 v3 v4 0 0 0))
  | [v0; v1; v2; v3; v4; v5; v6] => Ok (firstn 4 (b32_bytes v0 v1 v2 v3 v4 v5 v6 0))
  | _ => Internal iBinascii
  end.

(* NSEC3.from_text for the next field: .encode("ascii"), upper/translate, no trailing "=", pad, b32decode *)
Definition b32hex_decode (t : list Z) : res (list Z) :=
  if negb (forallb (fun c => (0 <=? c) && (c <? 128)) t) then Internal iUnicodeEncode
  else if ends_with [61] t then Internal iBinascii
  else match opt_map b32hex_val t with
       | Some vs => b32_decode_values vs
       | None => Internal iBinascii
       end.

(* ---------- mnemonic-or-number fields (DSYNC rrtype / scheme, CERT type / algorithm) ---------- *)
Definition ctype_table : list (list Z * Z) :=
  [([80; 75; 73; 88], 1);
   ([83; 80; 75; 73], 2);
   ([80; 71; 80], 3);
   ([73; 80; 75; 73; 88], 4);
   ([73; 83; 80; 75; 73], 5);
   ([73; 80; 71; 80], 6);
   ([65; 67; 80; 75; 73; 88], 7);
   ([73; 65; 67; 80; 75; 73; 88], 8);
   ([85; 82; 73], 253);
   ([79; 73; 68], 254)].

Definition notify_name : list Z := [78; 79; 84; 73; 70; 89].

Definition enum_max (k : enum_kind) : Z :=
  match k with KType | KCtype => 65535 | KScheme | KAlgMn | KAlgNum => 255 | KRcode => 4095 end.

(* dns.rcode.Rcode (members in definition order; BADSIG is an alias of BADVERS = 16) *)
Definition rcode_table : list (list Z * Z) :=
  [([78;79;69;82;82;79;82], 0); ([70;79;82;77;69;82;82], 1); ([83;69;82;86;70;65;73;76], 2); ([78;88;68;79;77;65;73;78], 3);
   ([78;79;84;73;77;80], 4); ([82;69;70;85;83;69;68], 5); ([89;88;68;79;77;65;73;78], 6); ([89;88;82;82;83;69;84], 7);
   ([78;88;82;82;83;69;84], 8); ([78;79;84;65;85;84;72], 9); ([78;79;84;90;79;78;69], 10); ([68;83;79;84;89;80;69;78;73], 11);
   ([66;65;68;86;69;82;83], 16); ([66;65;68;83;73;71], 16); ([66;65;68;75;69;89], 17); ([66;65;68;84;73;77;69], 18);
   ([66;65;68;77;79;68;69], 19); ([66;65;68;78;65;77;69], 20); ([66;65;68;65;76;71], 21); ([66;65;68;84;82;85;78;67], 22);
   ([66;65;68;67;79;79;75;73;69], 23)].

(* dns.rcode.from_text = Rcode.from_text (dns.enum.IntEnum): upper-cased member name, else a decimal number
   within 0..4095; UnknownRcode / ValueError are both outside the SyntaxError family *)
Definition rcode_from_text (t : list Z) : res Z :=
  let u := map upper_c t in
  match assoc_text u rcode_table with
  | Some v => Ok v
  | None =>
      if negb (is_nil u) && forallb is_decimal u then
        let v := dec_value u 0 in
        if v >? 4095 then Internal iValueError else Ok v
      else Lib eUnknownRdatatype
  end.

(* to_text side *)
Definition enum_print (k : enum_kind) (v : Z) : res (list Z) :=
  match k with
  | KType => rdtype_to_text v                                   (* dns.rdatatype.to_text *)
  | KScheme => Ok (if v =? 1 then notify_name else dec v)       (* DSYNC Scheme.to_text *)
  | KCtype => Ok (match assoc_value v ctype_table with Some n => n | None => dec v end)   (* CERT _ctype_to_text *)
  | KAlgMn => Ok (match assoc_value v alg_table with Some n => n | None => dec v end)     (* Algorithm.to_text *)
  | KAlgNum => Ok (dec v)                                       (* f"{self.algorithm}" *)
  | KRcode =>                                                   (* dns.rcode.to_text(value, tsig=True) *)
      Ok (if v =? 16 then [66;65;68;83;73;71]
          else match assoc_value v rcode_table with Some n => n | None => dec v end)
  end.

(* from_text side, at token time *)
Definition enum_parse (k : enum_kind) (t : list Z) : res Z :=
  match k with
  | KType => rdtype_from_text t
  | KScheme =>
      let u := map upper_c t in
      if zlist_eqb u notify_name then Ok 1
      else if negb (is_nil u) && forallb is_decimal u then
             let v := dec_value u 0 in if v >? 255 then Internal iValueError else Ok v
           else Lib eUnknownRdatatype   (* UnknownScheme: a DNSException outside the SyntaxError family *)
  | KCtype =>
      match assoc_text t ctype_table with
      | Some v => Ok v
      | None => match py_int 10 t with Some v => Ok v | None => Internal iValueError end
      end
  | KAlgMn => alg_from_text t
  | KAlgNum => alg_from_text t
  | KRcode => rcode_from_text t
  end.

(* constructor range check *)
Definition enum_ctor (k : enum_kind) (v : Z) : res Z :=
  if (v <? 0) || (v >? enum_max k) then Internal iValueError else Ok v.

(* ---------- RRSIG / SIG signature times (dns/rdtypes/rrsigbase.py) ---------- *)
(* time.gmtime(t) + time.strftime("%Y%m%d%H%M%S"): proleptic Gregorian date of day number z
   (days since 1970-01-01), the usual civil-from-days algorithm of the C library *)
Definition civil_from_days (z : Z) : Z * Z * Z :=
  let z := z + 719468 in
  let era := z / 146097 in
  let doe := z - era * 146097 in
  let yoe := (doe - doe / 1460 + doe / 36524 - doe / 146096) / 365 in
  let y := yoe + era * 400 in
  let doy := doe - (365 * yoe + yoe / 4 - yoe / 100) in
  let mp := (5 * doy + 2) / 153 in
  let d := doy - (153 * mp + 2) / 5 + 1 in
  let m := if mp <? 10 then mp + 3 else mp - 9 in
  ((if m <=? 2 then y + 1 else y), m, d).

(* zero-padded decimal of the given width (the value fits) *)
Fixpoint pad_dec (width : nat) (n : Z) : list Z :=
  match width with
  | O => []
  | S w => pad_dec w (n / 10) ++ [48 + n mod 10]
  end.

Definition posixtime_to_sigtime (t : Z) : list Z :=
  let '(y, m, d) := civil_from_days (t / 86400) in
  let r := t mod 86400 in
  pad_dec 4 y ++ pad_dec 2 m ++ pad_dec 2 d ++ pad_dec 2 (r / 3600) ++ pad_dec 2 ((r mod 3600) / 60) ++ pad_dec 2 (r mod 60).

(* datetime.date(year, month, 1).toordinal() *)
Definition is_leap (y : Z) : bool := ((y mod 4 =? 0) && negb (y mod 100 =? 0)) || (y mod 400 =? 0).
Definition days_before_year (year : Z) : Z := let y := year - 1 in y * 365 + y / 4 - y / 100 + y / 400.
Definition days_before_month (year month : Z) : Z :=
  nth (Z.to_nat month) [-1; 0; 31; 59; 90; 120; 151; 181; 212; 243; 273; 304; 334] 0
  + (if (month >? 2) && is_leap year then 1 else 0).

Definition sub_list (a b : nat) (s : list Z) : list Z := firstn (b - a) (skipn a s).

(* sigtime_to_posixtime; BadSigTime is a DNSException outside the SyntaxError family, ValueError comes from
   int() and datetime.date() *)
Definition sigtime_to_posixtime (w : list Z) : res Z :=
  if Nat.leb (length w) 10 && negb (is_nil w) && forallb is_decimal w then Ok (dec_value w 0)
  else if negb (Nat.eqb (length w) 14) then Lib eUnknownRdatatype
  else
    match py_int 10 (sub_list 0 4 w), py_int 10 (sub_list 4 6 w), py_int 10 (sub_list 6 8 w),
          py_int 10 (sub_list 8 10 w), py_int 10 (sub_list 10 12 w), py_int 10 (sub_list 12 14 w) with
    | Some year, Some month, Some day, Some hour, Some minute, Some second =>
        if (year <? 1) || (year >? 9999) || (month <? 1) || (month >? 12) then Internal iValueError
        else
          let days := days_before_year year + days_before_month year month + 1 - 719163 + day - 1 in
          Ok (((days * 24 + hour) * 60 + minute) * 60 + second)
    | _, _, _, _, _, _ => Internal iValueError
    end.

(* EUIBase (dns/rdtypes/euibase.py): to_styled_text is _hexify(eui, 2, "-"); from_text checks the length
   of the text, the dashes at positions 2, 5, 8, ... (here: every third character; the same positions once
   the length is 3n-1), removes every dash and unhexlifies (ValueError -> SyntaxError); the constructor
   checks the number of octets (FormError) *)
Definition eui_to_text (b : list Z) : list Z := wordbreak (hexlify b) 2 [45].

Fixpoint eui_dashes_ok (t : list Z) : bool :=
  match t with
  | _ :: _ :: c :: r => (c =? 45) && eui_dashes_ok r
  | _ => true
  end.

Definition eui_from_text (n : nat) (t : list Z) : res (list Z) :=
  if negb (Nat.eqb (length t) (3 * n - 1)) then Lib eSyntax
  else if negb (eui_dashes_ok t) then Lib eSyntax
  else
    match (do e <- utf8_encode (filter (fun c => negb (c =? 45)) t); unhexlify e) with
    | Ok d => Ok d
    | _ => Lib eSyntax
    end.

(* dns.rdtypes.util.parse_formatted_hex(formatted, 4, 4, ":") as a check (NID and L64 keep the text itself
   and only validate it): 19 characters, four groups of hexadecimal digits (fix 18da675: digits only, not
   everything int(.., 16) accepts) followed by ":" except after the last one *)
Definition is_hexdigit (c : Z) : bool :=
  ((48 <=? c) && (c <=? 57)) || ((97 <=? c) && (c <=? 102)) || ((65 <=? c) && (c <=? 70)).

Fixpoint pfh_loop (n : nat) (t : list Z) : bool :=
  match n with
  | O => true
  | S n' =>
      let chunk := firstn 4 t in
      if is_nil chunk || negb (forallb is_hexdigit chunk) then false
      else
        let t1 := skipn 4 t in
        match t1 with
        | [] => pfh_loop n' []
        | c :: t2 => if c =? 58 then pfh_loop n' t2 else false
        end
  end.

Definition fmthex_ok (t : list Z) : bool := Nat.eqb (length t) 19 && pfh_loop 4 t.

(* the text the constructors build from 8 octets: _hexify(value, 4, ":") *)
Definition fmthex_of_bytes (b : list Z) : list Z := wordbreak (hexlify b) 4 [58].

(* NSAP.from_text *)
Definition nsap_from_text (t : list Z) : res (list Z) :=
  if negb (starts_with [48; 120] t) then Lib eSyntax
  else
    let h := filter (fun c => negb (c =? 46)) (skipn 2 t) in
    if negb (Nat.even (length h)) then Lib eSyntax
    else do e <- utf8_encode h; unhexlify e.

Fixpoint split_once (sep : Z) (s : list Z) : option (list Z * list Z) :=     (* s.split(sep, 1) with two results *)
  match s with
  | [] => None
  | c :: r => if c =? sep then Some ([], r)
              else match split_once sep r with Some (a, b) => Some (c :: a, b) | None => None end
  end.

(* ================================================================== IEEE-754 binary64 (CPython float) *)
(* A finite double is (-1)^neg * m * 2^e with 0 <= m < 2^53 and -1074 <= e <= 971, normalised so that
   m >= 2^52 unless e = -1074 (subnormals and zero: zero is m = 0, e = -1074).  Only what LOC needs:
   correctly rounded (nearest, ties to even) conversion of a non-negative rational, * 100.0, / 100.0,
   round(), int(), format(x, "0.2f"). *)
Definition p52 : Z := 4503599627370496.
Definition p53 : Z := 9007199254740992.

(* round-half-even of sn / sd (sn >= 0, sd > 0) *)
Definition rdiv_even (sn sd : Z) : Z :=
  let q := sn / sd in
  let r := sn mod sd in
  if (2 * r >? sd) || ((2 * r =? sd) && Z.odd q) then q + 1 else q.

(* the scaled quotient for exponent e: n / (d * 2^e) as numerator and denominator *)
Definition scaled (n d e : Z) : Z * Z := if e >=? 0 then (n, d * 2 ^ e) else (n * 2 ^ (- e), d).

(* the exponent e with 2^52 <= n / (d 2^e) < 2^53 (for n, d > 0), not below -1074 *)
Definition pick_exp (n d : Z) : Z :=
  let e0 := Z.log2 n - Z.log2 d - 52 in
  let fits e := let '(sn, sd) := scaled n d e in (p52 * sd <=? sn) && (sn <? p53 * sd) in
  let e := if fits (e0 - 1) then e0 - 1 else if fits e0 then e0 else e0 + 1 in
  Z.max e (-1074).

Definition round_q (neg : bool) (n d : Z) : fval :=
  if n =? 0 then FFin (mkD neg 0 (-1074))
  else
    let e := pick_exp n d in
    let '(sn, sd) := scaled n d e in
    let m := rdiv_even sn sd in
    let '(m, e) := if m =? p53 then (p52, e + 1) else (m, e) in
    if e >? 971 then FInf neg else FFin (mkD neg m e).

(* the value as numerator / denominator *)
Definition dbl_q (x : dbl) : Z * Z := if de x >=? 0 then (dm x * 2 ^ de x, 1) else (dm x, 2 ^ (- de x)).

Definition fmul100 (x : fval) : fval :=
  match x with
  | FFin d => let '(n, q) := dbl_q d in round_q (dneg d) (n * 100) q
  | FInf s => FInf s
  end.

Definition fdiv100 (d : dbl) : fval := let '(n, q) := dbl_q d in round_q (dneg d) n (q * 100).

(* round(x): nearest integer, ties to even; int(x): toward zero *)
Definition dbl_round (d : dbl) : Z := let '(n, q) := dbl_q d in let r := rdiv_even n q in if dneg d then - r else r.
Definition dbl_trunc (d : dbl) : Z := let '(n, q) := dbl_q d in let r := n / q in if dneg d then - r else r.

(* float(i) for an integer (exact below 2^53, rounded above) *)
Definition dbl_of_Z (z : Z) : fval := round_q (z <? 0) (Z.abs z) 1.

(* format(x, "0.2f") *)
Definition pad2 (z : Z) : list Z := [48 + z / 10; 48 + z mod 10].
Definition format_2f (d : dbl) : list Z :=
  let '(n, q) := dbl_q d in
  let r := rdiv_even (n * 100) q in
  (if dneg d then [45] else []) ++ dec (r / 100) ++ [46] ++ pad2 (r mod 100).

(* float(text) for [+-]digits[.digits] / [+-].digits; every other spelling float() accepts (exponents, inf, nan,
   underscores, blanks) is outside the model *)
Definition float_of_text (t : list Z) : res fval :=
  let '(neg, body) := match t with
                      | c :: r => if c =? 45 then (true, r) else if c =? 43 then (false, r) else (false, t)
                      | [] => (false, t)
                      end in
  match split_once 46 body with
  | None =>
      if negb (is_nil body) && forallb is_decimal body then Ok (round_q neg (dec_value body 0) 1)
      else Internal iNotModelled
  | Some (ip, fp) =>
      if forallb is_decimal ip && forallb is_decimal fp && negb (is_nil ip && is_nil fp)
      then Ok (round_q neg (dec_value (ip ++ fp) 0) (10 ^ zlen fp))
      else Internal iNotModelled
  end.

Definition dbl_eqb (a b : dbl) : bool :=
  (dm a =? dm b) && (de a =? de b) && (Bool.eqb (dneg a) (dneg b) || (dm a =? 0)).

(* dns/rdtypes/IN/WKS.py: bitmap[i] |= 0x80 >> (serv % 8) after growing the bytearray to i + 1 octets *)
Definition wks_set (bm : list Z) (serv : Z) : list Z :=
  let i := serv / 8 in
  let l := zlen bm in
  let bm1 := if l <? i + 1 then bm ++ repeat 0 (Z.to_nat (i + 1 - l)) else bm in
  set_nth (Z.to_nat i) (fun x => Z.lor x (Z.shiftr 128 (serv mod 8))) bm1.

Definition wks_token_port (t : token) : res Z :=
  do u <- unescape t;
  let v := tvalue u in
  if negb (is_nil v) && forallb is_decimal v then
    let serv := dec_value v 0 in
    if (serv <? 0) || (serv >? 65535) then Lib eSyntax else Ok serv
  else Internal iNotModelled.      (* socket.getservbyname *)

(* the ports of a bitmap in the order WKS.to_text lists them *)
Definition wks_ports (bm : list Z) : list Z := window_types 0 0 bm.

(* dns/rdtypes/IN/APL.py *)
Definition aplitem := (Z * bool * list Z * Z)%type.

(* APLItem.__init__ *)
Definition apl_ctor (family : Z) (neg : bool) (addr : list Z) (prefix : Z) : res aplitem :=
  if (family <? 0) || (family >? 65535) then Internal iValueError
  else if family =? 1 then
    do b <- ipv4_aton addr;
    if (prefix <? 0) || (prefix >? 32) then Internal iValueError else Ok (family, neg, b, prefix)
  else if family =? 2 then
    do b <- ipv6_aton addr;
    if (prefix <? 0) || (prefix >? 128) then Internal iValueError else Ok (family, neg, b, prefix)
  else
    do e <- utf8_encode addr;
    if zlen e >? 127 then Internal iValueError
    else do _ <- unhexlify e;
         if (prefix <? 0) || (prefix >? 255) then Internal iValueError else Ok (family, neg, e, prefix).

(* one token of APL.from_text (all its failures are IndexError / ValueError / SyntaxError) *)
Definition apl_item_of_token (t : token) : res aplitem :=
  do u <- unescape t;
  match tvalue u with
  | [] => Internal iIndexError
  | c :: r =>
      let neg := c =? 33 in
      let item := if neg then r else c :: r in
      match split_once 58 item with
      | None => Internal iValueError
      | Some (fam, rest) =>
          match py_int 10 fam with
          | None => Internal iValueError
          | Some family =>
              match split_once 47 rest with
              | None => Internal iValueError
              | Some (addr, pfx) =>
                  match py_int 10 pfx with
                  | None => Internal iValueError
                  | Some prefix => apl_ctor family neg addr prefix
                  end
              end
          end
      end
  end.

Definition apl_item_text (it : aplitem) : res (list Z) :=
  let '(family, neg, addr, prefix) := it in
  do a <- (if family =? 1 then ipv4_ntoa addr else if family =? 2 then ipv6_ntoa addr else Ok addr);
  Ok ((if neg then [33] else []) ++ dec family ++ [58] ++ a ++ [47] ++ dec prefix).

(* ---------- printing ---------- *)
(* Name.to_styled_text(style) with idna_codec None, omit_final_dot False *)
Definition name_to_styled_text (st : style) (n : name) : res (list Z) :=
  do n1 <- choose_relativity n (s_origin st) (s_relativize st);
  Ok (NameM.to_text n1).

(* ---------- dns/rdtypes/ANY/LOC.py: to_styled_text ---------- *)
Definition the_dbl (x : fval) : dbl := match x with FFin d => d | FInf s => mkD s 0 (-1074) end.
Definition loc_default_size : dbl := the_dbl (round_q false 100 1).
Definition loc_default_hprec : dbl := the_dbl (round_q false 1000000 1).
Definition loc_default_vprec : dbl := the_dbl (round_q false 1000 1).

Definition pad3 (z : Z) : list Z := if z <? 10 then [48; 48] ++ dec z else if z <? 100 then 48 :: dec z else dec z.

Definition coord_text (cd : Z * Z * Z * Z * Z) (pos neg : Z) : list Z :=
  let '(d, m, s, ms, sign) := cd in
  dec d ++ [32] ++ dec m ++ [32] ++ dec s ++ [46] ++ pad3 ms ++ [32] ++ [if sign >? 0 then pos else neg].

(* f"{x / 100.0:0.2f}m" *)
Definition meters_text (x : dbl) : list Z := format_2f (the_dbl (fdiv100 x)) ++ [109].

Definition loc_to_text (lat lon : Z * Z * Z * Z * Z) (alt : Z) (size hp vp : dbl) : list Z :=
  coord_text lat 78 83 ++ [32] ++ coord_text lon 69 87 ++ [32] ++ meters_text (the_dbl (dbl_of_Z alt))
  ++ (if dbl_eqb size loc_default_size && dbl_eqb hp loc_default_hprec && dbl_eqb vp loc_default_vprec then []
      else [32] ++ meters_text size ++ [32] ++ meters_text hp ++ [32] ++ meters_text vp).

(* ---------- SVCB / HTTPS: to_styled_text ---------- *)
(* svcbbase._escapify: comma and backslash *)
Definition svcb_escapify (b : list Z) : list Z :=
  flat_map (fun c => if (c =? 44) || (c =? 92) then [92; c] else [c]) b.

Fixpoint join_comma (l : list (list Z)) : list Z :=
  match l with
  | [] => []
  | [x] => x
  | x :: r => x ++ 44 :: join_comma r
  end.

(* ParamKey members (upper case, as in the enum) *)
Definition svcb_keys : list (list Z * Z) :=
  [([77;65;78;68;65;84;79;82;89], 0); ([65;76;80;78], 1); ([78;79;95;68;69;70;65;85;76;84;95;65;76;80;78], 2);
   ([80;79;82;84], 3); ([73;80;86;52;72;73;78;84], 4); ([69;67;72], 5); ([73;80;86;54;72;73;78;84], 6);
   ([68;79;72;80;65;84;72], 7); ([79;72;84;84;80], 8); ([68;79;67;80;65;84;72], 10)].

(* key_to_text: ParamKey.to_text(key).replace("_", "-").lower() *)
Definition svcb_key_text (k : Z) : list Z :=
  match assoc_value k svcb_keys with
  | Some n => map lower_c (replace_char 95 45 n)
  | None => [107; 101; 121] ++ dec k
  end.

(* Param.to_text *)
Definition pval_text (v : pval) : res (option (list Z)) :=
  match v with
  | PNone => Ok None
  | PKeys l => Ok (Some (34 :: join_comma (map svcb_key_text l) ++ [34]))
  | PStrs ids => Ok (Some (quote (join_comma (map svcb_escapify ids))))
  | PPort p => Ok (Some (34 :: dec p ++ [34]))
  | PAddrs v6 l => do ts <- map_res (if v6 then ipv6_ntoa else ipv4_ntoa) l; Ok (Some (34 :: join_comma ts ++ [34]))
  | PEch b => Ok (Some (34 :: b64encode b ++ [34]))
  | PGen b => Ok (Some (quote b))
  end.

Definition svcb_param_text (kv : Z * pval) : res (list Z) :=
  do t <- pval_text (snd kv);
  Ok (svcb_key_text (fst kv) ++ match t with Some x => 61 :: x | None => [] end).

(* SVCBBase.to_styled_text (the params are kept sorted by key) *)
Definition svcb_to_text (st : style) (prio : Z) (target : name) (params : list (Z * pval)) : res (list Z) :=
  do tgt <- name_to_styled_text st target;
  do ps <- map_res svcb_param_text params;
  Ok (dec prio ++ [32] ++ tgt ++ flat_map (fun p => 32 :: p) ps).

Definition print_field (st : style) (f : tfield) (v : tval) : res (list Z) :=
  match f, v with
  | FDec _, VInt z => Ok (dec z)
  | FTtl, VInt z => Ok (dec z)
  | FQStr _ _ _, VBytes b => Ok (quote b)
  | FName, VName n => name_to_styled_text st n
  | FHexRest, VBytes b => Ok (styled_hexify b (s_hex_chunk st) (s_hex_sep st))
  | FB64Rest c, VBytes b => Ok (styled_base64ify b (if c then s_b64_chunk st else 0) (s_b64_sep st))
  | FTxtRest, VStrs l => Ok (txt_to_text_style (s_txt_utf8 st) l)
  | FAddr v6, VBytes b => if v6 then ipv6_ntoa b else ipv4_ntoa b
  | FHexTok, VBytes b => Ok (if is_nil b then [45] else hexlify b)
  | FAlg, VInt z => Ok (dec z)
  | FTag, VBytes b => Ok (escapify b)
  | FBitmap, VWindows ws => bitmap_to_text ws
  | FB32, VBytes b => Ok (b32hex_encode b)
  | FEnum k, VInt z => enum_print k z
  | FNsap, VBytes b => Ok ([48; 120] ++ hexlify b)
  | FIntC _, VInt z => Ok (dec z)
  | FSigTime, VInt z => Ok (posixtime_to_sigtime z)
  | FEui _, VBytes b => Ok (eui_to_text b)
  | FFmtHex, VBytes t => Ok t
  | FOct16, VInt z => Ok (print_base 8 z)
  | FQOpt, VBytes b => Ok (if is_nil b then [] else 32 :: quote b)
  | FHexStr, VBytes b => Ok (hexlify b)
  | FB64Tok _, VBytes b => Ok (b64encode b)
  | FNamesRest, VNames l => do ts <- map_res (name_to_styled_text st) l; Ok (flat_map (fun t => 32 :: t) ts)
  | FNameNoRel, VName n => name_to_styled_text st n
  | FB64RestOpt, VBytes b => Ok (if is_nil b then [] else 32 :: b64encode b)
  | FGw ipsec, VGw g a gw =>
      do t <- match gw with
              | GwNone => Ok [46]
              | GwText t => Ok t
              | GwName n => name_to_styled_text st n
              end;
      Ok (dec g ++ [32] ++ (if ipsec then dec a ++ [32] else []) ++ t)
  | FB64RestE, VBytes b => Ok (styled_base64ify b (s_b64_chunk st) (s_b64_sep st))
  | FMac, VBytes b => Ok (dec (zlen b) ++ [32] ++ b64encode b)
  | FOther, VBytes b => Ok (dec (zlen b) ++ (if is_nil b then [] else 32 :: b64encode b))
  | FGposStr, VBytes b => Ok b          (* self.latitude.decode(): the validated strings are ASCII *)
  | FAplRest, VApl items => do ts <- map_res apl_item_text items; Ok (join_sp ts)
  | FSvcbRec, VSvcb p n ps => svcb_to_text st p n ps
  | FLocRec, VLoc lat lon alt sz hp vp => Ok (loc_to_text lat lon alt sz hp vp)
  | FAddr4S, VBytes b => ipv4_ntoa b
  | FWksProto, VInt z => Ok (dec z)
  | FWksPorts, VBytes bm => Ok (join_sp (map dec (wks_ports bm)))
  | FKeyRec, VKey f p a _ k =>          (* dnskeybase: f"{self.flags} {self.protocol} {self.algorithm} {key}" *)
      Ok (dec f ++ [32] ++ dec p ++ [32] ++ dec a ++ [32] ++ styled_base64ify k (s_b64_chunk st) (s_b64_sep st))
  | _, _ => Internal eBadCase
  end.

(* the texts of the bitmap and of the optional / list-valued last fields bring their own leading blank *)
Definition field_sep (f : tfield) : list Z :=
  match f with FBitmap | FQOpt | FNamesRest | FB64RestOpt => [] | _ => [32] end.
(* (FB64RestE keeps the blank: IPSECKEY prints "... gateway " even without key) *)

Fixpoint print_fields (st : style) (fs : list tfield) (vs : list tval) : res (list Z) :=
  match fs, vs with
  | [], [] => Ok []
  | [f], [v] => print_field st f v
  | f :: fs', v :: vs' =>
      do a <- print_field st f v; do b <- print_fields st fs' vs';
      Ok (a ++ (match fs' with f2 :: _ => field_sep f2 | [] => [32] end) ++ b)
  | _, _ => Internal eBadCase
  end.

(* ---------- parsing ---------- *)
(* `relativize_to or origin`: an empty Name is falsy *)
Definition relto_or_origin (c : pctx) : option name :=
  match p_relativize_to c with
  | Some (x :: r) => Some (x :: r)
  | _ => p_origin c
  end.

(* Tokenizer.as_name for ASCII text (non-ASCII text goes through the IDNA codec: not modelled) *)
Definition as_name (c : pctx) (t : token) : res name :=
  if negb (is_identifier t) then Lib eSyntax
  else
    do n <- NameM.from_text (tvalue t) (p_origin c);
    choose_relativity n (relto_or_origin c) (p_relativize c).

Definition get_name (c : pctx) (st : tstate) : res (name * tstate) :=
  do ts <- get0 st; do n <- as_name c (fst ts); Ok (n, snd ts).

Definition rest_bytes (decode : list Z -> res (list Z)) (st : tstate) : res (tval * tstate) :=
  do hs <- concatenate_remaining_identifiers st false;
  do b <- utf8_encode (fst hs);
  do d <- decode b;
  Ok (VBytes d, snd hs).

(* dns/rdtypes/ANY/KEY.py *)
Definition legacy_flags : list (list Z * Z) :=
  [([78;79;67;79;78;70], 16384); ([78;79;65;85;84;72], 32768); ([78;79;75;69;89], 49152); ([70;76;65;71;50], 8192);
   ([69;88;84;69;78;68], 4096); ([70;76;65;71;52], 2048); ([70;76;65;71;53], 1024); ([85;83;69;82], 0); ([90;79;78;69], 256);
   ([72;79;83;84], 512); ([78;84;89;80;51], 768); ([70;76;65;71;56], 128); ([70;76;65;71;57], 64); ([70;76;65;71;49;48], 32);
   ([70;76;65;71;49;49], 16); ([83;73;71;48], 0); ([83;73;71;49], 1); ([83;73;71;50], 2); ([83;73;71;51], 3); ([83;73;71;52], 4);
   ([83;73;71;53], 5); ([83;73;71;54], 6); ([83;73;71;55], 7); ([83;73;71;56], 8); ([83;73;71;57], 9); ([83;73;71;49;48], 10);
   ([83;73;71;49;49], 11); ([83;73;71;49;50], 12); ([83;73;71;49;51], 13); ([83;73;71;49;52], 14); ([83;73;71;49;53], 15)].
Definition key_protocols : list (list Z * Z) :=
  [([78;79;78;69], 0); ([84;76;83], 1); ([69;77;65;73;76], 2); ([68;78;83;83;69;67], 3); ([73;80;83;69;67], 4); ([65;76;76], 255)].

(* flags |= LegacyFlag[mnemonic].value for mnemonic in flags_str.split("|") *)
Fixpoint or_mnemonics (ms : list (list Z)) (acc : Z) : res Z :=
  match ms with
  | [] => Ok acc
  | m :: r => match assoc_text m legacy_flags with
              | Some v => or_mnemonics r (Z.lor acc v)
              | None => Lib eSyntax
              end
  end.

(* token = tok.get(); try tok.as_uintN(token) except SyntaxError: mnemonics(tok.as_string(token)) - the raw
   token, no unescaping *)
Definition key_number_or (maxv : Z) (names : list Z -> res Z) (t : token) : res Z :=
  match as_uint maxv t 10 with
  | Ok v => Ok v
  | Lib _ => do s <- as_string t 0; names s
  | Internal e => Internal e
  end.

Definition key_from_text (st : tstate) : res (tval * tstate) :=
  do ts <- get0 st;
  do flags <- key_number_or max16 (fun s => or_mnemonics (split_on 124 s []) 0) (fst ts);
  do ps <- get0 (snd ts);
  do proto <- key_number_or max8 (fun s => match assoc_text s key_protocols with Some v => Ok v | None => Lib eSyntax end) (fst ps);
  do als <- get_string (snd ps) 0;
  if negb (Z.land flags 49152 =? 49152) then
    do hs <- concatenate_remaining_identifiers (snd als) false;
    do e <- utf8_encode (fst hs); do k <- b64decode e;
    Ok (VKey flags proto 0 (fst als) k, snd hs)
  else Ok (VKey flags proto 0 (fst als) [], snd als).

(* base64.b64decode of a str (no .encode()): non-ASCII characters are a ValueError, not skipped *)
Definition b64decode_str (t : list Z) : res (list Z) :=
  if forallb (fun c => (0 <=? c) && (c <? 128)) t then b64decode t else Internal iValueError.

(* ================================================================== dns/rdtypes/svcbbase.py (SVCB, HTTPS) *)
(* svcbbase._unescape: str -> bytes; a backslash followed by a decimal digit starts a three-digit escape *)
Fixpoint svcb_unescape (s : list Z) : res (list Z) :=
  match s with
  | [] => Ok []
  | c :: r =>
      if c =? 92 then
        match r with
        | [] => Lib eUnexpectedEnd
        | c1 :: r1 =>
            if is_decimal c1 then
              match r1 with
              | [] => Lib eUnexpectedEnd
              | c2 :: r2 =>
                  match r2 with
                  | [] => Lib eUnexpectedEnd
                  | c3 :: r3 =>
                      if negb (is_decimal c2 && is_decimal c3) then Lib eSyntax
                      else
                        let cp := (c1 - 48) * 100 + (c2 - 48) * 10 + (c3 - 48) in
                        if cp >? 255 then Lib eSyntax
                        else do t <- svcb_unescape r3; Ok (cp :: t)
                  end
              end
            else do e <- utf8_cp c1; do t <- svcb_unescape r1; Ok (e ++ t)
        end
      else do e <- utf8_cp c; do t <- svcb_unescape r; Ok (e ++ t)
  end.

(* svcbbase._split: the comma-separated items of a value, backslash escapes the next octet *)
Fixpoint svcb_split (s cur : list Z) : res (list (list Z)) :=
  match s with
  | [] => Ok [rev cur]
  | c :: r =>
      if c =? 92 then
        match r with
        | [] => Lib eUnexpectedEnd
        | c1 :: r1 => svcb_split r1 (c1 :: cur)
        end
      else if c =? 44 then do t <- svcb_split r []; Ok (rev cur :: t)
      else svcb_split r (c :: cur)
  end.

(* _validate_key on the latin-1 decoding of the octets: (key, force_generic) *)
Definition svcb_validate_key (b : list Z) : res (Z * bool) :=
  let force := starts_with [107; 101; 121] (map lower_c b) in
  if force && starts_with [48] (skipn 3 b) && negb (Nat.eqb (length b) 4) then Internal iValueError
  else
    let u := map upper_c (replace_char 45 95 b) in
    match assoc_text u svcb_keys with
    | Some v => Ok (v, force)
    | None =>
        if starts_with [75; 69; 89] u && negb (is_nil (skipn 3 u)) && forallb is_decimal (skipn 3 u) then
          let v := dec_value (skipn 3 u) 0 in
          if v >? 65535 then Internal iValueError else Ok (v, force)
        else Lib eUnknownRdatatype        (* UnknownParamKey: outside the SyntaxError family *)
    end.

(* Emptiness.NEVER: the classes that need a value *)
Definition svcb_never (k : Z) : bool := (k =? 0) || (k =? 1) || (k =? 3) || (k =? 4) || (k =? 5) || (k =? 6).
(* keys with a class of their own in _class_for_key *)
Definition svcb_known (k : Z) : bool :=
  (k =? 0) || (k =? 1) || (k =? 2) || (k =? 3) || (k =? 4) || (k =? 5) || (k =? 6) || (k =? 8) || (k =? 10).

Fixpoint has_dup_sorted (l : list Z) : bool :=
  match l with
  | a :: ((b :: _) as r) => (a =? b) || has_dup_sorted r
  | _ => false
  end.

(* cls.from_value(value) for a value that is not None *)
Definition svcb_from_value (k : Z) (v : list Z) : res pval :=
  if k =? 0 then                                   (* MandatoryParam *)
    do ks <- map_res (fun t => do e <- utf8_encode t; do kf <- svcb_validate_key e; Ok (fst kf)) (split_on 44 v []);
    let sorted := sort_z ks in
    if has_dup_sorted sorted || existsb (Z.eqb 0) sorted then Internal iValueError else Ok (PKeys sorted)
  else if (k =? 1) || (k =? 10) then               (* ALPNParam, DoCPathParam *)
    if is_nil v then Ok PNone
    else do u <- svcb_unescape v; do ids <- svcb_split u [];
         if existsb (fun i => is_nil i || (zlen i >? 255)) ids then Internal iValueError else Ok (PStrs ids)
  else if (k =? 2) || (k =? 8) then                (* NoDefaultALPNParam, OHTTPParam *)
    if is_nil v then Ok PNone else Internal iValueError
  else if k =? 3 then                              (* PortParam *)
    match py_int 10 v with
    | Some p => if (p <? 0) || (p >? 65535) then Internal iValueError else Ok (PPort p)
    | None => Internal iValueError
    end
  else if k =? 4 then do l <- map_res ipv4_aton (split_on 44 v []); Ok (PAddrs false l)
  else if k =? 6 then do l <- map_res ipv6_aton (split_on 44 v []); Ok (PAddrs true l)
  else if k =? 5 then                              (* ECHParam *)
    if existsb (Z.eqb 92) v then Internal iValueError
    else do e <- utf8_encode v; do b <- b64decode e; Ok (PEch b)
  else                                             (* GenericParam *)
    if is_nil v then Ok PNone else do b <- svcb_unescape v; Ok (PGen b).

(* _validate_and_define *)
Definition svcb_define (params : list (Z * pval)) (key : list Z) (value : option (list Z)) : res (list (Z * pval)) :=
  do kb <- svcb_unescape key;
  do kf <- svcb_validate_key kb;
  let '(k, force) := kf in
  if existsb (fun kv => fst kv =? k) params then Internal iValueError       (* duplicate key *)
  else
    do pv <- match value with
             | None => if svcb_never k then Internal iValueError else Ok PNone
             | Some v =>
                 if force then
                   (* cls.from_wire_parser(Parser(_unescape(value))): modelled for the generic class only *)
                   if svcb_known k then Internal iNotModelled
                   else do b <- svcb_unescape v; Ok (if is_nil b then PNone else PGen b)
                 else svcb_from_value k v
             end;
    Ok (params ++ [(k, pv)]).

(* the parameter loop of SVCBBase.from_text *)
Fixpoint svcb_params_loop (fuel : nat) (st : tstate) (params : list (Z * pval)) : res (list (Z * pval) * tstate) :=
  match fuel with
  | O => Internal tFuel
  | S f =>
      do ts <- get0 st;
      let '(t, st1) := ts in
      if is_eol_or_eof t then do st2 <- unget st1 t; Ok (params, st2)
      else if negb (is_identifier t) then Internal iValueError
      else
        let v := tvalue t in
        match split_once 61 v with
        | None => do ps <- svcb_define params v None; svcb_params_loop f st1 ps
        | Some (key, rest) =>
            if is_nil rest then                    (* the first "=" is the last character: "key=" + quoted string *)
              do qs <- get st1 true false;
              if negb (is_quoted (fst qs)) then Internal iValueError
              else do ps <- svcb_define params key (Some (tvalue (fst qs))); svcb_params_loop f (snd qs) ps
            else if is_nil key then Internal iValueError               (* "=value" *)
            else do ps <- svcb_define params key (Some rest); svcb_params_loop f st1 ps
        end
  end.

(* SVCBBase.__init__: mandatory keys present, no-default-alpn needs alpn *)
Definition svcb_ctor_ok (params : list (Z * pval)) : bool :=
  let keys := map fst params in
  forallb (fun kv => match snd kv with
                     | PKeys l => if fst kv =? 0 then forallb (fun m => existsb (Z.eqb m) keys) l else true
                     | _ => true
                     end) params
  && (negb (existsb (Z.eqb 2) keys) || existsb (Z.eqb 1) keys).

Definition svcb_from_text (c : pctx) (st : tstate) : res (Z * name * list (Z * pval) * tstate) :=
  do ps <- get_uint max16 st 10;
  do ns <- get_name c (snd ps);
  do st1 <- (if fst ps =? 0 then
               do ts <- get0 (snd ns);
               if negb (is_eol_or_eof (fst ts)) then Internal iValueError      (* parameters in AliasMode *)
               else unget (snd ts) (fst ts)
             else Ok (snd ns));
  do pl <- svcb_params_loop (rem_fuel st1) st1 [];
  if svcb_ctor_ok (fst pl) then Ok (fst ps, fst ns, fst pl, snd pl) else Internal iValueError.

(* ---------- dns/rdtypes/ANY/LOC.py: from_text ---------- *)
Definition isdecimal_str (t : list Z) : bool := negb (is_nil t) && forallb is_decimal t.

(* one coordinate: degrees [minutes [seconds[.milliseconds]]] hemisphere *)
Definition loc_coord (st : tstate) (hpos hneg : Z) : res ((Z * Z * Z * Z * Z) * tstate) :=
  do ds <- get_int st 10;
  do t1 <- get_string (snd ds) 0;
  do r <- (if isdecimal_str (fst t1) then
             let minutes := dec_value (fst t1) 0 in
             do t2 <- get_string (snd t1) 0;
             if existsb (Z.eqb 46) (fst t2) then
               match split_on 46 (fst t2) [] with
               | [seconds; millis] =>
                   if negb (isdecimal_str seconds) then Lib eSyntax
                   else
                     let l := length millis in
                     if Nat.eqb l 0 || Nat.ltb 3 l || negb (forallb is_decimal millis) then Lib eSyntax
                     else
                       let m := if Nat.eqb l 1 then 100 else if Nat.eqb l 2 then 10 else 1 in
                       do t3 <- get_string (snd t2) 0;
                       Ok (minutes, dec_value seconds 0, m * dec_value millis 0, t3)
               | _ => Internal iValueError          (* seconds, milliseconds = t.split(".") *)
               end
             else if isdecimal_str (fst t2) then
               do t3 <- get_string (snd t2) 0; Ok (minutes, dec_value (fst t2) 0, 0, t3)
             else Ok (minutes, 0, 0, t2)
           else Ok (0, 0, 0, t1));
  let '(minutes, seconds, millis, th) := r in
  if zlist_eqb (fst th) [hneg] then Ok ((fst ds, minutes, seconds, millis, -1), snd th)
  else if zlist_eqb (fst th) [hpos] then Ok ((fst ds, minutes, seconds, millis, 1), snd th)
  else Lib eSyntax.

(* value[-1] == "m" -> value[:-1]; float(value) * 100.0 *)
Definition loc_meters (t : list Z) : res fval :=
  match rev t with
  | [] => Internal iIndexError
  | c :: r => do x <- float_of_text (if c =? 109 then rev r else t); Ok (fmul100 x)
  end.

(* float(_decode_size(_encode_size(what, desc), desc)) (fix d18c8f0: from_text keeps the value the wire form has):
   int(what); _exponent_of = the number of digits minus one (SyntaxError below 1 and from 10^10 on); the first
   digit times that power of ten *)
Fixpoint loc_exp_of (w : Z) (pows : list Z) (i : Z) : option Z :=
  match pows with
  | [] => None
  | p :: r => if w <? p then Some (i - 1) else loc_exp_of w r (i + 1)
  end.
Definition loc_pows : list Z := [1; 10; 100; 1000; 10000; 100000; 1000000; 10000000; 100000000; 1000000000; 10000000000].

Definition loc_norm (x : fval) : res dbl :=
  match x with
  | FInf _ => Internal iValueError                      (* OverflowError *)
  | FFin d =>
      let w := dbl_trunc d in
      if w =? 0 then Ok (the_dbl (round_q false 0 1))
      else match loc_exp_of w loc_pows 0 with
           | None => Lib eSyntax
           | Some e => if e <? 0 then Lib eSyntax
                       else Ok (the_dbl (round_q false ((w / 10 ^ e) * 10 ^ e) 1))
           end
  end.

Definition loc_coord_ok (cd : Z * Z * Z * Z * Z) (lim : Z) : bool :=
  let '(d, m, s, ms, sign) := cd in
  (- lim <=? d) && (d <=? lim) && (0 <=? m) && (m <=? 59) && (0 <=? s) && (s <=? 59) && (0 <=? ms) && (ms <=? 999).

Definition loc_from_text (st : tstate) : res (tval * tstate) :=
  do la <- loc_coord st 78 83;
  do lo <- loc_coord (snd la) 69 87;
  do ta <- get_string (snd lo) 0;
  do ax <- loc_meters (fst ta);
  do alt <- (match ax with FFin d => Ok (dbl_round d) | FInf _ => Internal iValueError end);
  do ts <- get_remaining (snd ta) 3;
  do vals <- map_res (fun t => do u <- unescape t; loc_meters (tvalue u)) (fst ts);
  let size := nth 0 vals (FFin loc_default_size) in
  let hp := nth 1 vals (FFin loc_default_hprec) in
  let vp := nth 2 vals (FFin loc_default_vprec) in
  do sz <- loc_norm size; do hz <- loc_norm hp; do vz <- loc_norm vp;
  if negb (loc_coord_ok (fst la) 90) || negb (loc_coord_ok (fst lo) 180) then Internal iValueError
  else if (alt <? -10000000) || (alt >=? 4284967296) then Internal iValueError
  else Ok (VLoc (fst la) (fst lo) alt sz hz vz, snd ts).

(* Gateway._check *)
Definition gw_check (g a : Z) (gw : gwval) : res tval :=
  if g =? 0 then
    match gw with
    | GwText t => if zlist_eqb t [46] then Ok (VGw g a GwNone) else Internal iValueError
    | _ => Internal iValueError
    end
  else if g =? 1 then
    match gw with GwText t => do _ <- ipv4_aton t; Ok (VGw g a gw) | _ => Internal iValueError end
  else if g =? 2 then
    match gw with GwText t => do _ <- ipv6_aton t; Ok (VGw g a gw) | _ => Internal iValueError end
  else if g =? 3 then
    match gw with GwName _ => Ok (VGw g a gw) | _ => Internal iValueError end
  else Internal iValueError.

(* token-level part of cls.from_text: what is read (and converted) before the constructor runs *)
Definition parse_field (c : pctx) (f : tfield) (st : tstate) : res (tval * tstate) :=
  match f with
  | FDec maxv => do vs <- get_uint maxv st 10; Ok (VInt (fst vs), snd vs)
  | FTtl => do vs <- get_ttl st; Ok (VInt (fst vs), snd vs)
  | FQStr tokmax _ _ => do bs <- get_string_as_bytes st tokmax; Ok (VBytes (fst bs), snd bs)
  | FName => do ns <- get_name c st; Ok (VName (fst ns), snd ns)
  | FHexRest => rest_bytes unhexlify st
  | FB64Rest _ => rest_bytes b64decode st
  | FTxtRest => do ss <- txt_from_text st; Ok (VStrs (fst ss), snd ss)
  | FAddr _ => do ts <- get_identifier st; Ok (VBytes (fst ts), snd ts)
  | FHexTok =>
      do ts <- get_string st 0;
      if zlist_eqb (fst ts) [45] then Ok (VBytes [], snd ts)
      else do e <- utf8_encode (fst ts); do b <- unhexlify e; Ok (VBytes b, snd ts)
  | FAlg => do ts <- get_string st 0; Ok (VBytes (fst ts), snd ts)
  | FTag => do ts <- get_string st 0; do b <- utf8_encode (fst ts); Ok (VBytes b, snd ts)
  | FB32 => do ts <- get_string st 0; do b <- b32hex_decode (fst ts); Ok (VBytes b, snd ts)
  | FEnum k => do ts <- get_string st 0; do v <- enum_parse k (fst ts); Ok (VInt v, snd ts)
  | FNsap => do ts <- get_string st 0; do b <- nsap_from_text (fst ts); Ok (VBytes b, snd ts)
  | FIntC _ => do vs <- get_int st 10; Ok (VInt (fst vs), snd vs)
  | FSigTime => do ts <- get_string st 0; do v <- sigtime_to_posixtime (fst ts); Ok (VInt v, snd ts)
  | FEui n => do ts <- get_string st 0; do b <- eui_from_text n (fst ts); Ok (VBytes b, snd ts)
  | FFmtHex => do ts <- get_identifier st; Ok (VBytes (fst ts), snd ts)
  | FOct16 => do vs <- get_uint max16 st 8; Ok (VInt (fst vs), snd vs)
  | FQOpt =>
      do ts <- get_remaining st 1;
      match fst ts with
      | [] => Ok (VBytes [], snd ts)
      | t :: _ => do t' <- unescape_to_bytes t; Ok (VBytes (tvalue t'), snd ts)
      end
  | FHexStr => do ts <- get_string st 0; do e <- utf8_encode (fst ts); do b <- unhexlify e; Ok (VBytes b, snd ts)
  | FB64Tok _ => do ts <- get_string st 0; do e <- utf8_encode (fst ts); do b <- b64decode e; Ok (VBytes b, snd ts)
  | FNamesRest => do ts <- get_remaining st 0; do ns <- map_res (as_name c) (fst ts); Ok (VNames ns, snd ts)
  | FNameNoRel => do ns <- get_name (mkPctx None false None) st; Ok (VName (fst ns), snd ns)
  | FB64RestOpt =>
      do hs <- concatenate_remaining_identifiers st true;
      do e <- utf8_encode (fst hs); do b <- b64decode e; Ok (VBytes b, snd hs)
  | FB64RestE =>
      do hs <- concatenate_remaining_identifiers st true;
      do e <- utf8_encode (fst hs); do b <- b64decode e; Ok (VBytes b, snd hs)
  | FGposStr => do ts <- get_string st 0; Ok (VBytes (fst ts), snd ts)
  | FKeyRec => key_from_text st
  | FAddr4S => do ts <- get_string st 0; Ok (VBytes (fst ts), snd ts)
  | FWksProto =>
      do ts <- get_string st 0;
      if negb (is_nil (fst ts)) && forallb is_decimal (fst ts) then Ok (VInt (dec_value (fst ts) 0), snd ts)
      else Internal iNotModelled      (* socket.getprotobyname *)
  | FWksPorts =>
      do ts <- get_remaining st 0;
      do ports <- map_res wks_token_port (fst ts);
      Ok (VBytes (truncate_bitmap (fold_left wks_set ports [])), snd ts)
  | FLocRec => loc_from_text st
  | FSvcbRec => do r <- svcb_from_text c st; let '(p, n, ps, st') := r in Ok (VSvcb p n ps, st')
  | FAplRest => do ts <- get_remaining st 0; do items <- map_res apl_item_of_token (fst ts); Ok (VApl items, snd ts)
  | FMac =>
      do ns <- get_uint max16 st 10;
      do ts <- get_string (snd ns) 0;
      do b <- b64decode_str (fst ts);
      if negb (zlen b =? fst ns) then Internal iValueError else Ok (VBytes b, snd ts)
  | FOther =>
      do ns <- get_uint max16 st 10;
      if fst ns >? 0 then
        do ts <- get_string (snd ns) 0;
        do b <- b64decode_str (fst ts);
        if negb (zlen b =? fst ns) then Internal iValueError else Ok (VBytes b, snd ts)
      else Ok (VBytes [], snd ns)
  | FGw ipsec =>
      do gs <- get_uint max8 st 10;
      do as_ <- (if ipsec then get_uint max8 (snd gs) 10
                 else if fst gs >? 127 then Lib eSyntax else Ok (0, snd gs));
      let g := fst gs in
      (* Gateway.from_text ends with cls(gateway_type, gateway): _check runs here, before the key is read *)
      if (g =? 0) || (g =? 1) || (g =? 2) then
        do ts <- get_string (snd as_) 0; do v <- gw_check g (fst as_) (GwText (fst ts)); Ok (v, snd ts)
      else if g =? 3 then
        do ns <- get_name c (snd as_); do v <- gw_check g (fst as_) (GwName (fst ns)); Ok (v, snd ns)
      else Lib eSyntax
  | FBitmap =>
      do ts <- get_remaining st 0;
      do types <- map_res bitmap_token_type (fst ts);
      Ok (VWindows (from_rdtypes types), snd ts)
  end.

Fixpoint parse_fields (c : pctx) (fs : list tfield) (st : tstate) : res (list tval * tstate) :=
  match fs with
  | [] => Ok ([], st)
  | f :: fs' =>
      do vs <- parse_field c f st;
      do rs <- parse_fields c fs' (snd vs);
      Ok (fst vs :: fst rs, snd rs)
  end.

(* the constructor's part: conversions and range checks (ValueError -> SyntaxError by the wrapper);
   it runs after all tokens of the record have been read and before the end-of-line check *)
Definition ctor_field (f : tfield) (v : tval) : res tval :=
  match f, v with
  | FQStr _ ctormax nonempty, VBytes b =>
      if negb (ctormax =? 0) && (zlen b >? ctormax) then Internal iValueError
      else if nonempty && is_nil b then Lib eSyntax
      else Ok v
  | FAddr v6, VBytes t => do b <- (if v6 then ipv6_aton t else ipv4_aton t); Ok (VBytes b)
  | FHexTok, VBytes b => if zlen b >? 255 then Internal iValueError else Ok v
  | FB32, VBytes b => if zlen b >? 255 then Internal iValueError else Ok v
  | FEnum k, VInt z => do z' <- enum_ctor k z; Ok (VInt z')
  | FIntC maxv, VInt z => if (z <? 0) || (z >? maxv) then Internal iValueError else Ok v
  | FSigTime, VInt z => if (z <? 0) || (z >? 4294967295) then Internal iValueError else Ok v
  | FEui n, VBytes b => if negb (Nat.eqb (length b) n) then Lib TokM.eFormError else Ok v
  | FFmtHex, VBytes t => if fmthex_ok t then Ok v else Internal iValueError
  | FQOpt, VBytes b => if zlen b >? 255 then Internal iValueError else Ok v
  | FHexStr, VBytes b => if zlen b >? 255 then Internal iValueError else Ok v
  | FB64Tok maxlen, VBytes b => if zlen b >? maxlen then Internal iValueError else Ok v
  | FB64RestOpt, VBytes b => if zlen b >? 65535 then Internal iValueError else Ok v
  | FKeyRec, VKey f p _ at_ k => do a <- alg_from_text at_; Ok (VKey f p a [] k)
  | FAddr4S, VBytes t => do b <- ipv4_aton t; Ok (VBytes b)
  | FWksProto, VInt z => if (z <? 0) || (z >? 255) then Internal iValueError else Ok v
  | FGposStr, VBytes t =>     (* _as_bytes(value, True, 255): str.encode(), at most 255 octets *)
      do e <- utf8_encode t; if zlen e >? 255 then Internal iValueError else Ok (VBytes e)
  | FAlg, VBytes t => do z <- alg_from_text t; Ok (VInt z)
  | FTag, VBytes b =>
      if (zlen b >? 255) || is_nil b || negb (forallb is_alnum b) then Internal iValueError else Ok v
  | _, _ => Ok v
  end.

Fixpoint ctor_fields (fs : list tfield) (vs : list tval) : res (list tval) :=
  match fs, vs with
  | f :: fs', v :: vs' => do a <- ctor_field f v; do b <- ctor_fields fs' vs'; Ok (a :: b)
  | _, _ => Ok []
  end.

(* chk: the checks of the constructor that relate several fields (DS digest length by digest type, ...);
   they run after the per-field conversions, still inside cls.from_text, i.e. before the end-of-line check *)
Definition class_from_text (c : pctx) (fs : list tfield) (chk : list tval -> res unit) (st : tstate)
  : res (list tval * tstate) :=
  do rs <- parse_fields c fs st;
  do vs <- ctor_fields fs (fst rs);
  do _ <- chk vs;
  Ok (vs, snd rs).

Definition no_check (vs : list tval) : res unit := Ok tt.

(* dns.rdata.from_text for a schema type; fw/tw = wire codec for the generic-syntax branch *)
Definition record_from_text_gen (fw : list Z -> res (list tval)) (tw : list tval -> res (list Z))
           (c : pctx) (fs : list tfield) (chk : list tval -> res unit) (text : list Z) : res (list tval) :=
  rdata_from_text (class_from_text c fs chk) fw tw text.

Definition record_from_text (c : pctx) (fs : list tfield) (chk : list tval -> res unit) (text : list Z)
  : res (list tval) :=
  record_from_text_gen (fun _ => Internal iNotModelled) (fun _ => Internal iNotModelled) c fs chk text.

Definition record_to_text (st : style) (fs : list tfield) (vs : list tval) : res (list Z) :=
  print_fields st fs vs.

(* ---------- the regular types ---------- *)
Definition u8 := FDec 255. Definition u16 := FDec 65535. Definition u32 := FDec 4294967295.
Definition cstr := FQStr 0 255 false.

(* the table is keyed by the type code for class IN; the one class-specific implementation outside IN
   (dns/rdtypes/CH/A.py) gets the key rdclass * 65536 + rdtype *)
Definition CH_A : Z := 3 * 65536 + 1.

Definition schema_of (rdtype : Z) : option (list tfield) :=
  if rdtype =? 1 then Some [FAddr false]                                            (* A *)
  else if rdtype =? 28 then Some [FAddr true]                                       (* AAAA *)
  else if rdtype =? 105 then Some [u16; FAddr false]                                (* L32 *)
  else if rdtype =? 51 then Some [u8; u8; u16; FHexTok]                             (* NSEC3PARAM *)
  else if (rdtype =? 48) || (rdtype =? 60) then Some [u16; u8; FAlg; FB64Rest true] (* DNSKEY CDNSKEY *)
  else if (rdtype =? 43) || (rdtype =? 59) || (rdtype =? 32769)
  then Some [u16; FAlg; u8; FHexRest]                                             (* DS CDS DLV *)
  else if rdtype =? 63 then Some [u32; u8; u8; FHexRest]                           (* ZONEMD *)
  else if rdtype =? 257 then Some [u8; FTag; FQStr 0 0 false]                       (* CAA *)
  else if rdtype =? 47 then Some [FName; FBitmap]                                   (* NSEC *)
  else if rdtype =? 62 then Some [u32; u16; FBitmap]                                (* CSYNC *)
  else if rdtype =? 50 then Some [u8; u8; u16; FHexTok; FB32; FBitmap]              (* NSEC3 *)
  else if rdtype =? 66 then Some [FEnum KType; FEnum KScheme; u16; FName]           (* DSYNC *)
  else if rdtype =? 37 then Some [FEnum KCtype; u16; FEnum KAlgMn; FB64Rest true]   (* CERT *)
  else if rdtype =? 22 then Some [FNsap]                                            (* NSAP *)
  else if (rdtype =? 46) || (rdtype =? 24)                                          (* RRSIG SIG *)
  then Some [FEnum KType; FEnum KAlgNum; FIntC 255; FTtl; FSigTime; FSigTime; FIntC 65535; FName; FB64Rest true]
  else if (rdtype =? 67) || (rdtype =? 68) then Some [FB64Rest false]               (* HHIT BRID *)
  else if (rdtype =? 2) || (rdtype =? 5) || (rdtype =? 12) || (rdtype =? 39) || (rdtype =? 23)
  then Some [FName]                                        (* NS CNAME PTR DNAME NSAP-PTR *)
  else if (rdtype =? 15) || (rdtype =? 18) || (rdtype =? 21) || (rdtype =? 36) || (rdtype =? 107)
  then Some [u16; FName]                                   (* MX AFSDB RT KX LP *)
  else if rdtype =? 6 then Some [FName; FName; u32; FTtl; FTtl; FTtl; FTtl]        (* SOA *)
  else if rdtype =? 17 then Some [FName; FName]                                    (* RP *)
  else if rdtype =? 26 then Some [u16; FName; FName]                               (* PX *)
  else if rdtype =? 33 then Some [u16; u16; u16; FName]                            (* SRV *)
  else if rdtype =? 13 then Some [FQStr 255 255 false; FQStr 255 255 false]        (* HINFO *)
  else if rdtype =? 19 then Some [cstr]                                            (* X25 *)
  else if rdtype =? 35 then Some [u16; u16; cstr; cstr; cstr; FName]               (* NAPTR *)
  else if rdtype =? 256 then Some [u16; u16; FQStr 0 0 true]                       (* URI *)
  else if (rdtype =? 52) || (rdtype =? 53) then Some [u8; u8; u8; FHexRest]        (* TLSA SMIMEA *)
  else if rdtype =? 44 then Some [u8; u8; FHexRest]                                (* SSHFP *)
  else if rdtype =? 49 then Some [FB64Rest true]                                   (* DHCID *)
  else if rdtype =? 61 then Some [FB64Rest false]                                  (* OPENPGPKEY *)
  else if (rdtype =? 104) || (rdtype =? 106) then Some [u16; FFmtHex]               (* NID L64 *)
  else if rdtype =? CH_A then Some [FName; FOct16]                                 (* A in class CH *)
  else if rdtype =? 20 then Some [cstr; FQOpt]                                     (* ISDN *)
  else if rdtype =? 27 then Some [FGposStr; FGposStr; FGposStr]                    (* GPOS *)
  else if rdtype =? 25 then Some [FKeyRec]                                         (* KEY *)
  else if rdtype =? 42 then Some [FAplRest]                                        (* APL *)
  else if (rdtype =? 64) || (rdtype =? 65) then Some [FSvcbRec]                    (* SVCB HTTPS *)
  else if rdtype =? 29 then Some [FLocRec]                                         (* LOC *)
  else if rdtype =? 11 then Some [FAddr4S; FWksProto; FWksPorts]                   (* WKS *)
  else if rdtype =? 250 then Some [FNameNoRel; FDec max48; u16; FMac; u16; FEnum KRcode; FOther]   (* TSIG *)
  else if rdtype =? 45 then Some [u8; FGw true; FB64RestE]                         (* IPSECKEY *)
  else if rdtype =? 260 then Some [u8; FDec 1; FGw false]                          (* AMTRELAY *)
  else if rdtype =? 55 then Some [u8; FHexStr; FB64Tok 65535; FNamesRest]          (* HIP (text order) *)
  else if rdtype =? 249 then Some [FNameNoRel; u32; u32; u16; u16; FB64Tok 65535; FB64RestOpt]  (* TKEY *)
  else if rdtype =? 108 then Some [FEui 6]                                         (* EUI48 *)
  else if rdtype =? 109 then Some [FEui 8]                                         (* EUI64 *)
  else if (rdtype =? 16) || (rdtype =? 99) || (rdtype =? 258) || (rdtype =? 56)
          || (rdtype =? 261) || (rdtype =? 262)
  then Some [FTxtRest]                                     (* TXT SPF AVC NINFO RESINFO WALLET *)
  else None.

(* DSBase.__init__: _digest_length_by_type (CDS adds 0: 1, the "delete" form); digest type 0 is reserved *)
Definition ds_digest_len (cds : bool) (dt : Z) : option nat :=
  if dt =? 1 then Some 20%nat else if dt =? 2 then Some 32%nat else if dt =? 3 then Some 32%nat
  else if dt =? 4 then Some 48%nat else if cds && (dt =? 0) then Some 1%nat else None.

Definition ds_check (cds : bool) (vs : list tval) : res unit :=
  match vs with
  | [_; _; VInt dt; VBytes d] =>
      match ds_digest_len cds dt with
      | Some n => if Nat.eqb (length d) n then Ok tt else Internal iValueError
      | None => if dt =? 0 then Internal iValueError else Ok tt
      end
  | _ => Internal eBadCase
  end.

(* ZONEMD.__init__: scheme 0 and hash algorithm 0 are reserved; SHA384 / SHA512 fix the digest length *)
Definition zonemd_check (vs : list tval) : res unit :=
  match vs with
  | [_; VInt scheme; VInt h; VBytes d] =>
      if scheme =? 0 then Internal iValueError
      else if h =? 0 then Internal iValueError
      else if (h =? 1) && negb (Nat.eqb (length d) 48) then Internal iValueError
      else if (h =? 2) && negb (Nat.eqb (length d) 64) then Internal iValueError
      else Ok tt
  | _ => Internal eBadCase
  end.

(* GPOS.__init__: _validate_float_string on the three strings, |latitude| <= 90, |longitude| <= 180 as floats;
   the test itself is the one modelled (and compared with float()) for C02 *)
Definition gpos_check (vs : list tval) : res unit :=
  match vs with
  | [VBytes lat; VBytes lon; VBytes alt] => if SchemaM.gpos_ok lat lon alt then Ok tt else Lib TokM.eFormError
  | _ => Internal eBadCase
  end.

Definition schema_chk (rdtype : Z) : list tval -> res unit :=
  if (rdtype =? 43) || (rdtype =? 32769) then ds_check false
  else if rdtype =? 59 then ds_check true
  else if rdtype =? 63 then zonemd_check
  else if rdtype =? 27 then gpos_check
  else no_check.

(* ---------- harness interface ---------- *)
Definition obs_of_val (v : tval) : obs :=
  match v with
  | VInt z => I z
  | VBytes b => B b
  | VName n => obs_of_name n
  | VStrs l => L (map B l)
  | VWindows ws => L (map (fun w => L [I (fst w); B (snd w)]) ws)
  | VNames l => L (map obs_of_name l)
  | VKey f p a _ k => L [I f; I p; I a; B k]
  | VLoc (d1, m1, s1, ms1, sg1) (d2, m2, s2, ms2, sg2) alt sz hp vp =>
      let od := fun x : dbl => L [I (if dneg x then 1 else 0); I (dm x); I (de x)] in
      L [L [I d1; I m1; I s1; I ms1; I sg1]; L [I d2; I m2; I s2; I ms2; I sg2]; I alt; od sz; od hp; od vp]
  | VSvcb p n ps => L [I p; obs_of_name n; L (map (fun kv : Z * pval => I (fst kv)) ps)]
  | VApl items => L (map (fun it : aplitem => let '(f, n, a, p) := it in L [I f; I (if n then 1 else 0); B a; I p]) items)
  | VGw g a gw => L [I g; I a; match gw with GwNone => I 0 | GwText t => obs_of_text t | GwName n => obs_of_name n end]
  end.

Fixpoint windows_of_obs (l : list obs) : option (list bwindow) :=
  match l with
  | [] => Some []
  | L [I w; B b] :: r => match windows_of_obs r with Some t => Some ((w, b) :: t) | None => None end
  | _ => None
  end.

Fixpoint apl_of_obs (l : list obs) : option (list aplitem) :=
  match l with
  | [] => Some []
  | L [I f; I n; B a; I p] :: r => match apl_of_obs r with Some t => Some ((f, n =? 1, a, p) :: t) | None => None end
  | _ => None
  end.

Fixpoint names_of_obs (l : list obs) : option (list name) :=
  match l with
  | [] => Some []
  | L n :: r => match name_of_obs n, names_of_obs r with Some a, Some b => Some (a :: b) | _, _ => None end
  | _ => None
  end.

Fixpoint vals_of_obs (fs : list tfield) (os : list obs) : option (list tval) :=
  match fs, os with
  | [], [] => Some []
  | f :: fs', o :: os' =>
      match vals_of_obs fs' os' with
      | None => None
      | Some r =>
          match f, o with
          | FDec _, I z => Some (VInt z :: r)
          | FTtl, I z => Some (VInt z :: r)
          | FQStr _ _ _, B b => Some (VBytes b :: r)
          | FHexRest, B b => Some (VBytes b :: r)
          | FB64Rest _, B b => Some (VBytes b :: r)
          | FAddr _, B b => Some (VBytes b :: r)
          | FHexTok, B b => Some (VBytes b :: r)
          | FTag, B b => Some (VBytes b :: r)
          | FB32, B b => Some (VBytes b :: r)
          | FNsap, B b => Some (VBytes b :: r)
          | FEnum _, I z => Some (VInt z :: r)
          | FIntC _, I z => Some (VInt z :: r)
          | FSigTime, I z => Some (VInt z :: r)
          | FEui _, B b => Some (VBytes b :: r)
          | FFmtHex, B b => Some (VBytes b :: r)
          | FOct16, I z => Some (VInt z :: r)
          | FQOpt, B b => Some (VBytes b :: r)
          | FHexStr, B b => Some (VBytes b :: r)
          | FB64Tok _, B b => Some (VBytes b :: r)
          | FB64RestOpt, B b => Some (VBytes b :: r)
          | FB64RestE, B b => Some (VBytes b :: r)
          | FMac, B b => Some (VBytes b :: r)
          | FGposStr, B b => Some (VBytes b :: r)
          | FKeyRec, L [I f; I p; I a; B k] => Some (VKey f p a [] k :: r)
          | FLocRec, L [L [I d1; I m1; I s1; I ms1; I sg1]; L [I d2; I m2; I s2; I ms2; I sg2]; I alt;
                        L [I n1; I a1; I e1]; L [I n2; I a2; I e2]; L [I n3; I a3; I e3]] =>
              Some (VLoc (d1, m1, s1, ms1, sg1) (d2, m2, s2, ms2, sg2) alt
                         (mkD (n1 =? 1) a1 e1) (mkD (n2 =? 1) a2 e2) (mkD (n3 =? 1) a3 e3) :: r)
          | FAddr4S, B b => Some (VBytes b :: r)
          | FWksProto, I z => Some (VInt z :: r)
          | FWksPorts, B b => Some (VBytes b :: r)
          | FAplRest, L l => match apl_of_obs l with Some its => Some (VApl its :: r) | None => None end
          | FOther, B b => Some (VBytes b :: r)
          | FGw _, L [I g; I a; I 0] => Some (VGw g a GwNone :: r)
          | FGw _, L [I g; I a; B t] => Some (VGw g a (GwText t) :: r)
          | FGw _, L [I g; I a; L l] => match name_of_obs l with Some n => Some (VGw g a (GwName n) :: r) | None => None end
          | FNameNoRel, L l => match name_of_obs l with Some n => Some (VName n :: r) | None => None end
          | FNamesRest, L l => match names_of_obs l with Some ns => Some (VNames ns :: r) | None => None end
          | FAlg, I z => Some (VInt z :: r)
          | FBitmap, L l => match windows_of_obs l with Some w => Some (VWindows w :: r) | None => None end
          | FName, L l => match name_of_obs l with Some n => Some (VName n :: r) | None => None end
          | FTxtRest, L l => match strings_of_obs l with Some s => Some (VStrs s :: r) | None => None end
          | _, _ => None
          end
      end
  | _, _ => None
  end.

Definition style_of_obs (o : obs) : option style :=
  match o with
  | L [org; I rel; I hc; B hs; I bc; B bs; I u8] =>
      match oname_of_obs org with
      | Some og => Some (mkStyle og (rel =? 1) hc hs bc bs (u8 =? 1))
      | None => None
      end
  | _ => None
  end.

Definition pctx_of_obs (o : obs) : option pctx :=
  match o with
  | L [org; I rel; relto] =>
      match oname_of_obs org, oname_of_obs relto with
      | Some og, Some rt => Some (mkPctx og (rel =? 1) rt)
      | _, _ => None
      end
  | _ => None
  end.

Definition run_text (c : obs) : obs :=
  match c with
  | L [I 40; I rdtype; L vals; sty] =>
      match schema_of rdtype, style_of_obs sty with
      | Some fs, Some st =>
          match vals_of_obs fs vals with
          | Some vs => TokM.obs_of_res obs_of_text (record_to_text st fs vs)
          | None => E eBadCase
          end
      | _, _ => E eBadCase
      end
  | L [I 41; I rdtype; t; ctx] =>
      match schema_of rdtype, pctx_of_obs ctx, text_of_obs t with
      | Some fs, Some pc, Some s =>
          TokM.obs_of_res (fun vs => L (map obs_of_val vs)) (record_from_text pc fs (schema_chk rdtype) s)
      | _, _, _ => E eBadCase
      end
  | _ => TokM.run c
  end.

Definition run_addr (c : obs) : obs :=
  match c with
  | L [I 50; B a] => TokM.obs_of_res B (ipv4_ntoa a)
  | L [I 51; t] =>
      match text_of_obs t with Some s => TokM.obs_of_res B (ipv4_aton s) | None => E eBadCase end
  | L [I 52; B a] => TokM.obs_of_res B (ipv6_ntoa a)
  | L [I 53; t] =>
      match text_of_obs t with Some s => TokM.obs_of_res B (ipv6_aton s) | None => E eBadCase end
  | L [I 54; L ws] =>
      match windows_of_obs ws with
      | Some w => L (map I (bitmap_types w))
      | None => E eBadCase
      end
  | L [I 60; I t] => B (posixtime_to_sigtime t)
  | L [I 61; t] =>
      match text_of_obs t with Some s => TokM.obs_of_res I (sigtime_to_posixtime s) | None => E eBadCase end
  | L [I 58; B d] => B (b32hex_encode d)
  | L [I 59; t] =>
      match text_of_obs t with Some s => TokM.obs_of_res B (b32hex_decode s) | None => E eBadCase end
  | L [I 56; I v] => TokM.obs_of_res obs_of_text (rdtype_to_text v)
  | L [I 57; t] =>
      match text_of_obs t with Some s => TokM.obs_of_res I (rdtype_from_text s) | None => E eBadCase end
  | L [I 55; L ts] =>
      match ints_of_obs ts with
      | Some t => L (map (fun w => L [I (fst w); B (snd w)]) (from_rdtypes t))
      | None => E eBadCase
      end
  | _ => E eBadCase
  end.

(* ---------- SVCB / HTTPS (ops 44, 45) ---------- *)
Fixpoint zs_of_obs (l : list obs) : option (list Z) :=
  match l with
  | [] => Some []
  | I z :: r => match zs_of_obs r with Some t => Some (z :: t) | None => None end
  | _ => None
  end.

Definition pval_of_obs (kind : Z) (o : obs) : option pval :=
  if kind =? 0 then Some PNone
  else match o with
       | L l =>
           if kind =? 1 then match zs_of_obs l with Some ks => Some (PKeys ks) | None => None end
           else if kind =? 2 then match strings_of_obs l with Some ss => Some (PStrs ss) | None => None end
           else if kind =? 4 then match strings_of_obs l with Some ss => Some (PAddrs false ss) | None => None end
           else if kind =? 6 then match strings_of_obs l with Some ss => Some (PAddrs true ss) | None => None end
           else None
       | I z => if kind =? 3 then Some (PPort z) else None
       | B b => if kind =? 5 then Some (PEch b) else if kind =? 7 then Some (PGen b) else None
       | _ => None
       end.

Fixpoint params_of_obs (l : list obs) : option (list (Z * pval)) :=
  match l with
  | [] => Some []
  | L [I k; I kind; o] :: r =>
      match pval_of_obs kind o, params_of_obs r with
      | Some v, Some t => Some ((k, v) :: t)
      | _, _ => None
      end
  | _ => None
  end.

Definition obs_of_pval (v : pval) : list obs :=
  match v with
  | PNone => [I 0; I 0]
  | PKeys l => [I 1; L (map I l)]
  | PStrs l => [I 2; L (map B l)]
  | PPort p => [I 3; I p]
  | PAddrs v6 l => [I (if v6 then 6 else 4); L (map B l)]
  | PEch b => [I 5; B b]
  | PGen b => [I 7; B b]
  end.

Definition run_svcb (c : obs) : obs :=
  match c with
  | L [I 44; I prio; L target; L params; sty] =>
      match name_of_obs target, params_of_obs params, style_of_obs sty with
      | Some n, Some ps, Some st => TokM.obs_of_res obs_of_text (svcb_to_text st prio n ps)
      | _, _, _ => E eBadCase
      end
  | L [I 45; I _; t; ctx] =>
      match pctx_of_obs ctx, text_of_obs t with
      | Some pc, Some s =>
          TokM.obs_of_res (fun r : Z * name * list (Z * pval) => let '(p, n, ps) := r in
                              L [I p; obs_of_name n; L (map (fun kv => L (I (fst kv) :: obs_of_pval (snd kv))) ps)])
            (rdata_from_text (fun st => do r <- svcb_from_text pc st; let '(p, n, ps, st') := r in Ok ((p, n, ps), st'))
                             (fun _ => Internal iNotModelled) (fun _ => Internal iNotModelled) s)
      | _, _ => E eBadCase
      end
  | _ => E eBadCase
  end.

Definition run (c : obs) : obs :=
  match c with
  | L (I op :: _) => if (50 <=? op) && (op <=? 69) then run_addr c
                     else if (op =? 44) || (op =? 45) then run_svcb c else run_text c
  | _ => run_text c
  end.
