(* Model of the datagram / stream exchange code of dns/query.py and dns/asyncquery.py
   (udp, receive_udp, send_udp, tcp, receive_tcp, send_tcp, _net_read, _net_write, _udp_recv,
   _udp_send, _wait_for, _matches_destination, _addresses_equal, _compute_times),
   Message.is_response (dns/message.py), the option handling at the end of
   dns.message.from_wire, and inet_pton / is_multicast (dns/inet.py).
   Definitions only; proofs live in Proofs/Net*.v.

   The socket, the clock and the selector are a *script*: a list of events consumed one per
   socket call (datagram | chunk | would-block with the time after which the socket becomes
   ready | EOF).  The parser of message bodies is an abstract function  parse : wire -> pabs
   (Section variable in the proofs, a table built by the harness in `run`).              *)
From DV Require Import Base.Prelude Model.NameM.
Open Scope Z_scope.

(* ---------- exception codes ---------- *)
Definition neTimeout := 1.           (* dns.exception.Timeout *)
Definition neUnexpectedSource := 2.  (* dns.query.UnexpectedSource *)
Definition neBadResponse := 3.       (* dns.query.BadResponse (FormError family) *)
Definition neTruncated := 4.         (* dns.message.Truncated *)
Definition neShortHeader := 5.       (* dns.message.ShortHeader (FormError family) *)
Definition neTrailingJunk := 6.      (* dns.message.TrailingJunk (FormError family) *)
Definition neFormError := 7.         (* dns.exception.FormError and unnamed subclasses *)
Definition neBadEDNS := 8.           (* dns.message.BadEDNS (FormError family) *)
Definition neBadTSIG := 9.           (* dns.message.BadTSIG (FormError family) *)
Definition neUnknownTSIGKey := 10.   (* dns.message.UnknownTSIGKey (not FormError) *)
Definition neDNSException := 11.     (* any other dns.exception.DNSException *)
Definition neEOF := 12.              (* EOFError: the documented outcome of an early end of stream *)
Definition niOverflow := 21.         (* OverflowError: len(what).to_bytes(2, "big") *)
Definition niValueError := 22.       (* ValueError: is_multicast / af_for_address of a non-address *)
Definition niNotImplemented := 23.   (* NotImplementedError: inet_pton of an unknown family *)
Definition niScriptEnd := 98.        (* model artefact: the script is exhausted and there is no deadline *)
Definition niOther := 99.

(* codes < 20 are the library's documented outcomes, the others Python's own *)
Definition err_res {A} (e : Z) : res A := if e <? 20 then Lib e else Internal e.

(* isinstance(e, dns.exception.FormError) for the exception classes above *)
Definition is_formerr (e : Z) : bool :=
  (e =? neBadResponse) || (e =? neShortHeader) || (e =? neTrailingJunk) || (e =? neFormError)
  || (e =? neBadEDNS) || (e =? neBadTSIG).

(* ---------- messages as far as acceptance looks at them ---------- *)
Record qent := { q_name : name; q_class : Z; q_type : Z }.
Record msg := { m_id : Z; m_flags : Z; m_ednsflags : Z; m_question : list qent }.

Definition fQR := 32768.   (* dns.flags.QR 0x8000 *)
Definition fTC := 512.     (* dns.flags.TC 0x0200 *)

(* dns.opcode.from_flags: (flags & 0x7800) >> 11 *)
Definition opcode_of (flags : Z) : Z := Z.shiftr (Z.land flags 30720) 11.
(* dns.rcode.from_flags: (flags & 0x000F) | ((ednsflags >> 20) & 0xFF0) *)
Definition rcode_of (flags ednsflags : Z) : Z :=
  Z.lor (Z.land flags 15) (Z.land (Z.shiftr ednsflags 20) 4080).
Definition opUPDATE := 5.
(* {FORMERR, SERVFAIL, NOTIMP, REFUSED} *)
Definition rcode_lenient (r : Z) : bool := (r =? 1) || (r =? 2) || (r =? 4) || (r =? 5).

Definition has_qr (m : msg) : bool := negb (Z.land (m_flags m) fQR =? 0).
Definition has_tc (m : msg) : bool := negb (Z.land (m_flags m) fTC =? 0).

(* RRset.__eq__ for question entries (no rdatas): name (Name.__eq__), rdclass, rdtype *)
Definition qent_eqb (a b : qent) : bool :=
  name_eqb (q_name a) (q_name b) && (q_class a =? q_class b) && (q_type a =? q_type b).
(* `n in section` *)
Definition q_in (n : qent) (l : list qent) : bool := existsb (qent_eqb n) l.
Definition q_subset (a b : list qent) : bool := forallb (fun n => q_in n b) a.

(* Message.is_response(self, other) *)
Definition is_response (self other : msg) : bool :=
  if (Z.land (m_flags other) fQR =? 0)
     || negb (m_id self =? m_id other)
     || negb (opcode_of (m_flags self) =? opcode_of (m_flags other))
  then false
  else if rcode_lenient (rcode_of (m_flags other) (m_ednsflags other))
          && (zlen (m_question other) =? 0)
  then true
  else if opcode_of (m_flags self) =? opUPDATE then true
  else if negb (q_subset (m_question self) (m_question other)) then false
  else if negb (q_subset (m_question other) (m_question self)) then false
  else true.

(* ---------- addresses (dns/inet.py) ---------- *)
(* an address tuple: the results of dns.ipv4.inet_aton / dns.ipv6.inet_aton(text, True) on its
   first component (None = SyntaxError) and the remaining components (port[, flowinfo, scope]) *)
Record addr := { a_v4 : option (list Z); a_v6 : option (list Z); a_rest : list Z }.

Definition AF_INET := 2.
Definition AF_INET6 := 10.

(* dns.inet.inet_pton;  Ok None = dns.exception.SyntaxError *)
Definition inet_pton (af : Z) (a : addr) : res (option (list Z)) :=
  if af =? AF_INET then Ok (a_v4 a)
  else if af =? AF_INET6 then Ok (a_v6 a)
  else Internal niNotImplemented.

(* dns.inet.is_multicast: tries IPv4 first, then IPv6, whatever the socket family is *)
Definition is_multicast (a : addr) : res bool :=
  match a_v4 a with
  | Some (first :: _) => Ok ((224 <=? first) && (first <=? 239))
  | Some [] => Internal niOther
  | None =>
      match a_v6 a with
      | Some (first :: _) => Ok (first =? 255)
      | Some [] => Internal niOther
      | None => Internal niValueError
      end
  end.

(* _addresses_equal *)
Definition addresses_equal (af : Z) (a1 a2 : addr) : res bool :=
  do n1 <- inet_pton af a1;
  match n1 with
  | None => Ok false
  | Some n1 =>
      do n2 <- inet_pton af a2;
      match n2 with
      | None => Ok false
      | Some n2 => Ok (zlist_eqb n1 n2 && zlist_eqb (a_rest a1) (a_rest a2))
      end
  end.

(* _matches_destination;  destination None (or an empty tuple) accepts every source *)
Definition matches_destination (af : Z) (from : addr) (dest : option addr) (ignore_unexpected : bool)
  : res bool :=
  match dest with
  | None => Ok true
  | Some d =>
      do eq <- addresses_equal af from d;
      if eq then Ok true
      else
        do mc <- is_multicast d;
        if mc && zlist_eqb (a_rest from) (a_rest d) then Ok true
        else if ignore_unexpected then Ok false
        else Lib neUnexpectedSource
  end.

(* ---------- what dns.message.from_wire makes of a datagram ---------- *)
(* the facts about one wire string that do not depend on ignore_trailing / raise_on_truncation:
   shorter than a header; the message object at the point reading stopped; the exception (if
   any) raised while reading the sections; octets left after the last section *)
Record pabs := { p_short : bool; p_msg : msg; p_err : option Z; p_trailing : bool }.

Inductive pout := POk (m : msg) | PTrunc (m : msg) | PErr (e : Z).

(* _WireReader.read's trailing check + the end of from_wire (continue_on_error is False) *)
Definition from_wire_out (a : pabs) (ignore_trailing raise_on_truncation : bool) : pout :=
  if p_short a then PErr neShortHeader
  else
    let m := p_msg a in
    let err :=
      match p_err a with
      | Some e => Some e
      | None => if negb ignore_trailing && p_trailing a then Some neTrailingJunk else None
      end in
    match err with
    | Some e =>
        if is_formerr e && has_tc m && raise_on_truncation then PTrunc m else PErr e
    | None =>
        if has_tc m && raise_on_truncation then PTrunc m else POk m
    end.

(* ---------- clock, deadline, _wait_for ---------- *)
(* _compute_times *)
Definition compute_times (now : Z) (timeout : option Z) : Z * option Z :=
  match timeout with
  | None => (now, None)
  | Some t => (now, Some (now + t))
  end.

(* _wait_for(fd, ...) when the socket becomes ready after dt (None: never).  Returns the clock
   after the wait. *)
Definition wait_for (now : Z) (expiration : option Z) (dt : option Z) : res Z :=
  match expiration with
  | None =>
      match dt with
      | Some d => Ok (now + d)
      | None => Internal niScriptEnd
      end
  | Some e =>
      let timeout := e - now in
      if timeout <=? 0 then Lib neTimeout
      else
        match dt with
        | Some d => if d <? timeout then Ok (now + d) else Lib neTimeout   (* sel.select(timeout) *)
        | None => Lib neTimeout
        end
  end.

(* ---------- UDP ---------- *)
Inductive uev :=
| UData (wire : list Z) (from : addr)   (* recvfrom returns a datagram *)
| UBlock (dt : option Z).                (* recvfrom raises BlockingIOError; readable after dt *)

Inductive sev :=
| SAccept (n : Z)                        (* sendto / send returns n *)
| SBlock (dt : option Z).

Record uopts := {
  o_ignore_unexpected : bool;
  o_one_rr_per_rrset : bool;
  o_ignore_trailing : bool;
  o_raise_on_truncation : bool;
  o_ignore_errors : bool
}.

(* result of a receive loop together with the number of socket events it consumed *)
Definition ures := (nat * res (msg * list Z * Z * addr * list uev))%type.

(* ---------- streams ---------- *)
Inductive rxev :=
| RAvail (k : nat)          (* recv(count) returns the next min(k, count) octets of the stream *)
| RBlock (dt : option Z)    (* BlockingIOError / ssl.SSLWantReadError / ssl.SSLWantWriteError; ready after dt *)
| REof.                     (* recv returns b"" *)

Inductive txev :=
| WAccept (k : nat)         (* send(buf) takes min(k, len(buf)) octets *)
| WBlock (dt : option Z).

(* the read side of a scripted stream socket *)
Record rsock := { rs_stream : list Z; rs_evs : list rxev; rs_now : Z }.


Section Parse.
  Variable parse : list Z -> pabs.

  (* receive_udp: the `while True` of receive_udp with the `while True` of _udp_recv flattened
     into it (one iteration per socket event) *)
  Fixpoint receive_udp (af : Z) (dest : option addr) (expiration : option Z) (o : uopts)
           (query : option msg) (evs : list uev) (now : Z) (i : nat) {struct evs} : ures :=
    match evs with
    | [] =>
        (* nothing will ever arrive: BlockingIOError, then _wait_for times out *)
        match wait_for now expiration None with
        | Ok _ => (i, Internal niScriptEnd)
        | Lib e => (i, Lib e)
        | Internal e => (i, Internal e)
        end
    | UBlock dt :: r =>
        match wait_for now expiration dt with
        | Ok now' => receive_udp af dest expiration o query r now' (S i)
        | Lib e => (S i, Lib e)
        | Internal e => (S i, Internal e)
        end
    | UData wire from :: r =>
        match matches_destination af from dest (o_ignore_unexpected o) with
        | Lib e => (S i, Lib e)
        | Internal e => (S i, Internal e)
        | Ok false => receive_udp af dest expiration o query r now (S i)
        | Ok true =>
            match from_wire_out (parse wire) (o_ignore_trailing o) (o_raise_on_truncation o) with
            | PTrunc m =>
                if o_ignore_errors o
                   && match query with Some q => negb (is_response q m) | None => false end
                then receive_udp af dest expiration o query r now (S i)
                else (S i, Lib neTruncated)
            | PErr e =>
                if o_ignore_errors o then receive_udp af dest expiration o query r now (S i)
                else (S i, err_res e)
            | POk m =>
                if o_ignore_errors o
                   && match query with Some q => negb (is_response q m) | None => false end
                then receive_udp af dest expiration o query r now (S i)
                else (S i, Ok (m, wire, now, from, r))
            end
        end
    end.

  (* _udp_send: returns what the socket returned *)
  Fixpoint udp_send (expiration : option Z) (len : Z) (evs : list sev) (now : Z) : res (Z * Z) :=
    match evs with
    | [] => Ok (len, now)
    | SAccept n :: _ => Ok (n, now)
    | SBlock dt :: r => do now' <- wait_for now expiration dt; udp_send expiration len r now'
    end.

  (* af_for_address(where) / low_level_address_tuple are abstracted: `where` is already the
     destination tuple; only the validity test is kept *)
  Definition where_valid (w : addr) : bool :=
    match a_v4 w, a_v6 w with None, None => false | _, _ => true end.

  (* udp(q, where, timeout, ..., sock=sock, ignore_errors);  af = sock.family *)
  Definition udp (q : msg) (qwire : list Z) (where_ : addr) (timeout : option Z) (af : Z)
             (o : uopts) (sevs : list sev) (evs : list uev) (now : Z) : ures :=
    if negb (where_valid where_) then (0%nat, Internal niValueError)
    else
      let '(begin_time, expiration) := compute_times now timeout in
      match udp_send expiration (zlen qwire) sevs now with
      | Lib e => (0%nat, Lib e)
      | Internal e => (0%nat, Internal e)
      | Ok (_, now1) =>
          match receive_udp af (Some where_) expiration o (Some q) evs now1 0%nat with
          | (i, Ok (r, w, received, from, rest)) =>
              if negb (o_ignore_errors o || is_response q r) then (i, Lib neBadResponse)
              else (i, Ok (r, w, received - begin_time, from, rest))
          | other => other
          end
      end.

  (* ---------- streams ---------- *)
  (* _net_read(sock, count, expiration); `s` is the accumulator of the Python loop *)
  Fixpoint net_read_loop (expiration : option Z) (evs : list rxev) (stream : list Z) (count : nat)
           (s : list Z) (now : Z) {struct evs} : res (list Z * rsock) :=
    match count with
    | O => Ok (s, {| rs_stream := stream; rs_evs := evs; rs_now := now |})
    | S _ =>
        match evs with
        | [] =>
            (* script exhausted: the socket hands over what is left, then reports EOF *)
            if Nat.leb count (length stream)
            then Ok (s ++ firstn count stream,
                     {| rs_stream := skipn count stream; rs_evs := []; rs_now := now |})
            else Lib neEOF
        | RAvail k :: r =>
            let n := firstn (Nat.min k count) stream in
            match n with
            | [] => Lib neEOF
            | _ => net_read_loop expiration r (skipn (length n) stream) (count - length n) (s ++ n) now
            end
        | RBlock dt :: r =>
            do now' <- wait_for now expiration dt;
            net_read_loop expiration r stream count s now'
        | REof :: _ => Lib neEOF
        end
    end.

  Definition net_read (expiration : option Z) (sk : rsock) (count : nat) : res (list Z * rsock) :=
    net_read_loop expiration (rs_evs sk) (rs_stream sk) count [] (rs_now sk).

  (* _net_write(sock, data, expiration); `data` is data[current:], `sent` what the socket took *)
  Fixpoint net_write_loop (expiration : option Z) (evs : list txev) (data : list Z) (sent : list Z)
           (now : Z) {struct evs} : res (list Z * list txev * Z) :=
    match data with
    | [] => Ok (sent, evs, now)
    | _ :: _ =>
        match evs with
        | [] => Ok (sent ++ data, [], now)
        | WAccept k :: r =>
            net_write_loop expiration r (skipn k data) (sent ++ firstn k data) now
        | WBlock dt :: r =>
            do now' <- wait_for now expiration dt;
            net_write_loop expiration r data sent now'
        end
    end.

  Definition u16be (n : Z) : list Z := [n / 256; n mod 256].

  (* send_tcp(sock, what: bytes, expiration) -> (len(tcpmsg), the octets the socket received) *)
  Definition send_tcp (expiration : option Z) (evs : list txev) (what : list Z) (now : Z)
    : res (Z * (list Z * list txev * Z)) :=
    if zlen what >? 65535 then Internal niOverflow
    else
      let tcpmsg := u16be (zlen what) ++ what in
      do st <- net_write_loop expiration evs tcpmsg [] now;
      Ok (zlen tcpmsg, st).

  (* receive_tcp(sock, expiration, one_rr_per_rrset, keyring, request_mac, ignore_trailing) *)
  Definition receive_tcp (expiration : option Z) (ignore_trailing : bool) (sk : rsock)
    : res (msg * list Z * rsock) :=
    do r1 <- net_read expiration sk 2;
    let '(ldata, sk1) := r1 in
    match ldata with
    | [hi; lo] =>
        let l := hi * 256 + lo in
        do r2 <- net_read expiration sk1 (Z.to_nat l);
        let '(wire, sk2) := r2 in
        match from_wire_out (parse wire) ignore_trailing false with
        | POk m => Ok (m, wire, sk2)
        | PTrunc _ => Lib neTruncated
        | PErr e => err_res e
        end
    | _ => Internal niOther   (* struct.error: unreachable, net_read returns exactly 2 octets *)
    end.

  (* tcp(q, ..., sock=sock): send, receive, final check *)
  Definition tcp (q : msg) (qwire : list Z) (timeout : option Z) (ignore_trailing : bool)
             (wevs : list txev) (stream : list Z) (revs : list rxev) (now : Z)
    : res (msg * list Z * Z * list Z * rsock) :=
    let '(begin_time, expiration) := compute_times now timeout in
    do s <- send_tcp expiration wevs qwire now;
    let '(_, (sent, _, now1)) := s in
    do r <- receive_tcp expiration ignore_trailing
              {| rs_stream := stream; rs_evs := revs; rs_now := now1 |};
    let '(m, wire, sk) := r in
    if negb (is_response q m) then Lib neBadResponse
    else Ok (m, wire, rs_now sk - begin_time, sent, sk).

  (* udp_with_fallback(q, where, timeout, ..., udp_sock, tcp_sock, ignore_errors): udp() with
     raise_on_truncation=True; on Truncated the query is repeated over TCP.  tcp() computes its
     own deadline from the clock at that moment = start + the would-blocks waited out so far
     (the udp socket accepts the send at once in this entry point). *)
  Definition with_rot (o : uopts) : uopts :=
    {| o_ignore_unexpected := o_ignore_unexpected o; o_one_rr_per_rrset := o_one_rr_per_rrset o;
       o_ignore_trailing := o_ignore_trailing o; o_raise_on_truncation := true;
       o_ignore_errors := o_ignore_errors o |}.

  Fixpoint blocks_time (evs : list uev) : Z :=
    match evs with
    | [] => 0
    | UBlock (Some d) :: r => d + blocks_time r
    | _ :: r => blocks_time r
    end.

  Definition udp_with_fallback (q : msg) (qwire : list Z) (where_ : addr) (timeout : option Z) (af : Z)
             (o : uopts) (evs : list uev) (wevs : list txev) (stream : list Z) (revs : list rxev)
             (now : Z) : res (bool * (msg * list Z * Z)) :=
    match udp q qwire where_ timeout af (with_rot o) [] evs now with
    | (_, Ok (r, w, t, _, _)) => Ok (false, (r, w, t))
    | (i, Lib e) =>
        if e =? neTruncated then
          do x <- tcp q qwire timeout (o_ignore_trailing o) wevs stream revs
                      (now + blocks_time (firstn i evs));
          let '(m, w, t, _, _) := x in Ok (true, (m, w, t))
        else Lib e
    | (_, Internal e) => Internal e
    end.

  (* k successive receive_tcp calls on one connection; stops at the first error *)
  Fixpoint receive_tcp_n (expiration : option Z) (ignore_trailing : bool) (k : nat) (sk : rsock)
    : list (res (msg * list Z * Z)) :=
    match k with
    | O => []
    | S k' =>
        match receive_tcp expiration ignore_trailing sk with
        | Ok (m, wire, sk') => Ok (m, wire, rs_now sk') :: receive_tcp_n expiration ignore_trailing k' sk'
        | Lib e => [Lib e]
        | Internal e => [Internal e]
        end
    end.

  (* successive send_tcp calls through one socket: the octets put on the wire *)
  Fixpoint send_tcp_n (expiration : option Z) (evs : list txev) (msgs : list (list Z)) (now : Z)
    : res (list Z) :=
    match msgs with
    | [] => Ok []
    | w :: r =>
        do s <- send_tcp expiration evs w now;
        let '(_, (sent, evs', now')) := s in
        do rest <- send_tcp_n expiration evs' r now';
        Ok (sent ++ rest)
    end.
End Parse.

(* ---------- dns.asyncquery primitives ---------- *)
(* With an async backend the *socket* waits: recv / recvfrom / sendall / sendto take a relative
   timeout = _timeout(expiration) computed when the call starts, pass over would-blocks by
   themselves and raise dns.exception.Timeout.  These are the scripted backend sockets of the
   harness plus the loops of dns/asyncquery.py; Proofs/NetAsync.v shows they compute exactly what
   the dns.query loops above compute, which is why the composite functions share one model. *)

(* _timeout(expiration) at clock `now`, as the absolute deadline of the backend call *)
Definition call_deadline (now : Z) (expiration : option Z) : option Z :=
  match expiration with
  | None => None
  | Some e => Some (now + Z.max (e - now) 0)
  end.

(* StreamSocket.recv(size, timeout) *)
Fixpoint arecv (dl : option Z) (evs : list rxev) (stream : list Z) (size : nat) (now : Z)
  : res (list Z * list rxev * list Z * Z) :=
  match evs with
  | [] => Ok (firstn size stream, [], skipn size stream, now)
  | RAvail k :: r =>
      let n := firstn (Nat.min k size) stream in Ok (n, r, skipn (length n) stream, now)
  | RBlock dt :: r => do now' <- wait_for now dl dt; arecv dl r stream size now'
  | REof :: r => Ok ([], r, stream, now)
  end.

(* _read_exactly(sock, count, expiration); fuel bounds the number of recv calls *)
Fixpoint aread_exactly (fuel : nat) (expiration : option Z) (evs : list rxev) (stream : list Z)
         (count : nat) (s : list Z) (now : Z) : res (list Z * rsock) :=
  match count with
  | O => Ok (s, {| rs_stream := stream; rs_evs := evs; rs_now := now |})
  | S _ =>
      match fuel with
      | O => Internal niOther
      | S f =>
          match arecv (call_deadline now expiration) evs stream count now with
          | Ok (n, evs', stream', now') =>
              match n with
              | [] => Lib neEOF
              | _ => aread_exactly f expiration evs' stream' (count - length n) (s ++ n) now'
              end
          | Lib e => Lib e
          | Internal e => Internal e
          end
      end
  end.

(* StreamSocket.sendall(what, timeout) *)
Fixpoint asendall (dl : option Z) (evs : list txev) (data sent : list Z) (now : Z)
  : res (list Z * list txev * Z) :=
  match data with
  | [] => Ok (sent, evs, now)
  | _ :: _ =>
      match evs with
      | [] => Ok (sent ++ data, [], now)
      | WAccept k :: r => asendall dl r (skipn k data) (sent ++ firstn k data) now
      | WBlock dt :: r => do now' <- wait_for now dl dt; asendall dl r data sent now'
      end
  end.

(* DatagramSocket.recvfrom(size, timeout): (datagram, events consumed) *)
Fixpoint arecvfrom (dl : option Z) (evs : list uev) (now : Z) (i : nat)
  : nat * res (list Z * addr * list uev * Z) :=
  match evs with
  | [] =>
      match wait_for now dl None with
      | Ok _ => (i, Internal niScriptEnd)
      | Lib e => (i, Lib e)
      | Internal e => (i, Internal e)
      end
  | UData wire from :: r => (S i, Ok (wire, from, r, now))
  | UBlock dt :: r =>
      match wait_for now dl dt with
      | Ok now' => arecvfrom dl r now' (S i)
      | Lib e => (S i, Lib e)
      | Internal e => (S i, Internal e)
      end
  end.

Section AsyncUdp.
  Variable parse : list Z -> pabs.

  (* dns.asyncquery.receive_udp: one recvfrom per iteration; fuel bounds the iterations *)
  Fixpoint areceive_udp (fuel : nat) (af : Z) (dest : option addr) (expiration : option Z) (o : uopts)
           (query : option msg) (evs : list uev) (now : Z) (i : nat) : ures :=
    match fuel with
    | O => (i, Internal niOther)
    | S f =>
        match arecvfrom (call_deadline now expiration) evs now i with
        | (j, Lib e) => (j, Lib e)
        | (j, Internal e) => (j, Internal e)
        | (j, Ok (wire, from, r, now')) =>
            match matches_destination af from dest (o_ignore_unexpected o) with
            | Lib e => (j, Lib e)
            | Internal e => (j, Internal e)
            | Ok false => areceive_udp f af dest expiration o query r now' j
            | Ok true =>
                match from_wire_out (parse wire) (o_ignore_trailing o) (o_raise_on_truncation o) with
                | PTrunc m =>
                    if o_ignore_errors o
                       && match query with Some q => negb (is_response q m) | None => false end
                    then areceive_udp f af dest expiration o query r now' j
                    else (j, Lib neTruncated)
                | PErr e =>
                    if o_ignore_errors o then areceive_udp f af dest expiration o query r now' j
                    else (j, err_res e)
                | POk m =>
                    if o_ignore_errors o
                       && match query with Some q => negb (is_response q m) | None => false end
                    then areceive_udp f af dest expiration o query r now' j
                    else (j, Ok (m, wire, now', from, r))
                end
            end
        end
    end.
End AsyncUdp.

(* ---------- harness interface ---------- *)
Definition eBad := 999.

Definition dec_bool (o : obs) : option bool :=
  match o with I 0 => Some false | I 1 => Some true | _ => None end.
Definition dec_oz (o : obs) : option (option Z) :=
  match o with N => Some None | I z => Some (Some z) | _ => None end.
Definition dec_obytes (o : obs) : option (option (list Z)) :=
  match o with N => Some None | B b => Some (Some b) | _ => None end.

Fixpoint dec_list {A} (f : obs -> option A) (l : list obs) : option (list A) :=
  match l with
  | [] => Some []
  | x :: r => match f x, dec_list f r with Some a, Some t => Some (a :: t) | _, _ => None end
  end.

Definition dec_z (o : obs) : option Z := match o with I z => Some z | _ => None end.

Definition dec_addr (o : obs) : option addr :=
  match o with
  | L [v4; v6; L rest; B _text] =>   (* the text form is for the implementation side only *)
      match dec_obytes v4, dec_obytes v6, dec_list dec_z rest with
      | Some a, Some b, Some r => Some {| a_v4 := a; a_v6 := b; a_rest := r |}
      | _, _, _ => None
      end
  | _ => None
  end.

Definition dec_oaddr (o : obs) : option (option addr) :=
  match o with
  | N => Some None
  | _ => match dec_addr o with Some a => Some (Some a) | None => None end
  end.

Definition dec_qent (o : obs) : option qent :=
  match o with
  | L [L n; I c; I t] =>
      match name_of_obs n with
      | Some n => Some {| q_name := n; q_class := c; q_type := t |}
      | None => None
      end
  | _ => None
  end.

Definition dec_msg (o : obs) : option msg :=
  match o with
  | L [I id; I fl; I ef; L q] =>
      match dec_list dec_qent q with
      | Some q => Some {| m_id := id; m_flags := fl; m_ednsflags := ef; m_question := q |}
      | None => None
      end
  | L [I id; I fl; I ef; L q; I _tsig_key] =>   (* which TSIG key signs the query: implementation side only *)
      match dec_list dec_qent q with
      | Some q => Some {| m_id := id; m_flags := fl; m_ednsflags := ef; m_question := q |}
      | None => None
      end
  | _ => None
  end.

Definition dec_omsg (o : obs) : option (option msg) :=
  match o with
  | N => Some None
  | _ => match dec_msg o with Some m => Some (Some m) | None => None end
  end.

Definition dec_pabs (o : obs) : option pabs :=
  match o with
  | L [sh; m; e; tr] =>
      match dec_bool sh, dec_msg m, dec_oz e, dec_bool tr with
      | Some sh, Some m, Some e, Some tr =>
          Some {| p_short := sh; p_msg := m; p_err := e; p_trailing := tr |}
      | _, _, _, _ => None
      end
  | _ => None
  end.

(* a stream is given literally or as (seed, length) of the generator
   x' = (x * 1103515245 + 12345) mod 2^31, octet = (x' / 65536) mod 256 *)
Fixpoint lcg (n : nat) (x : Z) : list Z :=
  match n with
  | O => []
  | S n' => let x' := (x * 1103515245 + 12345) mod 2147483648 in
            ((x' / 65536) mod 256) :: lcg n' x'
  end.

Definition dec_stream (o : obs) : option (list Z) :=
  match o with
  | B b => Some b
  | L [I seed; I len] => Some (lcg (Z.to_nat len) seed)
  | _ => None
  end.

Definition dec_tab_entry (o : obs) : option (list Z * pabs) :=
  match o with
  | L [w; a] => match dec_stream w, dec_pabs a with Some w, Some a => Some (w, a) | _, _ => None end
  | _ => None
  end.

(* a wire string the harness did not describe parses as a short header; the harness describes
   every string it sends, and `lookup_known` lets `run` report a missing entry *)
Definition empty_msg : msg := {| m_id := 0; m_flags := 0; m_ednsflags := 0; m_question := [] |}.
Definition unknown_pabs : pabs :=
  {| p_short := false; p_msg := empty_msg; p_err := Some niOther; p_trailing := false |}.

(* the first four octets of a message: id and flags *)
Definition wire_header (w : list Z) : option (Z * Z) :=
  match w with
  | b0 :: b1 :: b2 :: b3 :: _ => Some (b0 * 256 + b1, b2 * 256 + b3)
  | _ => None
  end.

(* a description agrees with its wire string on what can be read off the octets directly:
   short header <-> fewer than 12 octets, and id / flags are the first two 16-bit fields *)
Definition header_ok (w : list Z) (a : pabs) : bool :=
  if p_short a then Nat.ltb (length w) 12
  else negb (Nat.ltb (length w) 12)
       && match wire_header w with
          | Some (id, fl) => (id =? m_id (p_msg a)) && (fl =? m_flags (p_msg a))
          | None => false
          end.

(* the question section read off the octets: qdcount entries of (name, type, class) starting at
   offset 12, names decoded by NameM.from_wire (compression pointers included) *)
Definition u16_at (w : list Z) (pos : nat) : option Z :=
  match skipn pos w with
  | hi :: lo :: _ => Some (hi * 256 + lo)
  | _ => None
  end.

Fixpoint wire_questions (w : list Z) (n : nat) (pos : nat) : option (list qent) :=
  match n with
  | O => Some []
  | S n' =>
      match from_wire w pos with
      | Ok (nm, used) =>
          match u16_at w (pos + used), u16_at w (pos + used + 2) with
          | Some t, Some c =>
              match wire_questions w n' (pos + used + 4) with
              | Some r => Some ({| q_name := nm; q_class := c; q_type := t |} :: r)
              | None => None
              end
          | _, _ => None
          end
      | _ => None
      end
  end.

Definition wire_question_section (w : list Z) : option (list qent) :=
  match u16_at w 4 with
  | Some qd => wire_questions w (Z.to_nat qd) 12
  | None => None
  end.

Fixpoint qents_same (a b : list qent) : bool :=
  match a, b with
  | [], [] => true
  | x :: a', y :: b' =>
      (fix eqn (m n : name) : bool :=
         match m, n with
         | [], [] => true
         | l1 :: m', l2 :: n' => zlist_eqb l1 l2 && eqn m' n'
         | _, _ => false
         end) (q_name x) (q_name y)
      && (q_class x =? q_class y) && (q_type x =? q_type y) && qents_same a' b'
  | _, _ => false
  end.

(* a description of a completely parsed message must carry the question section that is on the
   wire, octet for octet *)
Definition question_ok (w : list Z) (a : pabs) : bool :=
  match p_err a with
  | Some _ => true
  | None =>
      if p_short a then true
      else match wire_question_section w with
           | Some qs => qents_same qs (m_question (p_msg a))
           | None => false
           end
  end.

(* descriptions that contradict their own wire string are not used (the case then shows up as
   a disagreement) *)
Fixpoint lookup (t : list (list Z * pabs)) (w : list Z) : pabs :=
  match t with
  | [] => unknown_pabs
  | (k, a) :: r =>
      if zlist_eqb k w then (if header_ok w a && question_ok w a then a else unknown_pabs) else lookup r w
  end.

Definition dec_uopts (o : obs) : option uopts :=
  match o with
  | L [a; b; c; d; e] =>
      match dec_bool a, dec_bool b, dec_bool c, dec_bool d, dec_bool e with
      | Some a, Some b, Some c, Some d, Some e =>
          Some {| o_ignore_unexpected := a; o_one_rr_per_rrset := b; o_ignore_trailing := c;
                  o_raise_on_truncation := d; o_ignore_errors := e |}
      | _, _, _, _, _ => None
      end
  | _ => None
  end.

Definition dec_uev (o : obs) : option uev :=
  match o with
  | L [I 0; B w; a] => match dec_addr a with Some a => Some (UData w a) | None => None end
  | L [I 1; d] => match dec_oz d with Some d => Some (UBlock d) | None => None end
  | _ => None
  end.

Definition dec_sev (o : obs) : option sev :=
  match o with
  | L [I 0; I n] => Some (SAccept n)
  | L [I 1; d] => match dec_oz d with Some d => Some (SBlock d) | None => None end
  | _ => None
  end.

Definition dec_rev (o : obs) : option rxev :=
  match o with
  | L [I 0; I k] => Some (RAvail (Z.to_nat k))
  | L [I 1; d] => match dec_oz d with Some d => Some (RBlock d) | None => None end
  (* recv raising ssl.SSLWantReadError (3) / ssl.SSLWantWriteError (4): like BlockingIOError the
     handler waits (for readability resp. writability) and the loop goes round again, so all three
     are the would-block event; which readiness the code waits for is checked by the scripted
     selector of the harness (waiting for the wrong one never ends) *)
  | L [I 3; d] => match dec_oz d with Some d => Some (RBlock d) | None => None end
  | L [I 4; d] => match dec_oz d with Some d => Some (RBlock d) | None => None end
  | L [I 2] => Some REof
  | _ => None
  end.

Definition dec_wev (o : obs) : option txev :=
  match o with
  | L [I 0; I k] => Some (WAccept (Z.to_nat k))
  | L [I 1; d] => match dec_oz d with Some d => Some (WBlock d) | None => None end
  (* send raising ssl.SSLWantReadError (3) / ssl.SSLWantWriteError (4): see dec_rev *)
  | L [I 3; d] => match dec_oz d with Some d => Some (WBlock d) | None => None end
  | L [I 4; d] => match dec_oz d with Some d => Some (WBlock d) | None => None end
  | _ => None
  end.

Definition enc_qent (q : qent) : obs := L [obs_of_name (q_name q); I (q_class q); I (q_type q)].
Definition enc_msg (m : msg) : obs :=
  L [I (m_id m); I (m_flags m); I (m_ednsflags m); L (map enc_qent (m_question m))].

Definition enc_res {A} (f : A -> obs) (r : res A) : obs :=
  match r with Ok a => f a | Lib e => E e | Internal e => E e end.

Definition enc_ures (two_tuple : bool) (u : ures) : obs :=
  let '(i, r) := u in
  match r with
  | Ok (m, _, t, _, _) => L [I 0; I (Z.of_nat i); enc_msg m; I t; ob two_tuple]
  | Lib e => L [E e; I (Z.of_nat i)]
  | Internal e => L [E e; I (Z.of_nat i)]
  end.

Definition enc_pout (p : pout) : obs :=
  match p with
  | POk m => L [I 0; enc_msg m]
  | PTrunc m => L [I 1; enc_msg m]
  | PErr e => E e
  end.

Definition opt_map2 {A B C} (f : A -> B -> C) (a : option A) (b : option B) : option C :=
  match a, b with Some a, Some b => Some (f a b) | _, _ => None end.

Definition or_bad (o : option obs) : obs := match o with Some x => x | None => E eBad end.

(* every exchange case is run through dns.query and dns.asyncquery; the two modules are one model
   (the observation is duplicated), except that the async receive_udp always returns a 3-tuple *)
Definition both (x : obs) : obs := L [x; x].

(* position-dependent digest used instead of the octets themselves for 64 kB streams *)
Definition digest (b : list Z) : obs :=
  L [I (zlen b); I (fold_left (fun h c => (h * 31 + c + 1) mod 2147483647) b 7)].

Definition run (c : obs) : obs :=
  match c with
  (* is_response *)
  | L [I 1; q; r] =>
      or_bad (opt_map2 (fun q r => ob (is_response q r)) (dec_msg q) (dec_msg r))
  (* _matches_destination *)
  | L [I 2; I af; from; dest; iu] =>
      match dec_addr from, dec_oaddr dest, dec_bool iu with
      | Some f, Some d, Some iu => enc_res ob (matches_destination af f d iu)
      | _, _, _ => E eBad
      end
  (* from_wire option handling *)
  | L [I 3; a; it; rot; B _wire] =>
      match dec_pabs a, dec_bool it, dec_bool rot with
      | Some a, Some it, Some rot => enc_pout (from_wire_out a it rot)
      | _, _, _ => E eBad
      end
  (* receive_udp, one script under a list of option combinations *)
  | L [I 4; I af; dest; exp; I now; L os; query; L tab; L evs] =>
      match dec_oaddr dest, dec_oz exp, dec_list dec_uopts os, dec_omsg query,
            dec_list dec_tab_entry tab, dec_list dec_uev evs with
      | Some d, Some exp, Some os, Some q, Some tab, Some evs =>
          L (map (fun o =>
                    L [enc_ures (match d with Some _ => true | None => false end)
                                (receive_udp (lookup tab) af d exp o q evs now 0%nat);
                       enc_ures false
                                (areceive_udp (lookup tab) (S (length evs)) af d exp o q evs now 0%nat)]) os)
      | _, _, _, _, _, _ => E eBad
      end
  (* udp, one script under a list of option combinations *)
  | L [I 5; q; B qwire; where_; timeout; I af; L os; L sevs; L tab; L evs; I now] =>
      match dec_msg q, dec_addr where_, dec_oz timeout, dec_list dec_uopts os, dec_list dec_sev sevs,
            dec_list dec_tab_entry tab, dec_list dec_uev evs with
      | Some q, Some w, Some t, Some os, Some sevs, Some tab, Some evs =>
          L (map (fun o => both (enc_ures false (udp (lookup tab) q qwire w t af o sevs evs now))) os)
      | _, _, _, _, _, _, _ => E eBad
      end
  (* _net_read, successive counts on one socket *)
  | L [I 6; stream; L evs; exp; I now; L counts] =>
      match dec_stream stream, dec_list dec_rev evs, dec_oz exp, dec_list dec_z counts with
      | Some s, Some evs, Some exp, Some counts =>
          let reads := fun (rd : rsock -> nat -> res (list Z * rsock)) =>
            L ((fix go (cs : list Z) (sk : rsock) : list obs :=
                match cs with
                | [] => [L [B (rs_stream sk); I (rs_now sk)]]
                | cnt :: cs' =>
                    match rd sk (Z.to_nat cnt) with
                    | Ok (b, sk') => B b :: go cs' sk'
                    | Lib e => [E e]
                    | Internal e => [E e]
                    end
                end) counts {| rs_stream := s; rs_evs := evs; rs_now := now |}) in
          L [reads (net_read exp);
             reads (fun sk cnt => aread_exactly (length (rs_evs sk) + 2) exp (rs_evs sk) (rs_stream sk)
                                                cnt [] (rs_now sk))]
      | _, _, _, _ => E eBad
      end
  (* _net_write *)
  | L [I 7; data; L evs; exp; I now] =>
      match dec_stream data, dec_list dec_wev evs, dec_oz exp with
      | Some d, Some evs, Some exp =>
          let enc := enc_res (fun st : list Z * list txev * Z => let '(sent, _, t) := st in L [B sent; I t]) in
          L [enc (net_write_loop exp evs d [] now);
             enc (asendall (call_deadline now exp) evs d [] now)]
      | _, _, _ => E eBad
      end
  (* send_tcp of several messages, then receive_tcp as many times on what was put on the wire;
     big = 1: octet strings are reported as digests *)
  | L [I 8; I big; L msgs; L wevs; L revs; exp; I now; it; L tab; I extra] =>
      match dec_list dec_stream msgs, dec_list dec_wev wevs, dec_list dec_rev revs, dec_oz exp,
            dec_bool it, dec_list dec_tab_entry tab with
      | Some msgs, Some wevs, Some revs, Some exp, Some it, Some tab =>
          let enc_b := fun b => if big =? 1 then digest b else B b in
          match send_tcp_n exp wevs msgs now with
          | Ok sent =>
              both (L (enc_b sent ::
                 map (enc_res (fun r => let '(m, w, t) := r in L [enc_b w; enc_msg m; I t]))
                     (receive_tcp_n (lookup tab) exp it (length msgs + Z.to_nat extra)
                        {| rs_stream := sent; rs_evs := revs; rs_now := now |})))
          | Lib e => both (E e)
          | Internal e => both (E e)
          end
      | _, _, _, _, _, _ => E eBad
      end
  (* tcp *)
  | L [I 9; q; B qwire; timeout; it; L wevs; stream; L revs; L tab; I now] =>
      match dec_msg q, dec_oz timeout, dec_bool it, dec_list dec_wev wevs, dec_stream stream,
            dec_list dec_rev revs, dec_list dec_tab_entry tab with
      | Some q, Some t, Some it, Some wevs, Some s, Some revs, Some tab =>
          both (enc_res (fun r => let '(m, w, time, sent, sk) := r in
                            L [B w; enc_msg m; I time; B sent; B (rs_stream sk)])
                  (tcp (lookup tab) q qwire t it wevs s revs now))
      | _, _, _, _, _, _, _ => E eBad
      end
  (* udp_with_fallback *)
  | L [I 10; q; B qwire; where_; timeout; I af; o; L tab; L evs; L wevs; stream; L revs; I now] =>
      match dec_msg q, dec_addr where_, dec_oz timeout, dec_uopts o, dec_list dec_tab_entry tab,
            dec_list dec_uev evs, dec_list dec_wev wevs, dec_stream stream, dec_list dec_rev revs with
      | Some q, Some w, Some t, Some o, Some tab, Some evs, Some wevs, Some s, Some revs =>
          both (enc_res (fun r => let '(used_tcp, (m, wire, time)) := r in
                                  L [ob used_tcp; B wire; enc_msg m; I time])
                  (udp_with_fallback (lookup tab) q qwire w t af o evs wevs s revs now))
      | _, _, _, _, _, _, _, _, _ => E eBad
      end
  (* send_tcp / send_udp given Message objects (plain, TSIG-signed, padded), rebuilt by the harness
     from a seed; the observation is the list of framing / round-trip problems found on the
     stream, which must be empty (send_tcp_frames_in_order, receive_tcp_messages_in_order) *)
  | L (I 11 :: _) => L []
  | _ => E eBad
  end.
