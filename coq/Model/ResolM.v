(* Model of the stub-resolver business logic:
     dns/resolver.py   _Resolution.{__init__,next_request,next_nameserver,query_result},
                       BaseResolver.{_get_qnames_to_try,_compute_timeout}, Resolver.resolve,
                       Answer.__init__, Cache.get/put (value semantics)
     dns/asyncresolver.py Resolver.resolve (same loop; the harness compares both with this model)
     dns/message.py    QueryMessage.resolve_chaining, Message.find_rrset (lookup and create)
     dns/rdataset.py   Rdataset.add / update_ttl as used when a reply is assembled
   The world is a script: query number i (counted over the whole life of the resolver) gets
   outcome `sc i` = a duration and either an exception class or a reply message; a reply that
   would take at least the granted timeout is a timeout.  Time is integer milliseconds.
   Definitions only; proofs live in Proofs/Resol*.v. *)
From DV Require Import Base.Prelude Model.NameM.
Open Scope Z_scope.

(* ---------- constants ---------- *)
Definition tA := 1. Definition tCNAME := 5. Definition tSOA := 6. Definition tANY := 255.
Definition tOPT := 41.
Definition cIN := 1. Definition cNONE := 254. Definition cANY := 255.
Definition rcNOERROR := 0. Definition rcSERVFAIL := 2. Definition rcNXDOMAIN := 3.
Definition rcYXDOMAIN := 6.
Definition MAX_CHAIN : nat := 16.
Definition MAX_TTL := 4294967295.  (* dns.ttl.MAX_TTL *)

(* Python-level failures of the modelled code (proved unreachable for well-formed configurations) *)
Definition iAssert := 150.      (* AssertionError *)
Definition iValueError := 151.  (* list.remove(x): x not in list *)

(* ---------- exceptions a query can raise, by class index of the harness table ---------- *)
Inductive exn := XFormError | XEOF | XOSError | XNotImpl | XTruncated | XTimeout | XOther.

Definition kTruncated := 11.
Definition kTimeout := 12.

(* the Python class hierarchy of the harness table EXC: which isinstance tests succeed *)
Definition exn_of_class (k : Z) : exn :=
  if (0 <=? k) && (k <=? 4) then XFormError        (* FormError, BadResponse, ShortHeader, TrailingJunk, BadLabelType *)
  else if k =? 5 then XEOF
  else if (6 <=? k) && (k <=? 9) then XOSError     (* OSError, ConnectionRefusedError, gaierror, TimeoutError *)
  else if k =? 10 then XNotImpl
  else if k =? 11 then XTruncated
  else if k =? 12 then XTimeout
  else if k =? 17 then XOSError                    (* ssl.SSLError *)
  else XOther.

(* ---------- messages ---------- *)
Inductive rdata := DName (n : name) | DSoa (minimum : Z) | DOther (k : Z).

Record rrset := { rs_name : name; rs_class : Z; rs_type : Z; rs_ttl : Z; rs_data : list rdata }.

Record question := { q_name : name; q_class : Z; q_type : Z }.

Record msg := {
  m_qr : bool;
  m_rcode : Z;
  m_question : list question;
  m_answer : list rrset;
  m_authority : list rrset
}.

Definition rdata_eqb (a b : rdata) : bool :=
  match a, b with
  | DName x, DName y => name_eqb x y
  | DSoa x, DSoa y => x =? y
  | DOther x, DOther y => x =? y
  | _, _ => false
  end.

Definition rs_match (n : name) (cls ty : Z) (r : rrset) : bool :=
  name_eqb (rs_name r) n && (rs_class r =? cls) && (rs_type r =? ty).

(* Message.find_rrset(section, name, rdclass, rdtype) without create: KeyError = None *)
Definition find_rrset (sec : list rrset) (n : name) (cls ty : Z) : option rrset :=
  find (rs_match n cls ty) sec.

(* dns.rdatatype.is_singleton for the types the replies use *)
Definition is_singleton (ty : Z) : bool :=
  (ty =? 5) || (ty =? 6) || (ty =? 39) || (ty =? 47) || (ty =? 50) || (ty =? 51).

(* Rdataset.add(rd, ttl): update_ttl (minimum, the set is non-empty), singleton types keep only
   the newest rdata, an rdata already present is not added twice *)
Definition rrset_add (r : rrset) (ttl : Z) (d : rdata) : rrset :=
  {| rs_name := rs_name r; rs_class := rs_class r; rs_type := rs_type r;
     rs_ttl := if ttl <? rs_ttl r then ttl else rs_ttl r;
     rs_data := if is_singleton (rs_type r) then [d]
                else if existsb (rdata_eqb d) (rs_data r) then rs_data r else rs_data r ++ [d] |}.

(* find_rrset(..., create=True) followed by rrset.add(rd, ttl) *)
Fixpoint section_add (sec : list rrset) (n : name) (cls ty ttl : Z) (d : rdata) : list rrset :=
  match sec with
  | [] => [ {| rs_name := n; rs_class := cls; rs_type := ty; rs_ttl := ttl; rs_data := [d] |} ]
  | r :: rest =>
      if rs_match n cls ty r then rrset_add r ttl d :: rest
      else r :: section_add rest n cls ty ttl d
  end.

(* ---------- QueryMessage.resolve_chaining ---------- *)
Definition eNotQueryResponse := 0.
Definition eChainFormError := 1.
Definition eChainTooLong := 2.
Definition eAnswerForNXDOMAIN := 3.

Record chaining := {
  ch_canonical : name;
  ch_answer : option rrset;
  ch_min_ttl : Z;
  ch_cnames : list rrset
}.

Definition first_target (r : rrset) (dflt : name) : name :=
  (* for rd in crrset: qname = rd.target; break *)
  match rs_data r with
  | DName t :: _ => t
  | _ => dflt
  end.

(* the `while count < MAX_CHAIN` loop; k = MAX_CHAIN - count.  The last component is true
   when the loop ended because count reached MAX_CHAIN. *)
Fixpoint chain_loop (k : nat) (ans : list rrset) (cls ty : Z) (qname : name) (min_ttl : Z)
         (cnames : list rrset) : (option rrset * name * Z * list rrset * bool) :=
  match k with
  | O => (None, qname, min_ttl, cnames, true)
  | S k' =>
      match find_rrset ans qname cls ty with
      | Some a => (Some a, qname, Z.min min_ttl (rs_ttl a), cnames, false)
      | None =>
          if negb (ty =? tCNAME) then
            match find_rrset ans qname cls tCNAME with
            | Some c =>
                chain_loop k' ans cls ty (first_target c qname) (Z.min min_ttl (rs_ttl c))
                           (cnames ++ [c])
            | None => (None, qname, min_ttl, cnames, false)
            end
          else (None, qname, min_ttl, cnames, false)
      end
  end.

Definition soa_minimum (r : rrset) : Z :=
  match rs_data r with DSoa m :: _ => m | _ => 0 end.

(* the NCACHE walk: SOA owned by a superdomain of the canonical name; fuel = labels + 1 *)
Fixpoint soa_walk (fuel : nat) (auth : list rrset) (cls : Z) (auname : name) (min_ttl : Z) : Z :=
  match fuel with
  | O => min_ttl
  | S f =>
      match find_rrset auth auname cls tSOA with
      | Some s => Z.min (Z.min min_ttl (rs_ttl s)) (soa_minimum s)
      | None =>
          match parent auname with
          | Ok p => soa_walk f auth cls p min_ttl
          | _ => min_ttl
          end
      end
  end.

Definition resolve_chaining (m : msg) : res chaining :=
  if negb (m_qr m) then Lib eNotQueryResponse
  else match m_question m with
       | [q] =>
           let '(answer, qname, min_ttl, cnames, exhausted) :=
             chain_loop MAX_CHAIN (m_answer m) (q_class q) (q_type q) (q_name q) MAX_TTL [] in
           if exhausted then Lib eChainTooLong
           else if (m_rcode m =? rcNXDOMAIN) && (match answer with Some _ => true | None => false end)
                then Lib eAnswerForNXDOMAIN
           else
             let min_ttl :=
               match answer with
               | Some _ => min_ttl
               | None => soa_walk (S (length qname)) (m_authority m) (q_class q) qname min_ttl
               end in
             Ok {| ch_canonical := qname; ch_answer := answer; ch_min_ttl := min_ttl; ch_cnames := cnames |}
       | _ => Lib eChainFormError
       end.

(* ---------- Answer ---------- *)
Record answer := {
  a_qname : name; a_rdtype : Z; a_rdclass : Z;
  a_canonical : name;
  a_rrset : option rrset;
  a_min_ttl : Z;
  a_expiration : Z;          (* ms *)
  a_server : option Z;       (* nameserver= argument *)
  a_ncnames : Z;
  a_rcode : Z;               (* response.rcode() *)
  a_src : Z                  (* which scripted reply is a.response *)
}.

Definition make_answer (qname : name) (rdtype rdclass : Z) (m : msg) (server : option Z)
           (now : Z) (src : Z) : res answer :=
  do ch <- resolve_chaining m;
  Ok {| a_qname := qname; a_rdtype := rdtype; a_rdclass := rdclass;
        a_canonical := ch_canonical ch; a_rrset := ch_answer ch; a_min_ttl := ch_min_ttl ch;
        a_expiration := now + 1000 * ch_min_ttl ch; a_server := server;
        a_ncnames := zlen (ch_cnames ch); a_rcode := m_rcode m; a_src := src |}.

(* ---------- the cache (dns.resolver.Cache / LRUCache below capacity), value semantics ---------- *)
Record ckey := { k_name : name; k_type : Z; k_class : Z }.
Definition ckey_eqb (a b : ckey) : bool :=
  name_eqb (k_name a) (k_name b) && (k_type a =? k_type b) && (k_class a =? k_class b).

Definition cache := list (ckey * answer).

Fixpoint cache_lookup (c : cache) (k : ckey) : option answer :=
  match c with
  | [] => None
  | (k', a) :: r => if ckey_eqb k' k then Some a else cache_lookup r k
  end.

(* get: expired entries (expiration <= now) are misses *)
Definition cache_get (c : cache) (k : ckey) (now : Z) : option answer :=
  match cache_lookup c k with
  | Some a => if a_expiration a <=? now then None else Some a
  | None => None
  end.

Fixpoint cache_put (c : cache) (k : ckey) (a : answer) : cache :=
  match c with
  | [] => [(k, a)]
  | (k', a') :: r => if ckey_eqb k' k then (k', a) :: r else (k', a') :: cache_put r k a
  end.

(* ---------- configuration of one resolve() call ---------- *)
Record server := { sv_id : Z; sv_maxsize : bool }.

Record cfg := {
  c_servers : list server;       (* resolver.nameservers, enriched *)
  c_tcp : bool;
  c_retry_servfail : bool;
  c_raise : bool;                (* raise_on_no_answer *)
  c_cache : bool;                (* resolver.cache is not None *)
  c_lifetime : Z;                (* effective lifetime, ms *)
  c_timeout : Z;                 (* resolver.timeout, ms *)
  c_rdtype : Z;
  c_rdclass : Z;
  c_qnames : list name           (* qnames_to_try *)
}.

(* one entry of _Resolution.errors: (server, tcp_attempt, what) *)
Record rerror := { er_server : Z; er_tcp : bool; er_code : Z }.

(* _Resolution *)
Record st := {
  s_qnames : list name;
  s_qname : name;
  s_nx : list (name * Z);        (* nxdomain_responses: qname -> reply *)
  s_nameservers : list server;
  s_current : list server;
  s_errors : list rerror;
  s_nameserver : option server;
  s_tcp_attempt : bool;
  s_retry_with_tcp : bool;
  s_have_request : bool;         (* self.request is not None *)
  s_backoff : Z;                 (* ms *)
  s_cache : cache                (* the resolver's cache *)
}.

Definition init_st (c : cfg) (ch : cache) : st :=
  {| s_qnames := c_qnames c; s_qname := empty; s_nx := []; s_nameservers := []; s_current := [];
     s_errors := []; s_nameserver := None; s_tcp_attempt := false; s_retry_with_tcp := false;
     s_have_request := false; s_backoff := 0; s_cache := ch |}.

(* dict assignment nxdomain_responses[qname] = response *)
Fixpoint nx_set (l : list (name * Z)) (q : name) (v : Z) : list (name * Z) :=
  match l with
  | [] => [(q, v)]
  | (q', v') :: r => if name_eqb q' q then (q', v) :: r else (q', v') :: nx_set r q v
  end.

Fixpoint nx_get (l : list (name * Z)) (q : name) : option Z :=
  match l with
  | [] => None
  | (q', v) :: r => if name_eqb q' q then Some v else nx_get r q
  end.

(* ---------- next_request ---------- *)
Inductive nres :=
| NRequest (s : st)
| NAnswer (s : st) (a : answer)       (* cache hit *)
| NNoAnswer (s : st) (a : answer)     (* cached no-data and raise_on_no_answer *)
| NNXDOMAIN (s : st).                 (* qnames exhausted *)

Definition arm (c : cfg) (s : st) (q : name) (rest : list name) : st :=
  let nss := if s_have_request s then s_nameservers s else c_servers c in
  {| s_qnames := rest; s_qname := q; s_nx := s_nx s; s_nameservers := nss; s_current := nss;
     s_errors := []; s_nameserver := None; s_tcp_attempt := false; s_retry_with_tcp := false;
     s_have_request := true; s_backoff := 100; s_cache := s_cache s |}.

Definition with_qname (s : st) (q : name) (rest : list name) : st :=
  {| s_qnames := rest; s_qname := q; s_nx := s_nx s; s_nameservers := s_nameservers s;
     s_current := s_current s; s_errors := s_errors s; s_nameserver := s_nameserver s;
     s_tcp_attempt := s_tcp_attempt s; s_retry_with_tcp := s_retry_with_tcp s;
     s_have_request := s_have_request s; s_backoff := s_backoff s; s_cache := s_cache s |}.

Definition with_nx (s : st) (nx : list (name * Z)) : st :=
  {| s_qnames := s_qnames s; s_qname := s_qname s; s_nx := nx; s_nameservers := s_nameservers s;
     s_current := s_current s; s_errors := s_errors s; s_nameserver := s_nameserver s;
     s_tcp_attempt := s_tcp_attempt s; s_retry_with_tcp := s_retry_with_tcp s;
     s_have_request := s_have_request s; s_backoff := s_backoff s; s_cache := s_cache s |}.

Fixpoint next_request (c : cfg) (s : st) (qnames : list name) (now : Z) : nres :=
  match qnames with
  | [] => NNXDOMAIN s
  | q :: rest =>
      let s := with_qname s q rest in
      if c_cache c then
        match cache_get (s_cache s) {| k_name := q; k_type := c_rdtype c; k_class := c_rdclass c |} now with
        | Some a =>
            if (match a_rrset a with None => true | Some _ => false end) && c_raise c
            then NNoAnswer s a else NAnswer s a
        | None =>
            match cache_get (s_cache s) {| k_name := q; k_type := tANY; k_class := c_rdclass c |} now with
            | Some a =>
                if a_rcode a =? rcNXDOMAIN
                then next_request c (with_nx s (nx_set (s_nx s) q (a_src a))) rest now
                else NRequest (arm c s q rest)
            | None => NRequest (arm c s q rest)
            end
        end
      else NRequest (arm c s q rest)
  end.

(* ---------- next_nameserver ---------- *)
Inductive nsres :=
| NSOk (s : st) (ns : server) (tcp : bool) (backoff : Z)
| NSNone (s : st)                     (* raise NoNameservers *)
| NSInt (code : Z).

Definition pop_server (c : cfg) (s : st) (ns : server) (rest : list server) (backoff nb : Z) : nsres :=
  let tcp := c_tcp c || sv_maxsize ns in
  NSOk {| s_qnames := s_qnames s; s_qname := s_qname s; s_nx := s_nx s;
          s_nameservers := s_nameservers s; s_current := rest; s_errors := s_errors s;
          s_nameserver := Some ns; s_tcp_attempt := tcp; s_retry_with_tcp := s_retry_with_tcp s;
          s_have_request := s_have_request s; s_backoff := nb; s_cache := s_cache s |}
       ns tcp backoff.

Definition next_nameserver (c : cfg) (s : st) : nsres :=
  if s_retry_with_tcp s then
    match s_nameserver s with
    | None => NSInt iAssert
    | Some ns =>
        if sv_maxsize ns then NSInt iAssert
        else NSOk {| s_qnames := s_qnames s; s_qname := s_qname s; s_nx := s_nx s;
                     s_nameservers := s_nameservers s; s_current := s_current s;
                     s_errors := s_errors s; s_nameserver := Some ns; s_tcp_attempt := true;
                     s_retry_with_tcp := false; s_have_request := s_have_request s;
                     s_backoff := s_backoff s; s_cache := s_cache s |} ns true 0
    end
  else
    match s_current s with
    | ns :: rest => pop_server c s ns rest 0 (s_backoff s)
    | [] =>
        match s_nameservers s with
        | [] => NSNone s
        | ns :: rest => pop_server c s ns rest (s_backoff s) (Z.min (s_backoff s * 2) 2000)
        end
    end.

(* ---------- query_result ---------- *)
Inductive oreply := OExn (k : Z) | OMsg (m : msg).

Inductive qres :=
| QCont (s : st)                      (* (None, False) *)
| QAnswer (s : st) (a : answer)       (* (answer, True) *)
| QNext (s : st)                      (* (None, True): NXDOMAIN for this candidate *)
| QNoAnswer (s : st) (a : answer)     (* raise NoAnswer *)
| QYX (s : st)                        (* raise YXDOMAIN *)
| QInt (code : Z).

Fixpoint remove_server (x : server) (l : list server) : option (list server) :=
  match l with
  | [] => None
  | y :: r => if sv_id y =? sv_id x then Some r
              else match remove_server x r with Some r' => Some (y :: r') | None => None end
  end.

Definition upd (s : st) (nss : list server) (errs : list rerror) (retry : bool) (nx : list (name * Z))
           (ch : cache) : st :=
  {| s_qnames := s_qnames s; s_qname := s_qname s; s_nx := nx; s_nameservers := nss;
     s_current := s_current s; s_errors := errs; s_nameserver := s_nameserver s;
     s_tcp_attempt := s_tcp_attempt s; s_retry_with_tcp := retry;
     s_have_request := s_have_request s; s_backoff := s_backoff s; s_cache := ch |}.

Definition mk_err (s : st) (ns : server) (code : Z) : rerror :=
  {| er_server := sv_id ns; er_tcp := s_tcp_attempt s; er_code := code |}.

(* errors.append(e) then nameservers.remove(nameserver) *)
Definition err_then_drop (s : st) (ns : server) (code : Z) : qres :=
  match remove_server ns (s_nameservers s) with
  | Some nss => QCont (upd s nss (s_errors s ++ [mk_err s ns code]) (s_retry_with_tcp s) (s_nx s) (s_cache s))
  | None => QInt iValueError
  end.

Definition err_only (s : st) (ns : server) (code : Z) (retry : bool) : st :=
  upd s (s_nameservers s) (s_errors s ++ [mk_err s ns code]) retry (s_nx s) (s_cache s).

Definition query_result (c : cfg) (s : st) (now : Z) (src : Z) (r : oreply) : qres :=
  match s_nameserver s with
  | None => QInt iAssert
  | Some ns =>
      match r with
      | OExn k =>
          match exn_of_class k with
          | XFormError | XEOF | XOSError | XNotImpl => err_then_drop s ns k
          | XTruncated =>
              if s_tcp_attempt s then err_then_drop s ns k
              else QCont (err_only s ns k true)
          | XTimeout | XOther => QCont (err_only s ns k (s_retry_with_tcp s))
          end
      | OMsg m =>
          let rcode := m_rcode m in
          if rcode =? rcNOERROR then
            match make_answer (s_qname s) (c_rdtype c) (c_rdclass c) m (Some (sv_id ns)) now src with
            | Ok a =>
                let s1 := if c_cache c
                          then upd s (s_nameservers s) (s_errors s) (s_retry_with_tcp s) (s_nx s)
                                   (cache_put (s_cache s)
                                      {| k_name := s_qname s; k_type := c_rdtype c; k_class := c_rdclass c |} a)
                          else s in
                if (match a_rrset a with None => true | Some _ => false end) && c_raise c
                then QNoAnswer s1 a else QAnswer s1 a
            | Lib e => err_then_drop s ns (200 + e)
            | Internal e => QInt e
            end
          else if rcode =? rcNXDOMAIN then
            match make_answer (s_qname s) tANY cIN m None now src with
            | Ok a =>
                let nx := nx_set (s_nx s) (s_qname s) src in
                let ch := if c_cache c
                          then cache_put (s_cache s)
                                 {| k_name := s_qname s; k_type := tANY; k_class := c_rdclass c |} a
                          else s_cache s in
                QNext (upd s (s_nameservers s) (s_errors s) (s_retry_with_tcp s) nx ch)
            | Lib e => err_then_drop s ns (200 + e)
            | Internal e => QInt e
            end
          else if rcode =? rcYXDOMAIN then
            QYX (err_only s ns 300 (s_retry_with_tcp s))
          else if negb (rcode =? rcSERVFAIL) || negb (c_retry_servfail c) then
            (* nameservers.remove(...) then errors.append(...) *)
            err_then_drop s ns (100 + rcode)
          else QCont (err_only s ns (100 + rcode) (s_retry_with_tcp s))
      end
  end.

(* ---------- _compute_timeout ---------- *)
(* None = raise LifetimeTimeout(timeout=duration); the duration is returned alongside *)
Definition compute_timeout (start lifetime timeout now : Z) : Z + Z :=
  let duration := now - start in
  if duration <? 0 then
    if duration <? -1000 then inr duration
    else if 0 >=? lifetime then inr 0 else inl (Z.min (lifetime - 0) timeout)
  else if duration >=? lifetime then inr duration
  else inl (Z.min (lifetime - duration) timeout).

(* ---------- the world ---------- *)
(* a reply as the script gives it: owners / CNAME targets may refer to the question name *)
Record prr := { p_owner : option name; p_class : Z; p_type : Z; p_ttl : Z; p_data : option name; p_num : Z }.
Record pmsg := { pm_qr : bool; pm_rcode : Z; pm_nq : nat; pm_answer : list prr; pm_authority : list prr }.
Inductive preply := PExn (k : Z) | PMsg (p : pmsg).
(* what the server does is seen through the transport: o_reply is what a UDP query observes,
   o_reply_tcp what a TCP (max-size) query observes (e.g. a reply with an empty question section and
   rcode NOERROR is ignored by the UDP transport - a timeout - and is a BadResponse over TCP) *)
Record outcome := { o_dur : Z; o_reply : preply; o_reply_tcp : preply }.

Definition face (o : outcome) (tcp : bool) : outcome :=
  {| o_dur := o_dur o; o_reply := if tcp then o_reply_tcp o else o_reply o; o_reply_tcp := o_reply_tcp o |}.

Definition inst_rr (q : name) (sec : list rrset) (r : prr) : list rrset :=
  let owner := match p_owner r with Some n => n | None => q end in
  let d := if p_type r =? tCNAME then DName (match p_data r with Some n => n | None => q end)
           else if p_type r =? tSOA then DSoa (p_num r)
           else DOther (p_num r mod 256) in
  section_add sec owner (p_class r) (p_type r) (p_ttl r) d.

Definition inst_msg (q : question) (p : pmsg) : msg :=
  {| m_qr := pm_qr p; m_rcode := pm_rcode p; m_question := repeat q (pm_nq p);
     m_answer := fold_left (inst_rr (q_name q)) (pm_answer p) [];
     m_authority := fold_left (inst_rr (q_name q)) (pm_authority p) [] |}.

Definition is_timeout_reply (r : preply) : bool :=
  match r with PExn k => k =? kTimeout | PMsg _ => false end.

(* what the resolver observes for a query issued at `clock` with granted timeout T *)
Definition observe (o : outcome) (T clock : Z) (q : question) : oreply * Z :=
  if is_timeout_reply (o_reply o) || (o_dur o >=? T) then (OExn kTimeout, clock + Z.max 0 T)
  else (match o_reply o with PExn k => OExn k | PMsg p => OMsg (inst_msg q p) end, clock + o_dur o).

Record event := {
  ev_server : Z; ev_tcp : bool; ev_backoff : Z; ev_timeout : Z; ev_qname : name; ev_idx : nat;
  ev_start : Z;                (* clock when the query was issued *)
  ev_end : Z;                  (* clock when the reply / failure was observed *)
  ev_left : nat;               (* candidate names not yet tried when the query was issued *)
  ev_level : Z;                (* the back-off the next re-arm of the round will sleep *)
  ev_obs : oreply              (* what came back *)
}.

Record env := { e_clock : Z; e_pos : nat; e_trace : list event }.

(* ---------- Resolver.resolve ---------- *)
Inductive final :=
| FAnswer (a : answer)
| FNoAnswer (a : answer)
| FNXDOMAIN (qnames : list name) (nx : list (name * Z))
| FYXDOMAIN
| FNoNameservers (errs : list rerror)
| FLifetime (errs : list rerror) (duration : Z)
| FNoMetaqueries
| FLibError (e : Z)
| FInternal (e : Z)
| FFuel.

Definition after_next (c : cfg) (r : nres) : (st + (final * st)) :=
  match r with
  | NRequest s => inl s
  | NAnswer s a => inr (FAnswer a, s)
  | NNoAnswer s a => inr (FNoAnswer a, s)
  | NNXDOMAIN s => inr (FNXDOMAIN (c_qnames c) (s_nx s), s)
  end.

(* one iteration of the inner `while not done` loop, including the next_request() that follows
   an NXDOMAIN *)
Definition step (sc : nat -> outcome) (c : cfg) (start : Z) (s : st) (e : env)
  : (st * env) + (final * st * env) :=
  match next_nameserver c s with
  | NSInt k => inr (FInternal k, s, e)
  | NSNone s1 => inr (FNoNameservers (s_errors s1), s1, e)
  | NSOk s1 ns tcp backoff =>
      let clock1 := e_clock e + backoff in
      match compute_timeout start (c_lifetime c) (c_timeout c) clock1 with
      | inr d => inr (FLifetime (s_errors s1) d, s1, {| e_clock := clock1; e_pos := e_pos e; e_trace := e_trace e |})
      | inl T =>
          let q := {| q_name := s_qname s1; q_class := c_rdclass c; q_type := c_rdtype c |} in
          let '(ob, clock2) := observe (face (sc (e_pos e)) tcp) T clock1 q in
          let ev := {| ev_server := sv_id ns; ev_tcp := tcp; ev_backoff := backoff; ev_timeout := T;
                       ev_qname := s_qname s1; ev_idx := e_pos e; ev_start := clock1; ev_end := clock2; ev_left := length (s_qnames s1); ev_level := s_backoff s1; ev_obs := ob |} in
          let e2 := {| e_clock := clock2; e_pos := S (e_pos e); e_trace := e_trace e ++ [ev] |} in
          match query_result c s1 clock2 (Z.of_nat (e_pos e)) ob with
          | QCont s2 => inl (s2, e2)
          | QAnswer s2 a => inr (FAnswer a, s2, e2)
          | QNoAnswer s2 a => inr (FNoAnswer a, s2, e2)
          | QYX s2 => inr (FYXDOMAIN, s2, e2)
          | QInt k => inr (FInternal k, s1, e2)
          | QNext s2 =>
              match after_next c (next_request c s2 (s_qnames s2) clock2) with
              | inl s3 => inl (s3, e2)
              | inr (f, s3) => inr (f, s3, e2)
              end
          end
      end
  end.

Fixpoint loop (fuel : nat) (sc : nat -> outcome) (c : cfg) (start : Z) (s : st) (e : env)
  : final * st * env :=
  match fuel with
  | O => (FFuel, s, e)
  | S f =>
      match step sc c start s e with
      | inl (s', e') => loop f sc c start s' e'
      | inr r => r
      end
  end.

(* fuel that is enough whenever durations are non-negative (Proofs/ResolTerm.v) *)
Definition weight (c : cfg) : nat := (2 * length (c_servers c) + 2)%nat.
Definition rearm_budget (deadline clock : Z) : nat := Z.to_nat ((deadline - clock + 99) / 100).
Definition fuel_bound (c : cfg) : nat :=
  (weight c * (length (c_qnames c) + rearm_budget (c_lifetime c) 0 + 1) + 1)%nat.

Definition is_metatype (t : Z) : bool := ((128 <=? t) && (t <? 256)) || (t =? tOPT).
Definition is_metaclass (k : Z) : bool := (k =? cNONE) || (k =? cANY).

(* resolve() once the candidate names are known *)
Definition resolve_with (fuel : nat) (sc : nat -> outcome) (c : cfg) (ch : cache) (e : env)
  : final * st * env :=
  let s0 := init_st c ch in
  let start := e_clock e in
  match after_next c (next_request c s0 (c_qnames c) start) with
  | inl s1 => loop fuel sc c start s1 e
  | inr (f, s1) => (f, s1, e)
  end.

(* ---------- _get_qnames_to_try ---------- *)
Record rcfg := {
  r_servers : list server;
  r_timeout : Z;
  r_lifetime : Z;
  r_retry_servfail : bool;
  r_cache : bool;
  r_use_search_by_default : bool;
  r_search : list name;
  r_domain : name;
  r_ndots : option Z
}.

Fixpoint concat_all (q : name) (sl : list name) : res (list name) :=
  match sl with
  | [] => Ok []
  | s :: r => do x <- concatenate q s; do xs <- concat_all q r; Ok (x :: xs)
  end.

Definition search_list (r : rcfg) : list name :=
  match r_search r with
  | _ :: _ => r_search r
  | [] => if negb (name_eqb (r_domain r) root) then [r_domain r] else []
  end.

Definition qnames_to_try (r : rcfg) (qname : name) (search : option bool) : res (list name) :=
  let search := match search with None => r_use_search_by_default r | Some b => b end in
  if is_absolute qname then Ok [qname]
  else
    do abs <- concatenate qname root;
    if search then
      let ndots := match r_ndots r with None => 1 | Some n => n end in
      do l <- concat_all qname (search_list r);
      if zlen qname >? ndots then Ok (abs :: l) else Ok (l ++ [abs])
    else Ok [abs].

(* one resolve() call *)
Record request := {
  rq_qname : name; rq_rdtype : Z; rq_rdclass : Z; rq_tcp : bool; rq_raise : bool;
  rq_lifetime : option Z; rq_search : option bool; rq_advance : Z;
  rq_preload : bool    (* not a resolve() call: the user stores an Answer with resolver.cache.put *)
}.

Definition mk_cfg (r : rcfg) (rq : request) (qs : list name) : cfg :=
  {| c_servers := r_servers r; c_tcp := rq_tcp rq; c_retry_servfail := r_retry_servfail r;
     c_raise := rq_raise rq; c_cache := r_cache r;
     c_lifetime := match rq_lifetime rq with Some l => l | None => r_lifetime r end;
     c_timeout := r_timeout r; c_rdtype := rq_rdtype rq; c_rdclass := rq_rdclass rq;
     c_qnames := qs |}.

Definition resolve (extra_fuel : nat) (sc : nat -> outcome) (r : rcfg) (rq : request) (ch : cache)
           (e : env) : final * cache * env :=
  if is_metatype (rq_rdtype rq) then (FNoMetaqueries, ch, e)
  else if is_metaclass (rq_rdclass rq) then (FNoMetaqueries, ch, e)
  else match qnames_to_try r (rq_qname rq) (rq_search rq) with
       | Ok qs =>
           let c := mk_cfg r rq qs in
           let '(f, s, e') := resolve_with (fuel_bound c + extra_fuel) sc c ch e in
           (f, s_cache s, e')
       | Lib er => (FLibError er, ch, e)
       | Internal er => (FInternal er, ch, e)
       end.

(* ---------- observation for the correspondence check ---------- *)
(* To keep the case files small every name of a case is interned: the case starts with a table of
   names, the rest refers to them by index; a name in the output is printed as its index in the
   table, as a pair of indices when it is the concatenation of two table entries (a search-list
   candidate), or label by label. *)
Definition eBadCase := 999.

Definition obs_opt {A} (f : A -> obs) (o : option A) : obs := match o with Some a => f a | None => N end.

Fixpoint labels_eqb (a b : name) : bool :=
  match a, b with
  | [], [] => true
  | x :: a', y :: b' => zlist_eqb x y && labels_eqb a' b'
  | _, _ => false
  end.

Fixpoint index_of (tbl : list name) (n : name) (i : Z) : option Z :=
  match tbl with
  | [] => None
  | x :: r => if labels_eqb x n then Some i else index_of r n (i + 1)
  end.

(* n = tbl[i] ++ tbl[j], first such pair in lexicographic order of (i, j) *)
Fixpoint strip_prefix (p n : name) : option name :=
  match p, n with
  | [], _ => Some n
  | x :: p', y :: n' => if zlist_eqb x y then strip_prefix p' n' else None
  | _ :: _, [] => None
  end.

Fixpoint index_pair (all tbl : list name) (n : name) (i : Z) : option (Z * Z) :=
  match tbl with
  | [] => None
  | x :: r =>
      match strip_prefix x n with
      | Some rest =>
          match index_of all rest 0 with
          | Some j => Some (i, j)
          | None => index_pair all r n (i + 1)
          end
      | None => index_pair all r n (i + 1)
      end
  end.

Definition enc_name (tbl : list name) (n : name) : obs :=
  match index_of tbl n 0 with
  | Some i => I i
  | None =>
      match index_pair tbl tbl n 0 with
      | Some (i, j) => L [I i; I j]
      | None => L [obs_of_name n]
      end
  end.

Section WithTable.
Variable tbl : list name.

Definition obs_of_event (ev : event) : obs :=
  L [I (ev_server ev); ob (ev_tcp ev); I (ev_backoff ev); I (ev_timeout ev); enc_name tbl (ev_qname ev);
     I (Z.of_nat (ev_idx ev))].

Definition obs_of_error (x : rerror) : obs := L [I (er_server x); ob (er_tcp x); I (er_code x)].

Definition obs_of_rrset (r : rrset) : obs :=
  L [enc_name tbl (rs_name r); I (rs_type r); I (rs_ttl r); I (zlen (rs_data r))].

Definition obs_of_answer (a : answer) : list obs :=
  [enc_name tbl (a_qname a); I (a_rdtype a); I (a_rdclass a); enc_name tbl (a_canonical a);
   obs_opt obs_of_rrset (a_rrset a); I (a_min_ttl a); I (a_expiration a); obs_opt I (a_server a);
   I (a_ncnames a); I (a_src a)].

Definition obs_of_final (f : final) : obs :=
  match f with
  | FAnswer a => L (I 0 :: obs_of_answer a)
  | FNoAnswer a => L [I 1; I (a_src a)]
  | FNXDOMAIN qs nx => L [I 2; L (map (enc_name tbl) qs); L (map (fun q => obs_opt I (nx_get nx q)) qs)]
  | FYXDOMAIN => L [I 3]
  | FNoNameservers errs => L [I 4; L (map obs_of_error errs)]
  | FLifetime errs d => L [I 5; L (map obs_of_error errs); I d]
  | FNoMetaqueries => L [I 6]
  | FLibError e => E e
  | FInternal e => E e
  | FFuel => E iFuel
  end.

(* decoding of a case *)
Definition bool_of (z : Z) : bool := negb (z =? 0).

Definition name_of (o : obs) : option name :=
  match o with
  | I k => if k <? 0 then None else nth_error tbl (Z.to_nat k)
  | L l => name_of_obs l
  | _ => None
  end.

Fixpoint map_opt {A B} (f : A -> option B) (l : list A) : option (list B) :=
  match l with
  | [] => Some []
  | x :: r => match f x, map_opt f r with Some y, Some ys => Some (y :: ys) | _, _ => None end
  end.

Definition server_of (o : obs) : option server :=
  (* kinds of the harness: 0 Do53 address, 1 DoH URL, 2 scripted, 3 scripted always-max-size *)
  match o with L [I i; I k] => Some {| sv_id := i; sv_maxsize := (k =? 1) || (k =? 3) |} | _ => None end.

Definition optZ_of (o : obs) : option (option Z) :=
  match o with N => Some None | I z => Some (Some z) | _ => None end.

Definition rcfg_of (o : obs) : option rcfg :=
  match o with
  | L [L svs; I timeout; I lifetime; I rsf; I cachek; I usbd; L search; dom; nd] =>
      match map_opt server_of svs, map_opt name_of search, name_of dom, optZ_of nd with
      | Some svs, Some search, Some dom, Some nd =>
          Some {| r_servers := svs; r_timeout := timeout; r_lifetime := lifetime;
                  r_retry_servfail := bool_of rsf; r_cache := bool_of cachek;
                  r_use_search_by_default := bool_of usbd; r_search := search; r_domain := dom;
                  r_ndots := nd |}
      | _, _, _, _ => None
      end
  | _ => None
  end.

Definition request_of (o : obs) : option request :=
  match o with
  | L [qn; I ty; I cls; I tcp; I raise; lt; srch; I adv; I pre] =>
      match name_of qn, optZ_of lt, optZ_of srch with
      | Some qn, Some lt, Some srch =>
          Some {| rq_qname := qn; rq_rdtype := ty; rq_rdclass := cls; rq_tcp := bool_of tcp;
                  rq_raise := bool_of raise; rq_lifetime := lt;
                  rq_search := option_map bool_of srch; rq_advance := adv; rq_preload := bool_of pre |}
      | _, _, _ => None
      end
  | _ => None
  end.

Definition oname_of (o : obs) : option (option name) :=
  match o with N => Some None | _ => option_map Some (name_of o) end.

(* a CNAME record carries a name (N = the question name), other records a number *)
Definition prr_of (o : obs) : option prr :=
  match o with
  | L [ow; I cls; I ty; I ttl; d] =>
      match oname_of ow with
      | Some ow =>
          if ty =? tCNAME then
            match oname_of d with
            | Some d => Some {| p_owner := ow; p_class := cls; p_type := ty; p_ttl := ttl; p_data := d; p_num := 0 |}
            | None => None
            end
          else match d with
               | I k => Some {| p_owner := ow; p_class := cls; p_type := ty; p_ttl := ttl; p_data := None; p_num := k |}
               | _ => None
               end
      | None => None
      end
  | _ => None
  end.

Definition preply_of (o : obs) : option preply :=
  match o with
  | I k => Some (PExn k)
  | L [I qr; I rc; I nq; L ans; L auth] =>
      match map_opt prr_of ans, map_opt prr_of auth with
      | Some ans, Some auth =>
          Some (PMsg {| pm_qr := bool_of qr; pm_rcode := rc; pm_nq := Z.to_nat nq;
                        pm_answer := ans; pm_authority := auth |})
      | _, _ => None
      end
  | _ => None
  end.

Definition outcome_of (o : obs) : option outcome :=
  match o with
  | L [I d; L [I k; I aux; m]] =>
      (* a server behaviour at wire level (harness family `wire`): the two faces are what the documented
         transport semantics of dns.query.udp(ignore_errors, ignore_unexpected, raise_on_truncation) and
         dns.query.tcp give.  aux = spoofed / malformed datagrams sent before the reply: always skipped. *)
      match preply_of m with
      | Some r =>
          let both x := Some {| o_dur := d; o_reply := x; o_reply_tcp := x |} in
          let two u t := Some {| o_dur := d; o_reply := u; o_reply_tcp := t |} in
          if k =? 0 then both r                                   (* a normal reply *)
          else if k =? 1 then                                     (* header only: empty question section *)
            match r with
            | PMsg p => if (pm_rcode p =? 1) || (pm_rcode p =? 2) || (pm_rcode p =? 4) || (pm_rcode p =? 5)
                        then both r else two (PExn kTimeout) (PExn 1)
            | PExn _ => None
            end
          else if k =? 2 then two (PExn kTruncated) r             (* TC bit set *)
          else if k =? 3 then two (PExn kTimeout) (PExn 2)        (* garbage: ignored / ShortHeader *)
          else if k =? 4 then two (PExn kTimeout) (PExn 5)        (* silence / connection closed: EOFError *)
          else if k =? 5 then two (PExn kTimeout) (PExn 1)        (* QR clear: not a response *)
          else if k =? 6 then both (PExn 6)                       (* socket error: OSError *)
          else if k =? 7 then both (PExn kTimeout)                (* silence *)
          else None
      | None => None
      end
  | L [I d; r] => match preply_of r with Some r => Some {| o_dur := d; o_reply := r; o_reply_tcp := r |} | None => None end
  | _ => None
  end.

(* extra fuel for scripts whose clock steps backwards (outside the termination theorem) *)
Definition slack (script : list outcome) : nat :=
  fold_right (fun o acc => (acc + 1 + Z.to_nat (Z.max 0 (- o_dur o) / 100 + 1))%nat) 0%nat script.

Definition probe (ch : cache) (now : Z) (rq : request) (q : name) : list obs :=
  [obs_opt (fun a => I (a_src a)) (cache_get ch {| k_name := q; k_type := rq_rdtype rq; k_class := rq_rdclass rq |} now);
   obs_opt (fun a => I (a_src a)) (cache_get ch {| k_name := q; k_type := tANY; k_class := rq_rdclass rq |} now)].

Definition probes (r : rcfg) (ch : cache) (now : Z) (rq : request) : obs :=
  if r_cache r then
    match qnames_to_try r (rq_qname rq) (rq_search rq) with
    | Ok qs => L (flat_map (probe ch now rq) qs)
    | _ => L []
    end
  else L [].

(* resolver.cache.put((qname, rdtype, rdclass), Answer(qname, rdtype, rdclass, response)) by the user,
   with the next scripted reply as response to the query (qname, rdtype, rdclass); nothing is stored
   when the script has no reply message there or the Answer cannot be built *)
Definition preload (sc : nat -> outcome) (r : rcfg) (rq : request) (ch : cache) (e : env) : final * cache * env :=
  let e' := {| e_clock := e_clock e; e_pos := S (e_pos e); e_trace := e_trace e |} in
  match o_reply (sc (e_pos e)) with
  | PMsg p =>
      let m := inst_msg {| q_name := rq_qname rq; q_class := rq_rdclass rq; q_type := rq_rdtype rq |} p in
      match make_answer (rq_qname rq) (rq_rdtype rq) (rq_rdclass rq) m None (e_clock e) (Z.of_nat (e_pos e)) with
      | Ok a =>
          (FLibError 70,
           (if r_cache r
            then cache_put ch {| k_name := rq_qname rq; k_type := rq_rdtype rq; k_class := rq_rdclass rq |} a
            else ch), e')
      | _ => (FLibError 71, ch, e')
      end
  | PExn _ => (FLibError 71, ch, e')
  end.

Fixpoint run_requests (sc : nat -> outcome) (xf : nat) (r : rcfg) (rqs : list request) (ch : cache)
         (clock : Z) (pos : nat) : list obs * list obs :=
  match rqs with
  | [] => ([], [])
  | rq :: rest =>
      let e := {| e_clock := clock + rq_advance rq; e_pos := pos; e_trace := [] |} in
      let '(f, ch', e') := if rq_preload rq then preload sc r rq ch e else resolve xf sc r rq ch e in
      let o := L [L (map obs_of_event (e_trace e')); obs_of_final f; I (e_clock e')] in
      let p := probes r ch' (e_clock e') rq in
      let '(os, ps) := run_requests sc xf r rest ch' (e_clock e') (e_pos e') in
      (o :: os, p :: ps)
  end.

Definition run_body (rc : obs) (rqs script : list obs) (tail : obs) : obs :=
  match rcfg_of rc, map_opt request_of rqs, map_opt outcome_of script, outcome_of tail with
  | Some r, Some rqs, Some script, Some tail =>
      let sc := fun i => nth i script tail in
      let '(os, ps) := run_requests sc (slack (tail :: script) * (2 * length (r_servers r) + 2)) r rqs [] 0 0%nat in
      L [L os; L ps; L []]   (* third component: transport anomalies seen by the harness, none expected *)
  | _, _, _, _ => E eBadCase
  end.
End WithTable.

(* the harness observes the synchronous and the asyncio resolver: its observation is [r] when both
   behave identically and [r_sync; r_async] otherwise, so any difference is a disagreement *)
Definition run (c : obs) : obs :=
  match c with
  | L [L names; rc; L rqs; L script; tail] =>
      match map_opt (name_of []) names with
      | Some tbl => L [run_body tbl rc rqs script tail]
      | None => E eBadCase
      end
  | _ => E eBadCase
  end.
