(* C17 - statement skeletons of the modelled methods of dns/resolver.py, as the model was written
   against them.  harness/c17_skel.py re-reads the source on every run and the generated file
   states `<source skeleton> = <this constant>` for every method; a change of any modelled
   method breaks the obligation named after it (fail closed), before any behaviour is compared.
   One line per statement: "<depth> <kind> <header as printed by ast.unparse>". *)
From Coq Require Import String List.
Import ListNotations.

Definition skel_CacheStatistics_init : list string :=
  ["0 set self.hits = hits";
   "0 set self.misses = misses"]%string.
Definition skel_CacheStatistics_reset : list string :=
  ["0 set self.hits = 0";
   "0 set self.misses = 0"]%string.
Definition skel_CacheStatistics_clone : list string :=
  ["0 return CacheStatistics(self.hits, self.misses)"]%string.
Definition skel_CacheBase_init : list string :=
  ["0 set self.lock = threading.Lock()";
   "0 set self.statistics = CacheStatistics()"]%string.
Definition skel_CacheBase_reset_statistics : list string :=
  ["0 with self.lock";
   "1 call self.statistics.reset()"]%string.
Definition skel_CacheBase_hits : list string :=
  ["0 with self.lock";
   "1 return self.statistics.hits"]%string.
Definition skel_CacheBase_misses : list string :=
  ["0 with self.lock";
   "1 return self.statistics.misses"]%string.
Definition skel_CacheBase_get_statistics_snapshot : list string :=
  ["0 with self.lock";
   "1 return self.statistics.clone()"]%string.
Definition skel_Cache_init : list string :=
  ["0 call super().__init__()";
   "0 set self.data = {}";
   "0 set self.cleaning_interval = cleaning_interval";
   "0 set self.next_cleaning = time.time() + self.cleaning_interval"]%string.
Definition skel_Cache__maybe_clean : list string :=
  ["0 set now = time.time()";
   "0 if self.next_cleaning <= now";
   "1 set keys_to_delete = []";
   "1 for (k, v) in self.data.items()";
   "2 if v.expiration <= now";
   "3 call keys_to_delete.append(k)";
   "1 for k in keys_to_delete";
   "2 del self.data[k]";
   "1 set now = time.time()";
   "1 set self.next_cleaning = now + self.cleaning_interval"]%string.
Definition skel_Cache_get : list string :=
  ["0 with self.lock";
   "1 call self._maybe_clean()";
   "1 set v = self.data.get(key)";
   "1 if v is None or v.expiration <= time.time()";
   "2 aug self.statistics.misses += 1";
   "2 return None";
   "1 aug self.statistics.hits += 1";
   "1 return v"]%string.
Definition skel_Cache_put : list string :=
  ["0 with self.lock";
   "1 call self._maybe_clean()";
   "1 set self.data[key] = value"]%string.
Definition skel_Cache_flush : list string :=
  ["0 with self.lock";
   "1 if key is not None";
   "2 if key in self.data";
   "3 del self.data[key]";
   "1 else";
   "2 set self.data = {}";
   "2 set self.next_cleaning = time.time() + self.cleaning_interval"]%string.
Definition skel_LRUCacheNode_init : list string :=
  ["0 set self.key = key";
   "0 set self.value = value";
   "0 set self.hits = 0";
   "0 set self.prev = self";
   "0 set self.next = self"]%string.
Definition skel_LRUCacheNode_link_after : list string :=
  ["0 set self.prev = node";
   "0 set self.next = node.next";
   "0 set node.next.prev = self";
   "0 set node.next = self"]%string.
Definition skel_LRUCacheNode_unlink : list string :=
  ["0 set self.next.prev = self.prev";
   "0 set self.prev.next = self.next"]%string.
Definition skel_LRUCache_init : list string :=
  ["0 call super().__init__()";
   "0 set self.data = {}";
   "0 set self.sentinel = LRUCacheNode(None, None)";
   "0 set self.sentinel.prev = self.sentinel";
   "0 set self.sentinel.next = self.sentinel";
   "0 call self.set_max_size(max_size)"]%string.
Definition skel_LRUCache_set_max_size : list string :=
  ["0 with self.lock";
   "1 if max_size < 1";
   "2 set max_size = 1";
   "1 set self.max_size = max_size";
   "1 while len(self.data) > self.max_size";
   "2 set gnode = self.sentinel.prev";
   "2 call gnode.unlink()";
   "2 del self.data[gnode.key]"]%string.
Definition skel_LRUCache_get : list string :=
  ["0 with self.lock";
   "1 set node = self.data.get(key)";
   "1 if node is None";
   "2 aug self.statistics.misses += 1";
   "2 return None";
   "1 call node.unlink()";
   "1 if node.value.expiration <= time.time()";
   "2 del self.data[node.key]";
   "2 aug self.statistics.misses += 1";
   "2 return None";
   "1 call node.link_after(self.sentinel)";
   "1 aug self.statistics.hits += 1";
   "1 aug node.hits += 1";
   "1 return node.value"]%string.
Definition skel_LRUCache_get_hits_for_key : list string :=
  ["0 with self.lock";
   "1 set node = self.data.get(key)";
   "1 if node is None or node.value.expiration <= time.time()";
   "2 return 0";
   "1 else";
   "2 return node.hits"]%string.
Definition skel_LRUCache_put : list string :=
  ["0 with self.lock";
   "1 set node = self.data.get(key)";
   "1 if node is not None";
   "2 call node.unlink()";
   "2 del self.data[node.key]";
   "1 while len(self.data) >= self.max_size";
   "2 set gnode = self.sentinel.prev";
   "2 call gnode.unlink()";
   "2 del self.data[gnode.key]";
   "1 set node = LRUCacheNode(key, value)";
   "1 call node.link_after(self.sentinel)";
   "1 set self.data[key] = node"]%string.
Definition skel_LRUCache_flush : list string :=
  ["0 with self.lock";
   "1 if key is not None";
   "2 set node = self.data.get(key)";
   "2 if node is not None";
   "3 call node.unlink()";
   "3 del self.data[node.key]";
   "1 else";
   "2 set gnode = self.sentinel.next";
   "2 while gnode != self.sentinel";
   "3 set next = gnode.next";
   "3 call gnode.unlink()";
   "3 set gnode = next";
   "2 set self.data = {}"]%string.
Definition skel_Answer_init : list string :=
  ["0 set self.chaining_result = response.resolve_chaining()";
   "0 set self.expiration = time.time() + self.chaining_result.minimum_ttl"]%string.
