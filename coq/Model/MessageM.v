(* Model of dns/renderer.py (Renderer), dns/message.py (Message.to_wire, _WireReader, from_wire,
   rcode/opcode/EDNS accessors), dns/rdataset.py (Rdataset.to_wire, add, update_ttl),
   dns/update.py (UpdateMessage._parse_rr_header), dns/rcode.py, dns/opcode.py,
   dns/_render_util.py (prefixed_length), dns/wirebase.py (Parser), dns/wire.py (get_name).
   RDATA is a list of pieces: opaque octets, compressible names, non-compressible names.
   Definitions only; proofs live in Proofs/Message*.v.
   Each function mirrors the control flow of the Python function named in its comment. *)
From DV Require Import Base.Prelude Model.NameM.
Open Scope Z_scope.

(* exception codes (NameM uses 1..12, 101, 102, 199) *)
Definition eTooBig := 20.          (* dns.exception.TooBig *)
Definition eShortHeader := 21.     (* dns.message.ShortHeader   (FormError family) *)
Definition eTrailingJunk := 22.    (* dns.message.TrailingJunk  (FormError family) *)
Definition eBadEDNS := 23.         (* dns.message.BadEDNS       (FormError family) *)
Definition eBadTSIG := 24.         (* dns.message.BadTSIG       (FormError family) *)
Definition eUnknownTSIGKey := 25.  (* dns.message.UnknownTSIGKey *)
Definition eTruncated := 26.       (* dns.message.Truncated *)
Definition eUnmodelled := 90.      (* the wire reaches a per-type codec that is outside this model *)
Definition iValueError := 103.
Definition eBadObs := 998.

(* ---------- data ---------- *)
Inductive piece :=
| PB (b : list Z)      (* opaque octets *)
| PN (n : name)        (* name written through the compression table *)
| PU (n : name)        (* name written without compression (and not entered in the table) *)
| PX (n : name).       (* as PU, and NOT downcased in the canonical form (DNAME, NSEC next, NSAP-PTR) *)
Definition rdata := list piece.

Record rrset := mkRR {
  rname : name; rclass : Z; rtype : Z; rcovers : Z; rdeleting : option Z; rttl : Z;
  rrds : list rdata }.

Record optrec := mkOpt { oflags : Z; opayload : Z; oopts : list (Z * list Z) }.

Record msg := mkMsg {
  mid : Z; mflags : Z;
  mq : list rrset; man : list rrset; mau : list rrset; mad : list rrset;
  mopt : option optrec; mtsig : option (name * rdata) }.

Definition tOPT := 41. Definition tTSIG := 250. Definition tSOA := 6. Definition tRRSIG := 46.
(* Rdata.covers(): RRSIG and SIG rdata belong to the type they cover *)
Definition is_sigtype (t : Z) : bool := (t =? tRRSIG) || (t =? 24).
Definition cIN := 1. Definition cNONE := 254. Definition cANY := 255.
Definition fTC := 512.   (* dns.flags.TC = 0x0200 *)

(* ---------- struct.pack ---------- *)
Definition u16 (v : Z) : list Z := [v / 256; v mod 256].
Definition u32 (v : Z) : list Z := [v / 16777216; (v / 65536) mod 256; (v / 256) mod 256; v mod 256].
Definition pack16 (v : Z) : res (list Z) :=
  if (0 <=? v) && (v <=? 65535) then Ok (u16 v) else Internal iStructError.
Definition pack32 (v : Z) : res (list Z) :=
  if (0 <=? v) && (v <=? 4294967295) then Ok (u32 v) else Internal iStructError.

(* ======================================================================= *)
(*                               RENDERING                                  *)
(* ======================================================================= *)

(* Name.to_wire(file, compress, origin): the labels list is validated by Name(labels[i:])
   at i = 0; with compress = None the same loop runs without table lookups or inserts *)
Definition name_to_wire (n : name) (origin : option name) (compress : bool)
           (file : list Z) (t : ctable) : res (list Z * ctable) :=
  do labels <-
     (if is_absolute n then Ok n
      else match origin with
           | Some o => if is_absolute o then Ok (n ++ o) else Lib eNeedAbsolute
           | None => Lib eNeedAbsolute
           end);
  do labels <- mk_name labels;
  if compress then Ok (tw_loop labels false file t)
  else Ok (file ++ wire_labels false labels, t).

(* Rdata.to_wire(file, compress, origin) for the piece representation *)
Fixpoint rd_to_wire (ps : rdata) (origin : option name) (compress : bool)
         (file : list Z) (t : ctable) : res (list Z * ctable) :=
  match ps with
  | [] => Ok (file, t)
  | PB b :: r => rd_to_wire r origin compress (file ++ b) t
  | PN n :: r => do ft <- name_to_wire n origin compress file t;
                 rd_to_wire r origin compress (fst ft) (snd ft)
  | PX n :: r | PU n :: r => do ft <- name_to_wire n origin false file t;
                 rd_to_wire r origin compress (fst ft) (snd ft)
  end.

(* prefixed_length back-patch: overwrite two octets at pos *)
Definition patch16 (file : list Z) (pos : Z) (v : Z) : list Z :=
  firstn (Z.to_nat pos) file ++ u16 v ++ skipn (Z.to_nat pos + 2) file.

(* one RR of the `for rd in l` loop of Rdataset.to_wire *)
Definition rr_to_wire (owner : name) (rdtype rdclass ttl : Z) (rd : rdata)
           (oorigin rorigin : option name) (ocompress rcompress : bool)
           (file : list Z) (t : ctable) : res (list Z * ctable) :=
  do ft <- name_to_wire owner oorigin ocompress file t;
  do h1 <- pack16 rdtype; do h2 <- pack16 rdclass; do h3 <- pack32 ttl;
  let file1 := fst ft ++ h1 ++ h2 ++ h3 ++ [0; 0] in
  let start := zlen file1 in
  do ft2 <- rd_to_wire rd rorigin rcompress file1 (snd ft);
  let len := zlen (fst ft2) - start in
  if len >? 65535 then Lib eFormError     (* OverflowError -> FormError in prefixed_length *)
  else Ok (if len >? 0 then patch16 (fst ft2) (start - 2) len else fst ft2, snd ft2).

Fixpoint rrs_loop (owner : name) (rdtype rdclass ttl : Z) (rds : list rdata)
         (origin : option name) (compress : bool) (file : list Z) (t : ctable)
  : res (list Z * ctable) :=
  match rds with
  | [] => Ok (file, t)
  | rd :: r => do ft <- rr_to_wire owner rdtype rdclass ttl rd origin origin compress compress file t;
               rrs_loop owner rdtype rdclass ttl r origin compress (fst ft) (snd ft)
  end.

(* RRset.to_wire -> Rdataset.to_wire(name, file, compress, origin, override_rdclass=deleting,
   want_shuffle=False); returns the number of records emitted *)
Definition rrset_to_wire (rs : rrset) (origin : option name) (compress : bool)
           (file : list Z) (t : ctable) : res (list Z * ctable * Z) :=
  let rdclass := match rdeleting rs with Some d => d | None => rclass rs end in
  match rrds rs with
  | [] =>
      do ft <- name_to_wire (rname rs) origin compress file t;
      do h1 <- pack16 (rtype rs); do h2 <- pack16 rdclass;
      Ok (fst ft ++ h1 ++ h2 ++ [0; 0; 0; 0; 0; 0], snd ft, 1)
  | rds =>
      do ft <- rrs_loop (rname rs) (rtype rs) rdclass (rttl rs) rds origin compress file t;
      Ok (fst ft, snd ft, zlen rds)
  end.

(* ---------- Renderer ---------- *)
Record rst := mkRst {
  out : list Z; tbl : ctable;
  cq : Z; can : Z; cau : Z; cad : Z;     (* counts *)
  rsec : Z; rflags : Z; maxsz : Z; reserved : Z; padded : bool }.

Definition set_out (r : rst) (o : list Z) (t : ctable) : rst :=
  mkRst o t (cq r) (can r) (cau r) (cad r) (rsec r) (rflags r) (maxsz r) (reserved r) (padded r).
Definition set_rsec (r : rst) (s : Z) : rst :=
  mkRst (out r) (tbl r) (cq r) (can r) (cau r) (cad r) s (rflags r) (maxsz r) (reserved r) (padded r).
Definition set_rflags (r : rst) (f : Z) : rst :=
  mkRst (out r) (tbl r) (cq r) (can r) (cau r) (cad r) (rsec r) f (maxsz r) (reserved r) (padded r).
Definition set_limits (r : rst) (m rv : Z) : rst :=
  mkRst (out r) (tbl r) (cq r) (can r) (cau r) (cad r) (rsec r) (rflags r) m rv (padded r).
Definition set_padded (r : rst) : rst :=
  mkRst (out r) (tbl r) (cq r) (can r) (cau r) (cad r) (rsec r) (rflags r) (maxsz r) (reserved r) true.
Definition inc_count (r : rst) (s n : Z) : rst :=
  mkRst (out r) (tbl r)
        (if s =? 0 then cq r + n else cq r) (if s =? 1 then can r + n else can r)
        (if s =? 2 then cau r + n else cau r) (if s =? 3 then cad r + n else cad r)
        (rsec r) (rflags r) (maxsz r) (reserved r) (padded r).

(* Renderer._rollback *)
Definition rollback (where_ : Z) (r : rst) : rst :=
  set_out r (firstn (Z.to_nat where_) (out r)) (filter (fun kv => snd kv <? where_) (tbl r)).

(* Renderer._set_section *)
Definition set_section (s : Z) (r : rst) : res rst :=
  if rsec r =? s then Ok r
  else if rsec r >? s then Lib eFormError
  else Ok (set_rsec r s).

(* the exit half of Renderer._track_size; true = TooBig was raised (after rolling back) *)
Definition track_end (start : Z) (r : rst) : bool * rst :=
  if zlen (out r) >? maxsz r then (true, rollback start r) else (false, r).

(* Renderer.add_question *)
Definition add_question (origin : option name) (qname : name) (rdtype rdclass : Z) (r : rst)
  : res (bool * rst) :=
  do r1 <- set_section 0 r;
  let start := zlen (out r1) in
  do ft <- name_to_wire qname origin true (out r1) (tbl r1);
  do h1 <- pack16 rdtype; do h2 <- pack16 rdclass;
  let '(big, r2) := track_end start (set_out r1 (fst ft ++ h1 ++ h2) (snd ft)) in
  if big then Ok (true, r2) else Ok (false, inc_count r2 0 1).

(* Renderer.add_rrset *)
Definition add_rrset (origin : option name) (section : Z) (rs : rrset) (r : rst)
  : res (bool * rst) :=
  do r1 <- set_section section r;
  let start := zlen (out r1) in
  do ftn <- rrset_to_wire rs origin true (out r1) (tbl r1);
  let '(ft, n) := ftn in
  let '(big, r2) := track_end start (set_out r1 (fst ft) (snd ft)) in
  if big then Ok (true, r2) else Ok (false, inc_count r2 section n).

(* the section loops of Message.to_wire: stop at the first TooBig *)
Fixpoint add_questions (origin : option name) (l : list rrset) (r : rst) : res (bool * rst) :=
  match l with
  | [] => Ok (false, r)
  | rs :: l' =>
      do br <- add_question origin (rname rs) (rtype rs) (rclass rs) r;
      if fst br then Ok br else add_questions origin l' (snd br)
  end.

Fixpoint add_rrsets (origin : option name) (section : Z) (l : list rrset) (r : rst)
  : res (bool * rst) :=
  match l with
  | [] => Ok (false, r)
  | rs :: l' =>
      do br <- add_rrset origin section rs r;
      if fst br then Ok br else add_rrsets origin section l' (snd br)
  end.

(* Renderer.reserve / release_reserved *)
Definition reserve (size : Z) (r : rst) : res rst :=
  if size <? 0 then Internal iValueError
  else if size >? maxsz r then Internal iValueError
  else Ok (set_limits r (maxsz r - size) (reserved r + size)).
Definition release_reserved (r : rst) : rst := set_limits r (maxsz r + reserved r) 0.

(* ---------- EDNS options with a class of their own (dns/edns.py) ----------
   An option is kept as (code, to_wire() octets).  `opt_dec code data` is <Class>.from_wire_parser on the
   octets of one option followed by to_wire(): the octets of the option object the reader builds, or the
   error.  Everything raised inside runs under dns.rdata.from_wire_parser's ExceptionWrapper(FormError),
   so every failure (ValueError of a constructor, SyntaxError of inet_ntoa, a short read, the exact
   consumption check of restrict_to) is a FormError. *)
(* bytes.decode("utf8") succeeds (strict: no overlong forms, no surrogates, at most U+10FFFF) *)
Definition u8cont (c : Z) : bool := (128 <=? c) && (c <=? 191).
Fixpoint utf8_ok (l : list Z) : bool :=
  match l with
  | [] => true
  | b :: r =>
      if b <? 128 then utf8_ok r
      else if (194 <=? b) && (b <=? 223) then
        match r with c1 :: r1 => u8cont c1 && utf8_ok r1 | _ => false end
      else if (224 <=? b) && (b <=? 239) then
        match r with
        | c1 :: c2 :: r2 =>
            (if b =? 224 then (160 <=? c1) && (c1 <=? 191)
             else if b =? 237 then (128 <=? c1) && (c1 <=? 159)
             else u8cont c1) && u8cont c2 && utf8_ok r2
        | _ => false
        end
      else if (240 <=? b) && (b <=? 244) then
        match r with
        | c1 :: c2 :: c3 :: r3 =>
            (if b =? 240 then (144 <=? c1) && (c1 <=? 191)
             else if b =? 244 then (128 <=? c1) && (c1 <=? 143)
             else u8cont c1) && u8cont c2 && u8cont c3 && utf8_ok r3
        | _ => false
        end
      else false
  end.

(* bytes.rstrip(b"\x00") *)
Fixpoint rstrip0 (l : list Z) : list Z :=
  match l with
  | [] => []
  | b :: r => match rstrip0 r with [] => if b =? 0 then [] else [b] | r' => b :: r' end
  end.

(* ECSOption.__init__: the last octet of the prefix keeps its srclen mod 8 leading bits *)
Definition ecs_mask (src : Z) (p : list Z) : list Z :=
  let nbits := src mod 8 in
  if nbits =? 0 then p
  else removelast p ++ [Z.land (last p 0) (Z.shiftl 255 (8 - nbits))].

Definition opt_dec (code : Z) (data : list Z) : res (list Z) :=
  if code =? 3 then Ok data                                         (* NSID: get_remaining *)
  else if code =? 10 then                                           (* COOKIE: client 8, server 0 or 8..32 *)
    let n := zlen data in
    if (n =? 8) || ((16 <=? n) && (n <=? 40)) then Ok data else Lib eFormError
  else if (22 <=? code) && (code <=? 25) then                       (* EDE language, filtering contact / organization / db *)
    if utf8_ok data then Ok data else Lib eFormError
  else if code =? 15 then                                           (* EDE: info code, text without trailing NULs *)
    match data with
    | a :: b :: text =>
        let t := rstrip0 text in
        if utf8_ok t then Ok (a :: b :: t) else Lib eFormError
    | _ => Lib eFormError
    end
  else if code =? 8 then                                            (* ECS *)
    match data with
    | f1 :: f2 :: src :: scope :: prefix =>
        let family := f1 * 256 + f2 in
        let bits := if family =? 1 then 32 else 128 in
        if negb ((family =? 1) || (family =? 2)) then Lib eFormError
        else if negb (zlen prefix =? (src + 7) / 8) then Lib eFormError
        else if (bits <? src) || (bits <? scope) then Lib eFormError
        else Ok (f1 :: f2 :: src :: scope :: ecs_mask src prefix)
    | _ => Lib eFormError
    end
  else if code =? 18 then Lib eUnmodelled                           (* REPORTCHANNEL: needs the message, see opts_loop *)
  else Ok data.                                                     (* GenericOption *)

(* OPT rdata: OPT._to_wire *)
Fixpoint opts_wire (os : list (Z * list Z)) : res (list Z) :=
  match os with
  | [] => Ok []
  | (code, data) :: r =>
      do h1 <- pack16 code; do h2 <- pack16 (zlen data);
      do rest <- opts_wire r;
      Ok (h1 ++ h2 ++ data ++ rest)
  end.

Definition opt_rrset (o : optrec) : res rrset :=
  do w <- opts_wire (oopts o);
  Ok (mkRR [[]] (opayload o) tOPT 0 None (oflags o) [[PB w]]).

(* Message._compute_opt_reserve *)
Definition compute_opt_reserve (m : msg) (pad : Z) : Z :=
  match mopt m with
  | None => 0
  | Some o =>
      fold_left (fun acc cd => acc + zlen (snd cd) + 4) (oopts o) 11 + (if pad =? 0 then 0 else 4)
  end.

Definition tsig_rrset (kn : name) (rd : rdata) : rrset := mkRR kn cANY tTSIG 0 None 0 [rd].

(* Message._compute_tsig_reserve: self.tsig.to_wire(f) with no table and no origin *)
Definition compute_tsig_reserve (m : msg) : res Z :=
  match mtsig m with
  | None => Ok 0
  | Some (kn, rd) =>
      do ftn <- rrset_to_wire (tsig_rrset kn rd) None false [] [];
      Ok (zlen (fst (fst ftn)))
  end.

(* Renderer.add_opt *)
Definition add_opt (origin : option name) (o : optrec) (pad opt_size tsig_size : Z) (r : rst)
  : res (bool * rst) :=
  let '(o', r') :=
    if pad =? 0 then (o, r)
    else
      let size_without_padding := zlen (out r) + opt_size + tsig_size in
      let remainder := size_without_padding mod pad in
      let padding := if remainder =? 0 then [] else repeat 0 (Z.to_nat (pad - remainder)) in
      (mkOpt (oflags o) (opayload o) (oopts o ++ [(12, padding)]), set_padded r) in
  do rs <- opt_rrset o';
  add_rrset origin 3 rs r'.

(* Renderer.write_header *)
Definition write_header (id : Z) (r : rst) : res rst :=
  do a <- pack16 id; do b <- pack16 (rflags r);
  do c0 <- pack16 (cq r); do c1 <- pack16 (can r); do c2 <- pack16 (cau r); do c3 <- pack16 (cad r);
  Ok (set_out r (a ++ b ++ c0 ++ c1 ++ c2 ++ c3 ++ skipn 12 (out r)) (tbl r)).

(* Renderer._write_tsig *)
Definition write_tsig (origin : option name) (kn : name) (rd : rdata) (r : rst) : res (bool * rst) :=
  let compress := negb (padded r) in
  do r1 <- set_section 3 r;
  let start := zlen (out r1) in
  do ft <- rr_to_wire kn tTSIG cANY 0 rd origin None compress false (out r1) (tbl r1);
  let '(big, r2) := track_end start (set_out r1 (fst ft) (snd ft)) in
  if big then Ok (true, r2)
  else
    let r3 := inc_count r2 3 1 in
    do c <- pack16 (cad r3);
    Ok (false, set_out r3 (patch16 (out r3) 10 (cad r3)) (tbl r3)).

(* effective size limit of Message.to_wire *)
Definition eff_limit (max_size request_payload : Z) : Z :=
  let m := if max_size =? 0 then (if request_payload =? 0 then 65535 else request_payload) else max_size in
  if m <? 512 then 512 else if m >? 65535 then 65535 else m.

Definition raise_if_big (br : bool * rst) : res rst :=
  if fst br then Lib eTooBig else Ok (snd br).

(* Message.to_wire(origin, max_size, prefer_truncation=..., want_shuffle=False); the renderer
   state is returned as well so that theorems can talk about table and counts *)
Definition to_wire_st (m : msg) (origin : option name) (max_size request_payload : Z)
           (prefer_truncation : bool) (pad : Z) : res rst :=
  let r0 := mkRst (repeat 0 12) [] 0 0 0 0 0 (mflags m) (eff_limit max_size request_payload) 0 false in
  let opt_reserve := compute_opt_reserve m pad in
  do r1 <- reserve opt_reserve r0;
  do tsig_reserve <- compute_tsig_reserve m;
  do r2 <- reserve tsig_reserve r1;
  do b1 <- add_questions origin (mq m) r2;
  do b2 <- (if fst b1 then Ok b1 else add_rrsets origin 1 (man m) (snd b1));
  do b3 <- (if fst b2 then Ok b2 else add_rrsets origin 2 (mau m) (snd b2));
  do b4 <- (if fst b3 then Ok b3 else add_rrsets origin 3 (mad m) (snd b3));
  do r3 <-
     (if fst b4 then
        if prefer_truncation then
          Ok (if rsec (snd b4) <? 3 then set_rflags (snd b4) (Z.lor (rflags (snd b4)) fTC) else snd b4)
        else Lib eTooBig
      else Ok (snd b4));
  let r4 := release_reserved r3 in
  do r5 <- match mopt m with
           | Some o => do br <- add_opt origin o pad opt_reserve tsig_reserve r4; raise_if_big br
           | None => Ok r4
           end;
  do r6 <- write_header (mid m) r5;
  match mtsig m with
  | Some (kn, rd) =>
      do br <- write_tsig origin kn rd r6;
      do r7 <- raise_if_big br;
      write_header (mid m) r7
  | None => Ok r6
  end.

Definition to_wire (m : msg) (origin : option name) (max_size request_payload : Z)
           (prefer_truncation : bool) (pad : Z) : res (list Z) :=
  do r <- to_wire_st m origin max_size request_payload prefer_truncation pad; Ok (out r).

(* ======================================================================= *)
(*              rcode / opcode / EDNS packing (dns/rcode.py, opcode.py)      *)
(* ======================================================================= *)
Definition rcode_from_flags (flags ednsflags : Z) : Z :=
  Z.lor (Z.land flags 15) (Z.land (Z.shiftr ednsflags 20) 4080).
Definition rcode_to_flags (value : Z) : res (Z * Z) :=
  if (value <? 0) || (value >? 4095) then Internal iValueError
  else Ok (Z.land value 15, Z.shiftl (Z.land value 4080) 20).
Definition opcode_from_flags (flags : Z) : Z := Z.shiftr (Z.land flags 30720) 11.
Definition opcode_to_flags (value : Z) : Z := Z.land (Z.shiftl value 11) 30720.

Definition m_ednsflags (m : msg) : Z := match mopt m with Some o => oflags o | None => 0 end.
(* the ednsflags setter: creates an OPT (payload 1232, no options) when there is none and v != 0 *)
Definition set_ednsflags (m : msg) (v : Z) : msg :=
  let o' := match mopt m with
            | Some o => Some (mkOpt v (opayload o) (oopts o))
            | None => if v =? 0 then None else Some (mkOpt v 1232 [])
            end in
  mkMsg (mid m) (mflags m) (mq m) (man m) (mau m) (mad m) o' (mtsig m).
Definition set_mflags (m : msg) (f : Z) : msg :=
  mkMsg (mid m) f (mq m) (man m) (mau m) (mad m) (mopt m) (mtsig m).

Definition m_rcode (m : msg) : Z := rcode_from_flags (mflags m) (m_ednsflags m).
Definition m_set_rcode (m : msg) (rcode : Z) : res msg :=
  do ve <- rcode_to_flags rcode;
  let m1 := set_mflags m (Z.lor (Z.land (mflags m) 65520) (fst ve)) in
  Ok (set_ednsflags m1 (Z.lor (Z.land (m_ednsflags m1) 16777215) (snd ve))).
Definition m_opcode (m : msg) : Z := opcode_from_flags (mflags m).
Definition m_set_opcode (m : msg) (opcode : Z) : msg :=
  set_mflags m (Z.lor (Z.land (mflags m) 34815) (opcode_to_flags opcode)).
(* Message.edns: version number or -1 *)
Definition m_edns (m : msg) : Z :=
  match mopt m with Some o => Z.shiftr (Z.land (oflags o) 16711680) 16 | None => -1 end.
(* the flag packing of Message.use_edns for edns >= 0 *)
Definition use_edns_flags (edns ednsflags : Z) : Z :=
  Z.lor (Z.land ednsflags 4278255615) (Z.shiftl edns 16).

(* ======================================================================= *)
(*                                READING                                   *)
(* ======================================================================= *)

Section Reader.
  Variable wire : list Z.

  (* Parser.get_bytes with parser.end = endp; returns the octets *)
  Definition rd_bytes (endp cur n : nat) : res (list Z) :=
    if Nat.ltb (endp - cur) n then Lib eFormError
    else Ok (firstn n (skipn cur wire)).

  Definition rd_u8 (endp cur : nat) : res Z :=
    match rd_bytes endp cur 1 with
    | Ok [b] => Ok b
    | Ok _ => Lib eFormError
    | Lib e => Lib e
    | Internal e => Internal e
    end.

  Definition rd_u16 (endp cur : nat) : res Z :=
    match rd_bytes endp cur 2 with
    | Ok [a; b] => Ok (a * 256 + b)
    | Ok _ => Lib eFormError
    | Lib e => Lib e
    | Internal e => Internal e
    end.

  Definition rd_u32 (endp cur : nat) : res Z :=
    match rd_bytes endp cur 4 with
    | Ok [a; b; c; d] => Ok (((a * 256 + b) * 256 + c) * 256 + d)
    | Ok _ => Lib eFormError
    | Lib e => Lib e
    | Internal e => Internal e
    end.

  (* dns.name.from_wire_parser: the `while count != 0` loop.  Same transitions as
     NameM.fw_go; the fuel is split (pointer budget fp, label budget fl, both linear in the
     message size) so that it is cheap to evaluate.  nm_lab reads labels until the root label
     or a pointer; `jump` is the continuation after a pointer.  Returns labels and
     parser.furthest. *)
  Fixpoint nm_lab (endp : nat) (jump : nat -> nat -> list label -> res (list label * nat))
           (biggest : nat) (fl : nat) (cur fur : nat) (acc : list label) {struct fl}
    : res (list label * nat) :=
    match fl with
    | O => Internal iFuel
    | S fl' =>
        match rd_u8 endp cur with
        | Lib e => Lib e
        | Internal e => Internal e
        | Ok count =>
            let fur1 := Nat.max fur (cur + 1) in
            if count =? 0 then Ok (rev ([] :: acc), fur1)
            else if count <? 64 then
              match rd_bytes endp (cur + 1) (Z.to_nat count) with
              | Lib e => Lib e
              | Internal e => Internal e
              | Ok l =>
                  let cur2 := (cur + 1 + Z.to_nat count)%nat in
                  nm_lab endp jump biggest fl' cur2 (Nat.max fur1 cur2) (l :: acc)
              end
            else if 192 <=? count then
              match rd_u8 endp (cur + 1) with
              | Lib e => Lib e
              | Internal e => Internal e
              | Ok lo =>
                  let fur2 := Nat.max fur1 (cur + 2) in
                  let c := Z.to_nat ((count - 192) * 256 + lo) in
                  if Nat.leb biggest c then Lib eBadPointer
                  else if Nat.ltb endp c then Lib eFormError
                  else jump c fur2 acc
              end
            else Lib eBadLabelType
        end
    end.

  Fixpoint nm_ptr (endp : nat) (fp : nat) (cur fur biggest : nat) (acc : list label) {struct fp}
    : res (list label * nat) :=
    match fp with
    | O => Internal iFuel
    | S fp' =>
        nm_lab endp (fun c fur' acc' => nm_ptr endp fp' c fur' c acc') biggest (S endp) cur fur acc
    end.

  (* parser.get_name() without origin: name and the new parser.current (= furthest) *)
  Definition nm_from_wire (endp start : nat) : res (name * nat) :=
    if Nat.ltb endp start then Lib eFormError
    else
      match nm_ptr endp (S start) start start start [] with
      | Ok (labels, fur) => do n <- mk_name labels; Ok (n, fur)
      | Lib e => Lib e
      | Internal e => Internal e
      end.

  (* dns.wire.Parser.get_name(origin): `if origin:` is len(origin) > 0 *)
  Definition get_name (origin : option name) (endp cur : nat) : res (name * nat) :=
    do nc <- nm_from_wire endp cur;
    match origin with
    | Some (x :: o) => do n <- relativize (fst nc) (x :: o); Ok (n, snd nc)
    | _ => Ok nc
    end.

  (* ---------- per-type RDATA readers, as field lists ---------- *)
  Inductive fld :=
  | FFix (n : nat)     (* exactly n octets *)
  | FNameC             (* get_name(origin); compressible when rendered *)
  | FNameU             (* get_name(origin); never compressed when rendered *)
  | FNameA             (* get_name() without origin (TSIG algorithm) *)
  | FRest              (* get_remaining *)
  | FCnt16             (* get_counted_bytes(2); kept with its length prefix *)
  | FCnt8              (* get_counted_bytes(); kept with its length prefix *)
  | FRest1             (* get_remaining(), FormError when empty *)
  | FChk (k : Z)       (* get_remaining() checked by the type's constructor: chk k *)
  | FNameX             (* as FNameU; the name keeps its case in the canonical form *)
  | FMax16 (m : Z)     (* a 16-bit field whose value the constructor requires to be <= m *)
  | FTxt               (* one or more <character-string>s up to the end *)
  | FGw (n i : nat) (mk : Z).
                       (* n header octets, then the gateway / relay selected by (octet i of the header) & mk:
                          0 nothing, 1 an IPv4 address, 2 an IPv6 address, 3 a name (get_name(origin); never
                          compressed, case kept in the canonical form); dns.rdtypes.util.Gateway *)

  (* type codes that have a specific codec class under dns/rdtypes/ANY resp. IN (checked against
     the directory listing by the harness on every run) *)
  Definition any_types : list Z :=
    [18; 260; 258; 68; 257; 60; 59; 37; 5; 62; 32769; 39; 48; 43; 66; 108; 109; 27; 67; 13; 55;
     20; 25; 105; 106; 29; 107; 15; 104; 56; 2; 47; 50; 51; 61; 41; 12; 261; 17; 46; 21; 24; 53;
     6; 99; 44; 249; 52; 250; 16; 256; 262; 19; 63].
  Definition in_types : list Z := [1; 28; 42; 49; 65; 45; 36; 35; 22; 23; 26; 33; 64; 11].

  Definition zmem (x : Z) (l : list Z) : bool := existsb (Z.eqb x) l.

  (* content checks of constructors reached from from_wire (any exception becomes FormError) *)
  Definition is_alnum (c : Z) : bool :=
    ((48 <=? c) && (c <=? 57)) || ((65 <=? c) && (c <=? 90)) || ((97 <=? c) && (c <=? 122)).
  (* dns.rdtypes.util.Bitmap: windows strictly ascending, 1..32 octets each *)
  Fixpoint bitmap_ok (fuel : nat) (last : Z) (b : list Z) : bool :=
    match b with
    | [] => true
    | w :: l :: rest =>
        match fuel with
        | O => false
        | S f => (last <? w) && (1 <=? l) && (l <=? 32) && (l <=? zlen rest)
                 && bitmap_ok f w (skipn (Z.to_nat l) rest)
        end
    | _ => false
    end.
  Definition ds_len_ok (dt n : Z) (zero_len : option Z) : bool :=
    if dt =? 0 then match zero_len with Some z => n =? z | None => false end
    else if dt =? 1 then n =? 20
    else if (dt =? 2) || (dt =? 3) then n =? 32
    else if dt =? 4 then n =? 48
    else true.
  Definition chk (k : Z) (b : list Z) : bool :=
    if k =? 1 then      (* DSBase: key tag, algorithm, digest type, digest *)
      match b with _ :: _ :: _ :: dt :: dg => ds_len_ok dt (zlen dg) None | _ => false end
    else if k =? 5 then (* CDS: digest type 0 is the delete form, one octet *)
      match b with _ :: _ :: _ :: dt :: dg => ds_len_ok dt (zlen dg) (Some 1) | _ => false end
    else if k =? 2 then (* ZONEMD: serial, scheme, hash algorithm, digest *)
      match b with
      | _ :: _ :: _ :: _ :: sc :: ha :: dg =>
          negb (sc =? 0) && negb (ha =? 0) &&
          (if ha =? 1 then zlen dg =? 48 else if ha =? 2 then zlen dg =? 64 else true)
      | _ => false
      end
    else if k =? 3 then (* CAA: flags, counted tag (bytes.isalnum), value *)
      match b with
      | _ :: l :: rest => (1 <=? l) && (l <=? zlen rest) && forallb is_alnum (firstn (Z.to_nat l) rest)
      | _ => false
      end
    else if k =? 4 then bitmap_ok (length b) (-1) b
    else false.

  (* None: a codec exists but is not modelled *)
  Definition schema_of (rdclass rdtype : Z) : option (list fld) :=
    if (rdtype =? 2) || (rdtype =? 5) || (rdtype =? 12) then Some [FNameC]
    else if rdtype =? 15 then Some [FFix 2; FNameC]
    else if rdtype =? 6 then Some [FNameC; FNameC; FFix 20]
    else if rdtype =? 16 then Some [FTxt]
    else if (rdtype =? 46) || (rdtype =? 24) then Some [FFix 18; FNameU; FRest]
    else if rdtype =? 250 then Some [FNameA; FFix 8; FCnt16; FFix 2; FMax16 4095; FCnt16]
    (* SPF NINFO AVC RESINFO WALLET: TXTBase *)
    else if zmem rdtype [99; 56; 258; 261; 262] then Some [FTxt]
    (* AFSDB RT: UncompressedDowncasingMX;  RP: two uncompressed names *)
    else if (rdtype =? 18) || (rdtype =? 21) then Some [FFix 2; FNameU]
    else if rdtype =? 17 then Some [FNameU; FNameU]
    (* SSHFP; TLSA SMIMEA; CERT; DNSKEY CDNSKEY; OPENPGPKEY *)
    else if rdtype =? 44 then Some [FFix 2; FRest]
    else if (rdtype =? 52) || (rdtype =? 53) then Some [FFix 3; FRest]
    else if rdtype =? 37 then Some [FFix 5; FRest]
    else if (rdtype =? 48) || (rdtype =? 60) then Some [FFix 4; FRest]
    else if rdtype =? 61 then Some [FRest]
    (* EUI48 EUI64; L32; L64 NID;  HINFO; X25 *)
    else if rdtype =? 108 then Some [FFix 6]
    else if rdtype =? 109 then Some [FFix 8]
    else if rdtype =? 105 then Some [FFix 2; FFix 4]
    else if (rdtype =? 106) || (rdtype =? 104) then Some [FFix 2; FFix 8]
    else if rdtype =? 13 then Some [FCnt8; FCnt8]
    else if rdtype =? 19 then Some [FCnt8]
    (* LP; TKEY: uncompressed names that keep their case (repo commits 4d820d6, 3aeb81b) *)
    else if rdtype =? 107 then Some [FFix 2; FNameX]
    else if rdtype =? 249 then Some [FNameX; FFix 12; FCnt16; FCnt16]
    (* DSYNC *)
    else if rdtype =? 66 then Some [FFix 5; FNameX]
    (* DNAME; NSEC; BRID HHIT *)
    else if rdtype =? 39 then Some [FNameX]
    else if rdtype =? 47 then Some [FNameX; FChk 4]
    else if (rdtype =? 68) || (rdtype =? 67) then Some [FRest]
    (* KEY; DS DLV; CDS; ZONEMD; CAA; CSYNC; NSEC3 *)
    else if rdtype =? 25 then Some [FFix 4; FRest]
    else if (rdtype =? 43) || (rdtype =? 32769) then Some [FChk 1]
    else if rdtype =? 59 then Some [FChk 5]
    else if rdtype =? 63 then Some [FChk 2]
    else if rdtype =? 257 then Some [FChk 3]
    else if rdtype =? 62 then Some [FFix 6; FChk 4]
    else if rdtype =? 50 then Some [FFix 4; FCnt8; FCnt8; FChk 4]
    (* NSEC3PARAM; URI *)
    else if rdtype =? 51 then Some [FFix 4; FCnt8]
    else if rdtype =? 256 then Some [FFix 4; FRest1]
    (* AMTRELAY: precedence, D bit + relay type, relay *)
    else if rdtype =? 260 then Some [FGw 2 1 127]
    else if zmem rdtype any_types then None
    else if rdclass =? cIN then
      if rdtype =? 1 then Some [FFix 4]
      else if rdtype =? 28 then Some [FFix 16]
      else if rdtype =? 33 then Some [FFix 6; FNameC]
      (* KX; PX; DHCID NSAP *)
      else if rdtype =? 36 then Some [FFix 2; FNameU]
      else if rdtype =? 26 then Some [FFix 2; FNameU; FNameU]
      else if (rdtype =? 49) || (rdtype =? 22) then Some [FRest]
      else if rdtype =? 23 then Some [FNameX]      (* NSAP-PTR *)
      (* WKS; NAPTR *)
      else if rdtype =? 11 then Some [FFix 5; FRest]
      else if rdtype =? 35 then Some [FFix 4; FCnt8; FCnt8; FCnt8; FNameC]
      (* IPSECKEY: precedence, gateway type, algorithm, gateway, key *)
      else if rdtype =? 45 then Some [FGw 3 1 255; FRest]
      else if zmem rdtype in_types then None
      else Some [FRest]
    else if (rdclass =? 3) && (rdtype =? 1) then Some [FNameX; FFix 2]     (* dns.rdtypes.CH.A (repo commit 7eaebe9) *)
    else Some [FRest].

  (* TXTBase.from_wire_parser: while parser.remaining() > 0: get_counted_bytes() *)
  Fixpoint txt_loop (fuel : nat) (endp cur : nat) (count : nat) : res nat :=
    match fuel with
    | O => Internal iFuel
    | S f =>
        if Nat.leb endp cur then Ok count
        else
          do l <- rd_u8 endp cur;
          do _ <- rd_bytes endp (cur + 1) (Z.to_nat l);
          txt_loop f endp (cur + 1 + Z.to_nat l) (S count)
    end.

  Fixpoint dec_fields (fs : list fld) (origin : option name) (endp cur : nat) (acc : rdata)
    : res (rdata * nat) :=
    match fs with
    | [] => Ok (rev acc, cur)
    | FFix n :: r => do b <- rd_bytes endp cur n; dec_fields r origin endp (cur + n) (PB b :: acc)
    | FNameC :: r => do nc <- get_name origin endp cur; dec_fields r origin endp (snd nc) (PN (fst nc) :: acc)
    | FNameU :: r => do nc <- get_name origin endp cur; dec_fields r origin endp (snd nc) (PU (fst nc) :: acc)
    | FNameA :: r => do nc <- get_name None endp cur; dec_fields r origin endp (snd nc) (PU (fst nc) :: acc)
    | FNameX :: r => do nc <- get_name origin endp cur; dec_fields r origin endp (snd nc) (PX (fst nc) :: acc)
    | FRest :: r => do b <- rd_bytes endp cur (endp - cur); dec_fields r origin endp endp (PB b :: acc)
    | FCnt16 :: r =>
        do l <- rd_u16 endp cur;
        do _ <- rd_bytes endp (cur + 2) (Z.to_nat l);
        do b <- rd_bytes endp cur (2 + Z.to_nat l);
        dec_fields r origin endp (cur + 2 + Z.to_nat l) (PB b :: acc)
    | FChk k :: r =>
        do b <- rd_bytes endp cur (endp - cur);
        if chk k b then dec_fields r origin endp endp (PB b :: acc) else Lib eFormError
    | FRest1 :: r =>
        if Nat.eqb (endp - cur) 0 then Lib eFormError
        else do b <- rd_bytes endp cur (endp - cur); dec_fields r origin endp endp (PB b :: acc)
    | FCnt8 :: r =>
        do l <- rd_u8 endp cur;
        do b <- rd_bytes endp cur (1 + Z.to_nat l);
        dec_fields r origin endp (cur + 1 + Z.to_nat l) (PB b :: acc)
    | FMax16 mx :: r =>
        do v <- rd_u16 endp cur;
        do b <- rd_bytes endp cur 2;
        if v >? mx then Lib eFormError      (* ValueError from Rcode.make, wrapped *)
        else dec_fields r origin endp (cur + 2) (PB b :: acc)
    | FGw n i mk :: r =>
        do b <- rd_bytes endp cur n;
        let t := Z.land (nth i b 0) mk in
        if t =? 0 then dec_fields r origin endp (cur + n) (PB b :: acc)
        else if (t =? 1) || (t =? 2) then
          let k := if t =? 1 then 4%nat else 16%nat in
          do a <- rd_bytes endp (cur + n) k;
          dec_fields r origin endp (cur + n + k) (PB a :: PB b :: acc)
        else if t =? 3 then
          do nc <- get_name origin endp (cur + n);
          dec_fields r origin endp (snd nc) (PX (fst nc) :: PB b :: acc)
        else Lib eFormError
    | FTxt :: r =>
        do c <- txt_loop (S (endp - cur)) endp cur 0;
        if Nat.eqb c 0 then Lib eFormError      (* ValueError, wrapped *)
        else do b <- rd_bytes endp cur (endp - cur); dec_fields r origin endp endp (PB b :: acc)
    end.

  (* adjacent opaque pieces are one opaque piece *)
  Fixpoint merge_pb (ps : rdata) : rdata :=
    match ps with
    | PB a :: r =>
        match merge_pb r with
        | PB b :: r' => PB (a ++ b) :: r'
        | r' => match a with [] => r' | _ => PB a :: r' end
        end
    | p :: r => p :: merge_pb r
    | [] => []
    end.

  (* `with parser.restrict_to(rdlen): rd = dns.rdata.from_wire_parser(...)`; cur + rdlen <= endp
     was checked by the caller *)
  Definition dec_rdata (rdclass rdtype : Z) (origin : option name) (cur rdlen : nat) : res rdata :=
    match schema_of rdclass rdtype with
    | None => Lib eUnmodelled
    | Some fs =>
        do rc <- dec_fields fs origin (cur + rdlen) cur [];
        if Nat.eqb (snd rc) (cur + rdlen) then Ok (fst rc) else Lib eFormError
    end.

  (* option codes with a specific class in dns.edns._type_to_class *)
  (* the option codes with a class of their own (dns.edns._type_to_class) *)
  Definition special_options : list Z := [3; 8; 10; 15; 18; 22; 23; 24; 25].
  (* ... all of them are modelled: REPORTCHANNEL (a name read with the message parser) in opts_loop itself,
     the others by opt_dec *)
  Definition unmodelled_options : list Z := [].

  (* OPT.from_wire_parser *)
  Fixpoint opts_loop (fuel : nat) (endp cur : nat) (acc : list (Z * list Z)) : res (list (Z * list Z)) :=
    match fuel with
    | O => Internal iFuel
    | S f =>
        if Nat.leb endp cur then Ok (rev acc)
        else
          do otype <- rd_u16 endp cur;
          do olen <- rd_u16 endp (cur + 2);
          do data <- rd_bytes endp (cur + 4) (Z.to_nat olen);
          do d <- (if otype =? 18 then
                     (* REPORTCHANNEL: parser.get_name() under restrict_to(olen); kept as Name.to_wire() *)
                     do nc <- nm_from_wire (cur + 4 + Z.to_nat olen) (cur + 4);
                     if Nat.eqb (snd nc) (cur + 4 + Z.to_nat olen) then Ok (wire_labels false (fst nc))
                     else Lib eFormError
                   else opt_dec otype data);
          opts_loop f endp (cur + 4 + Z.to_nat olen) ((otype, d) :: acc)
    end.
End Reader.

(* ---------- Rdata equality / Rdataset.add ---------- *)
(* Rdata.__eq__: to_digestable() (origin root for relative names), plus "was relative" flag *)
Definition piece_digest (p : piece) : bool * list Z :=
  match p with
  | PB b => (false, b)
  | PN n | PU n =>
      if is_absolute n then (false, wire_labels true n) else (true, wire_labels true (n ++ [[]]))
  | PX n =>
      if is_absolute n then (false, wire_labels false n) else (true, wire_labels false (n ++ [[]]))
  end.
Definition rd_digest (rd : rdata) : bool * list Z :=
  let ks := map piece_digest rd in (existsb fst ks, concat (map snd ks)).
Definition rdata_eqb (a b : rdata) : bool :=
  let ka := rd_digest a in let kb := rd_digest b in
  Bool.eqb (fst ka) (fst kb) && zlist_eqb (snd ka) (snd kb).

Definition is_singleton (rdtype : Z) : bool :=
  (rdtype =? 6) || (rdtype =? 30) || (rdtype =? 39) || (rdtype =? 47) || (rdtype =? 5).

Definition set_rds (rs : rrset) (ttl : Z) (rds : list rdata) : rrset :=
  mkRR (rname rs) (rclass rs) (rtype rs) (rcovers rs) (rdeleting rs) ttl rds.

(* Rdataset.add(rd, ttl): update_ttl, singleton clear, set insertion *)
Definition rrset_add (rs : rrset) (rd : rdata) (ttl : Z) : rrset :=
  let ttl' := match rrds rs with [] => ttl | _ => if ttl <? rttl rs then ttl else rttl rs end in
  let rds := match rrds rs with [] => [] | _ => if is_singleton (rtype rs) then [] else rrds rs end in
  set_rds rs ttl' (if existsb (rdata_eqb rd) rds then rds else rds ++ [rd]).

(* ---------- Message.find_rrset with the index ---------- *)
Definition odel_eqb (a b : option Z) : bool :=
  match a, b with
  | None, None => true
  | Some x, Some y => x =? y
  | _, _ => false
  end.

Definition key_match (n : name) (c t cov : Z) (del : option Z) (rs : rrset) : bool :=
  name_eqb (rname rs) n && (rclass rs =? c) && (rtype rs =? t) && (rcovers rs =? cov)
  && odel_eqb (rdeleting rs) del.

(* apply f to the first element satisfying p *)
Fixpoint upd_first {A} (p : A -> bool) (f : A -> A) (l : list A) : option (list A) :=
  match l with
  | [] => None
  | x :: r => if p x then Some (f x :: r)
              else match upd_first p f r with Some r' => Some (x :: r') | None => None end
  end.

(* find_rrset(section, name, rdclass, rdtype, covers, deleting, create=True, force_unique)
   followed by f on the rrset found or created.  self.index maps a key to the most recently
   created rrset with that key, i.e. the last match in the section list. *)
Definition find_add (sec : list rrset) (n : name) (c t cov : Z) (del : option Z)
           (force_unique : bool) (f : rrset -> rrset) : list rrset :=
  let fresh := mkRR n c t cov del 0 [] in
  if force_unique then sec ++ [f fresh]
  else match upd_first (key_match n c t cov del) f (rev sec) with
       | Some l => rev l
       | None => sec ++ [f fresh]
       end.

Definition get_sec (m : msg) (s : Z) : list rrset :=
  if s =? 0 then mq m else if s =? 1 then man m else if s =? 2 then mau m else mad m.
Definition set_sec (m : msg) (s : Z) (l : list rrset) : msg :=
  mkMsg (mid m) (mflags m)
        (if s =? 0 then l else mq m) (if s =? 1 then l else man m)
        (if s =? 2 then l else mau m) (if s =? 3 then l else mad m) (mopt m) (mtsig m).
Definition set_opt (m : msg) (o : optrec) : msg :=
  mkMsg (mid m) (mflags m) (mq m) (man m) (mau m) (mad m) (Some o) (mtsig m).
Definition set_tsig (m : msg) (kn : name) (rd : rdata) : msg :=
  mkMsg (mid m) (mflags m) (mq m) (man m) (mau m) (mad m) (mopt m) (Some (kn, rd)).

(* ---------- _WireReader ---------- *)
Record popts := mkPopts {
  p_one_rr : bool; p_ignore_trailing : bool; p_question_only : bool; p_xfr : bool;
  p_keyring_false : bool;     (* keyring=False (skip validation) instead of None *)
  p_raise_on_trunc : bool }.

Definition is_metaclass (c : Z) : bool := (c =? cNONE) || (c =? cANY).

(* Message._parse_rr_header / UpdateMessage._parse_rr_header: (rdclass, rdtype, deleting, empty) *)
Definition parse_rr_header (is_update : bool) (m : msg) (section rdclass rdtype : Z)
  : res (Z * Z * option Z * bool) :=
  if negb is_update then Ok (rdclass, rdtype, None, false)
  else if section =? 0 then
    if is_metaclass rdclass || negb (rdtype =? tSOA) || (match mq m with [] => false | _ => true end)
    then Lib eFormError
    else Ok (rdclass, rdtype, None, false)
  else
    match mq m with
    | [] => Lib eFormError
    | z :: _ =>
        if (rdclass =? cANY) || (rdclass =? cNONE) then
          Ok (rclass z, rdtype, Some rdclass, (rdclass =? cANY) || (section =? 1))
        else Ok (rdclass, rdtype, None, false)
    end.

(* Message._parse_special_rr_header *)
Definition parse_special_rr_header (m : msg) (section : Z) (count position : nat) (n : name)
           (rdclass rdtype : Z) : res (Z * Z * option Z * bool) :=
  if rdtype =? tOPT then
    if negb (section =? 3) || (match mopt m with Some _ => true | None => false end)
       || negb (name_eqb n [[]])
    then Lib eBadEDNS else Ok (rdclass, rdtype, None, false)
  else (* TSIG *)
    if negb (section =? 3) || negb (rdclass =? cANY) || negb (Nat.eqb position (count - 1))
    then Lib eBadTSIG else Ok (rdclass, rdtype, None, false).

Section Read2.
  Variable wire : list Z.
  Variable origin : option name.
  Variable po : popts.
  Variable is_update : bool.
  Let endp := length wire.

  (* _WireReader._get_question *)
  Fixpoint get_question (qcount : nat) (cur : nat) (m : msg) : res (nat * msg) :=
    match qcount with
    | O => Ok (cur, m)
    | S k =>
        do nc <- get_name wire origin endp cur;
        do rdtype <- rd_u16 wire endp (snd nc);
        do rdclass <- rd_u16 wire endp (snd nc + 2);
        do h <- parse_rr_header is_update m 0 rdclass rdtype;
        let '(rdclass', rdtype', _, _) := h in
        get_question k (snd nc + 4)%nat
                     (set_sec m 0 (find_add (mq m) (fst nc) rdclass' rdtype' 0 None true (fun x => x)))
    end.

  (* the wire-reading head of one iteration of _WireReader._get_section: owner name (absolute
     and relativized), offset after it, and the fixed fields *)
  Definition rr_head (cur : nat) : res (name * name * nat * Z * Z * Z * Z) :=
    do anc <- nm_from_wire wire endp cur;
    let absolute_name := fst anc in
    do n <- match origin with Some o => relativize absolute_name o | None => Ok absolute_name end;
    let c1 := snd anc in
    do rdtype <- rd_u16 wire endp c1;
    do rdclass <- rd_u16 wire endp (c1 + 2);
    do ttl <- rd_u32 wire endp (c1 + 4);
    do rdlen <- rd_u16 wire endp (c1 + 8);
    Ok (absolute_name, n, c1, rdtype, rdclass, ttl, rdlen).

  (* one iteration of the loop of _WireReader._get_section *)
  Definition get_rr (section : Z) (count i : nat) (cur : nat) (force_unique : bool) (m : msg)
    : res (nat * bool * msg) :=
    do hd <- rr_head cur;
    let '(absolute_name, n, c1, rdtype, rdclass, ttl, rdlen) := hd in
    do h <- (if (rdtype =? tOPT) || (rdtype =? tTSIG)
             then parse_special_rr_header m section count i n rdclass rdtype
             else parse_rr_header is_update m section rdclass rdtype);
    let '(rdclass', rdtype', deleting, empty) := h in
    let rdata_start := (c1 + 10)%nat in
    let rdl := Z.to_nat rdlen in
    if empty then
      if rdlen >? 0 then Lib eFormError
      else
        let fu := force_unique || (p_xfr po && (rdtype' =? tSOA)) in
        Ok (rdata_start, fu,
            set_sec m section (find_add (get_sec m section) n rdclass' rdtype' 0 deleting fu (fun x => x)))
    else if Nat.ltb (endp - rdata_start) rdl then Lib eFormError      (* restrict_to *)
    else if rdtype' =? tOPT then
      do os <- opts_loop wire (S rdl) (rdata_start + rdl) rdata_start [];
      Ok ((rdata_start + rdl)%nat, force_unique, set_opt m (mkOpt ttl rdclass' os))
    else
      do rd <- dec_rdata wire rdclass' rdtype' origin rdata_start rdl;
      let covers := if is_sigtype rdtype'
                    then match rd with PB (a :: b :: _) :: _ => a * 256 + b | _ => 0 end
                    else 0 in
      let fu := force_unique || (p_xfr po && (rdtype' =? tSOA)) in
      if rdtype' =? tTSIG then
        if negb (ttl =? 0) then Lib eBadTSIG            (* RFC 8945 4.2: TTL must be 0 *)
        else if negb (p_keyring_false po) then Lib eUnknownTSIGKey
        else Ok ((rdata_start + rdl)%nat, fu, set_tsig m absolute_name rd)
      else
        let ttl' := if ttl >? 2147483647 then 0 else ttl in
        Ok ((rdata_start + rdl)%nat, fu,
            set_sec m section
                    (find_add (get_sec m section) n rdclass' rdtype' covers deleting fu
                              (fun rs => rrset_add rs rd ttl'))).

  (* _WireReader._get_section: `for i in range(count)`; k records still to read from index i *)
  Fixpoint get_section (section : Z) (count i k : nat) (cur : nat) (force_unique : bool) (m : msg)
    : res (nat * bool * msg) :=
    match k with
    | O => Ok (cur, force_unique, m)
    | S k' =>
        do r <- get_rr section count i cur force_unique m;
        let '(cur', fu, m') := r in
        get_section section count (S i) k' cur' fu m'
    end.
End Read2.

Definition is_formerror_family (e : Z) : bool :=
  (e =? eFormError) || (e =? eNameTooLong) || (e =? eBadPointer) || (e =? eBadLabelType)
  || (e =? eShortHeader) || (e =? eTrailingJunk) || (e =? eBadEDNS) || (e =? eBadTSIG).

(* _WireReader.read + dns.message.from_wire *)
Definition from_wire (wire : list Z) (origin : option name) (po : popts) : res msg :=
  let endp := length wire in
  if Nat.ltb endp 12 then Lib eShortHeader
  else
    do id <- rd_u16 wire endp 0;
    do flags <- rd_u16 wire endp 2;
    do qcount <- rd_u16 wire endp 4;
    do ancount <- rd_u16 wire endp 6;
    do aucount <- rd_u16 wire endp 8;
    do adcount <- rd_u16 wire endp 10;
    let is_update := opcode_from_flags flags =? 5 in
    let one_rr := if is_update then true else p_one_rr po in
    let m0 := mkMsg id flags [] [] [] [] None None in
    let body :=
      do q <- get_question wire origin is_update (Z.to_nat qcount) 12 m0;
      if p_question_only po then Ok (snd q)
      else
        do a <- get_section wire origin po is_update 1 (Z.to_nat ancount) 0 (Z.to_nat ancount) (fst q) one_rr (snd q);
        do b <- get_section wire origin po is_update 2 (Z.to_nat aucount) 0 (Z.to_nat aucount) (fst (fst a)) one_rr (snd a);
        do c <- get_section wire origin po is_update 3 (Z.to_nat adcount) 0 (Z.to_nat adcount) (fst (fst b)) one_rr (snd b);
        if negb (p_ignore_trailing po) && negb (Nat.eqb (fst (fst c)) endp) then Lib eTrailingJunk
        else Ok (snd c) in
    match body with
    | Lib e =>
        if is_formerror_family e && negb (Z.land flags fTC =? 0) && p_raise_on_trunc po
        then Lib eTruncated else Lib e
    | Ok m => if negb (Z.land (mflags m) fTC =? 0) && p_raise_on_trunc po then Lib eTruncated else Ok m
    | Internal e => Internal e
    end.

(* ======================================================================= *)
(*                          harness interface                               *)
(* ======================================================================= *)
Definition obs_of_piece (p : piece) : obs :=
  match p with
  | PB b => B b
  | PN n => L [I 0; obs_of_name n]
  | PU n => L [I 1; obs_of_name n]
  | PX n => L [I 2; obs_of_name n]
  end.
Definition obs_of_rrset (rs : rrset) : obs :=
  L [obs_of_name (rname rs); I (rclass rs); I (rtype rs); I (rcovers rs);
     match rdeleting rs with Some d => I d | None => N end; I (rttl rs);
     L (map (fun rd => L (map obs_of_piece rd)) (rrds rs))].
Definition obs_of_msg (m : msg) : obs :=
  L [I (mid m); I (mflags m);
     L [L (map obs_of_rrset (mq m)); L (map obs_of_rrset (man m));
        L (map obs_of_rrset (mau m)); L (map obs_of_rrset (mad m))];
     match mopt m with
     | Some o => L [I (oflags o); I (opayload o); L (map (fun cd => L [I (fst cd); B (snd cd)]) (oopts o))]
     | None => N end;
     match mtsig m with
     | Some (kn, rd) => L [obs_of_name kn; L (map obs_of_piece rd)]
     | None => N end].

Fixpoint list_of_obs {A} (f : obs -> option A) (l : list obs) : option (list A) :=
  match l with
  | [] => Some []
  | x :: r => match f x, list_of_obs f r with
              | Some a, Some ar => Some (a :: ar)
              | _, _ => None
              end
  end.

Definition piece_of_obs (o : obs) : option piece :=
  match o with
  | B b => Some (PB b)
  | L [I 0; L n] => match name_of_obs n with Some n => Some (PN n) | None => None end
  | L [I 1; L n] => match name_of_obs n with Some n => Some (PU n) | None => None end
  | L [I 2; L n] => match name_of_obs n with Some n => Some (PX n) | None => None end
  | _ => None
  end.
Definition rdata_of_obs (o : obs) : option rdata :=
  match o with L ps => list_of_obs piece_of_obs ps | _ => None end.
Definition rrset_of_obs (o : obs) : option rrset :=
  match o with
  | L [L n; I c; I t; I cov; del; I ttl; L rds] =>
      match name_of_obs n, list_of_obs rdata_of_obs rds with
      | Some n, Some rds =>
          match del with
          | N => Some (mkRR n c t cov None ttl rds)
          | I d => Some (mkRR n c t cov (Some d) ttl rds)
          | _ => None
          end
      | _, _ => None
      end
  | _ => None
  end.
Definition sec_of_obs (o : obs) : option (list rrset) :=
  match o with L l => list_of_obs rrset_of_obs l | _ => None end.
Definition option_of_obs (o : obs) : option (Z * list Z) :=
  match o with L [I c; B d] => Some (c, d) | _ => None end.
Definition msg_of_obs (o : obs) : option msg :=
  match o with
  | L [I id; I flags; L [s0; s1; s2; s3]; opt; tsig] =>
      match sec_of_obs s0, sec_of_obs s1, sec_of_obs s2, sec_of_obs s3 with
      | Some q, Some an, Some au, Some ad =>
          let opt' := match opt with
                      | N => Some None
                      | L [I f; I p; L os] =>
                          match list_of_obs option_of_obs os with
                          | Some os => Some (Some (mkOpt f p os)) | None => None end
                      | _ => None
                      end in
          let tsig' := match tsig with
                       | N => Some None
                       | L [L kn; rd] =>
                           match name_of_obs kn, rdata_of_obs rd with
                           | Some kn, Some rd => Some (Some (kn, rd)) | _, _ => None end
                       | _ => None
                       end in
          match opt', tsig' with
          | Some o, Some t => Some (mkMsg id flags q an au ad o t)
          | _, _ => None
          end
      | _, _, _, _ => None
      end
  | _ => None
  end.

Definition bit (v : Z) (k : Z) : bool := negb (Z.land v k =? 0).
Definition popts_of (v : Z) : popts :=
  mkPopts (bit v 1) (bit v 2) (bit v 4) (bit v 8) (bit v 16) (bit v 32).

(* limit sweep for C08: results for lo, lo+1, ..., run-length encoded as (first limit, result) *)
Fixpoint sweep (n : nat) (lim : Z) (f : Z -> obs) (prev : option obs) : list obs :=
  match n with
  | O => []
  | S k =>
      let o := f lim in
      match prev with
      | Some p => if obs_eqb p o then sweep k (lim + 1) f prev
                  else L [I lim; o] :: sweep k (lim + 1) f (Some o)
      | None => L [I lim; o] :: sweep k (lim + 1) f (Some o)
      end
  end.

(* sequences of low-level Renderer calls (dns.renderer.Renderer used directly): add_question / add_rrset /
   reserve / release_reserved / add_opt / write_header / _write_tsig; TooBig is caught by the caller (the
   renderer has rolled back) and the sequence continues; any other exception ends it *)
Inductive rop :=
| RQ (n : name) (t c : Z) | RRS (sec : Z) (rs : rrset)
| RRES (size : Z) | RREL | ROPT (o : optrec) (pad os ts : Z) | RHDR | RTSIG (kn : name) (rd : rdata).

Definition rop_step (origin : option name) (id : Z) (op : rop) (r : rst) : res (bool * rst) :=
  match op with
  | RQ n t c => add_question origin n t c r
  | RRS s rs => add_rrset origin s rs r
  | RRES size => do r' <- reserve size r; Ok (false, r')
  | RREL => Ok (false, release_reserved r)
  | ROPT o pad os ts => add_opt origin o pad os ts r
  | RHDR => do r' <- write_header id r; Ok (false, r')
  | RTSIG kn rd => write_tsig origin kn rd r
  end.

Fixpoint run_rops (origin : option name) (id : Z) (ops : list rop) (r : rst) (acc : list obs) : list obs * rst :=
  match ops with
  | [] => (rev acc, r)
  | op :: rest =>
      match rop_step origin id op r with
      | Ok (big, r') => run_rops origin id rest r' (I (if big then 1 else 0) :: acc)
      | Lib e => (rev (E e :: acc), r)
      | Internal e => (rev (E e :: acc), r)
      end
  end.

Definition rop_of_obs (o : obs) : option rop :=
  match o with
  | L [I 10; I size] => Some (RRES size)
  | L [I 11] => Some RREL
  | L [I 12; L [I f; I p; L os]; I pad; I osz; I tsz] =>
      match list_of_obs option_of_obs os with
      | Some os => Some (ROPT (mkOpt f p os) pad osz tsz) | None => None end
  | L [I 13] => Some RHDR
  | L [I 14; L kn; rd] =>
      match name_of_obs kn, rdata_of_obs rd with
      | Some kn, Some rd => Some (RTSIG kn rd) | _, _ => None end
  | L [I 0; L n; I t; I c] => match name_of_obs n with Some n => Some (RQ n t c) | None => None end
  | L [I s; rs] => match rrset_of_obs rs with Some rs => Some (RRS s rs) | None => None end
  | _ => None
  end.

Definition run (c : obs) : obs :=
  match c with
  | L [I 1; m; o; I max_size; I reqp; I prefer; I pad] =>
      match msg_of_obs m, oname_of_obs o with
      | Some m, Some o => obs_of_res B (to_wire m o max_size reqp (prefer =? 1) pad)
      | _, _ => E eBadObs
      end
  | L [I 2; B w; o; I po] =>
      match oname_of_obs o with
      | Some o => obs_of_res obs_of_msg (from_wire w o (popts_of po))
      | None => E eBadObs
      end
  | L [I 3; I flags; I eflags; I v] =>
      L [I (rcode_from_flags flags eflags);
         obs_of_res (fun ve => L [I (fst ve); I (snd ve)]) (rcode_to_flags v);
         I (opcode_from_flags flags); I (opcode_to_flags v); I (use_edns_flags v eflags)]
  | L [I 4; m; I r; I op] =>
      match msg_of_obs m with
      | Some m =>
          obs_of_res (fun m1 => let m2 := m_set_opcode m1 op in
                                L [obs_of_msg m2; I (m_rcode m2); I (m_opcode m2); I (m_edns m2)])
                     (m_set_rcode m r)
      | None => E eBadObs
      end
  | L [I 5; m; o; I lo; I n; I reqp; I prefer; I pad] =>
      match msg_of_obs m, oname_of_obs o with
      | Some m, Some o =>
          L (sweep (Z.to_nat n) lo
                   (fun lim => obs_of_res B (to_wire m o lim reqp (prefer =? 1) pad)) None)
      | _, _ => E eBadObs
      end
  | L [I 7; o; I id; I flags; I max_size; L ops] =>
      match oname_of_obs o, list_of_obs rop_of_obs ops with
      | Some o, Some ops =>
          let '(res, r) := run_rops o id ops (mkRst (repeat 0 12) [] 0 0 0 0 0 flags max_size 0 false) [] in
          L [L res; obs_of_res (fun r' => B (out r')) (write_header id r)]
      | _, _ => E eBadObs
      end
  | L [I 6; m; o; L lims; I reqp; I prefer; I pad] =>
      match msg_of_obs m, oname_of_obs o with
      | Some m, Some o =>
          L (map (fun l => match l with
                           | I lim => obs_of_res B (to_wire m o lim reqp (prefer =? 1) pad)
                           | _ => E eBadObs end) lims)
      | _, _ => E eBadObs
      end
  | _ => E eBadObs
  end.
